"""Self-test variants for C04 (the wrapper is transparent and binds like Python)."""
from .variant import Variant, seeded, neutral, sub, chain

TW = 'beartype/_data/check/code/func/datacodefuncwrap.py'
WA = 'beartype/_decor/_nontype/_wrap/_wrapargs.py'
WM = 'beartype/_decor/_nontype/_wrap/wrapmain.py'
FLOOR_APPLIED = 12

VARIANTS = {
    # ---- R1: localisation per kind --------------------------------------------------
    'posonly-guard-dropped': seeded(TW, "    if {VAR_NAME_ARGS_LEN} > {{arg_index}}:\n        # Localize this positional-only parameter.",
                                    "    if True:\n        # Localize this positional-only parameter.", 'C04.R1',
                                    'IndexError when a positional-only parameter with a default is not passed'),
    'flex-default-is-checked': seeded(TW, "    if {VAR_NAME_PITH_ROOT} is not {ARG_NAME_GET_VIOLATION}:''',\n\n",
                                      "    if True:''',\n\n", 'C04.R1', nth=0,
                                      why='the sentinel standing for "not passed" is type-checked: every call relying on a default fails'),
    'kwonly-read-positionally': seeded(TW, "    {VAR_NAME_PITH_ROOT} = kwargs.get({{arg_name!r}}, {ARG_NAME_GET_VIOLATION})\n",
                                       "    {VAR_NAME_PITH_ROOT} = args[-1] if args else {ARG_NAME_GET_VIOLATION}\n", 'C04.R1'),
    'vararg-slice-bounded': seeded(TW, "in args[{{arg_index!r}}:]:", "in args[{{arg_index!r}}:{{arg_index!r}} + 1]:", 'C04.R1',
                                   'only the first variadic positional argument is checked'),
    'varkw-checks-all-keywords': seeded(TW, "for kwarg_name in kwargs.keys() - {ARG_NAME_ARGS_NAME_KEYWORDABLE})", "for kwarg_name in kwargs.keys())", 'C04.R1',
                                        'named keyword arguments are checked against the **kwargs hint'),
    # ---- R2: index / name provenance ------------------------------------------------
    'index-off-by-one': seeded(WA, "arg_name=arg_name, arg_index=arg_index)", "arg_name=arg_name, arg_index=arg_index + 1)", 'C04.R2'),
    'keywordable-misses-kwonly': seeded(WA, "            arg_kind in _ARG_KINDS_KEYWORD\n", "            arg_kind is ArgKind.POSITIONAL_OR_KEYWORD\n", 'C04.R2',
                                        'keyword-only arguments are checked against the **kwargs hint'),
    'keywordable-never-published': seeded(WA, "    if args_name_keywordable is not None:\n        decor_func.func_wrapper_locals[ARG_NAME_ARGS_NAME_KEYWORDABLE] = (\n            args_name_keywordable)",
                                          "    if args_name_keywordable is not None:\n        decor_func.func_wrapper_locals[ARG_NAME_ARGS_NAME_KEYWORDABLE] = (\n            set())", 'C04.R2'),
    # ---- R3: call-through -----------------------------------------------------------
    'call-drops-kwargs': seeded(TW, "{VAR_NAME_PITH_ROOT} = {{func_call_prefix}}{ARG_NAME_FUNC}(*args, **kwargs)\n",
                                "{VAR_NAME_PITH_ROOT} = {{func_call_prefix}}{ARG_NAME_FUNC}(*args)\n", 'C04.R3'),
    'unchecked-return-calls-twice': seeded(TW, "    return {ARG_NAME_FUNC}(*args, **kwargs)'''", "    {ARG_NAME_FUNC}(*args, **kwargs)\n    return {ARG_NAME_FUNC}(*args, **kwargs)'''", 'C04.R3'),
    'call-inside-try': seeded(TW, "    {VAR_NAME_PITH_ROOT} = {{func_call_prefix}}{ARG_NAME_FUNC}(*args, **kwargs)\n",
                              "    try:\n        {VAR_NAME_PITH_ROOT} = {{func_call_prefix}}{ARG_NAME_FUNC}(*args, **kwargs)\n    except TypeError:\n        raise\n", 'C04.R3',
                              'user exceptions travel through a handler of the wrapper'),
    'kwargs-popped': seeded(TW, "    {VAR_NAME_PITH_ROOT} = kwargs.get({{arg_name!r}}, {ARG_NAME_GET_VIOLATION})\n",
                            "    {VAR_NAME_PITH_ROOT} = kwargs.pop({{arg_name!r}}, {ARG_NAME_GET_VIOLATION})\n", 'C04',
                            'a keyword-only argument is removed before the call-through'),
    # ---- R4: ordering / returned value ---------------------------------------------
    'returns-none': seeded(TW, "CODE_NORMAL_RETURN_CHECKED = f'''\n    return {VAR_NAME_PITH_ROOT}'''", "CODE_NORMAL_RETURN_CHECKED = f'''\n    return None'''", 'C04.R4'),
    'return-check-before-params': seeded(WM, "    return f'{code_signature}{code_check_params}{code_check_return}'",
                                         "    return f'{code_signature}{code_check_return}{code_check_params}'", 'C04.R4',
                                         'the callable runs before its arguments are checked'),
    # ---- neutral --------------------------------------------------------------------
    'n-template-comment': neutral(TW, "        # Localize this positional-only parameter.", "        # Localise the positional-only parameter."),
    'n-arg-loop-var-renamed': Variant('neutral', [WA], (lambda files: {WA: __import__('re').sub(r'\barg_index\b', 'arg_pos', files[WA]).replace('arg_pos=arg_pos', 'arg_index=arg_pos')}), None,
                                      'loop variable renamed (keyword of the template kept)'),
    'n-keywordable-frozenset-check': neutral(WA, "            arg_kind in _ARG_KINDS_KEYWORD\n", "            (arg_kind in _ARG_KINDS_KEYWORD)\n"),
}
