"""Self-test variants for C05 (the import hook preserves program meaning)."""
import ast

from .variant import Variant, seeded, neutral, sub, chain, tseeded, replace_where, expr, stmts

MAIN = 'beartype/claw/_ast/clawastmain.py'
ASG = 'beartype/claw/_ast/_kind/clawastassign.py'
IMP = 'beartype/claw/_ast/_kind/clawastimport.py'
MOD = 'beartype/claw/_ast/_kind/clawastmodule.py'
P695 = 'beartype/claw/_ast/_pep/clawastpep695.py'
MAKE = 'beartype/_util/ast/utilastmake.py'
TEST = 'beartype/_util/ast/utilasttest.py'
PKG = 'beartype/claw/_package/_clawpkgmake.py'
FLOOR_APPLIED = 12

VARIANTS = {
    # ---- R1: only adds --------------------------------------------------------------
    'annassign-returns-check-only': seeded(ASG, "        return [node, node_func]", "        return [node_func]", 'C05.R1',
                                           'the annotated assignment itself disappears from the module'),
    'annassign-check-before-assignment': seeded(ASG, "        return [node, node_func]", "        return [node_func, node]", 'C05.R1',
                                                'the check reads the variable before it is assigned'),
    'classdef-deleted-when-hostile': seeded(MAIN, "        self._decorate_node_beartype(node=node, conf=self._conf)\n\n        # Recursively transform *ALL* child nodes of this parent class node.",
                                            "        self._decorate_node_beartype(node=node, conf=self._conf)\n        if not node.body:\n            return None\n\n        # Recursively transform *ALL* child nodes of this parent class node.",
                                            'C05.R1'),
    'module-body-reordered': seeded(MOD, "            node.body[node_index_import_beartype_attrs:0] = (node_import_all,)",
                                    "            node.body[node_index_import_beartype_attrs:1] = (node_import_all,)", 'C05',
                                    'the first real statement of the module is overwritten by the import'),
    'decorators-cleared': seeded(IMP, "            node.decorator_list.insert(0, node_beartype_decorator)\n",
                                 "            node.decorator_list.clear()\n            node.decorator_list.insert(0, node_beartype_decorator)\n", 'C05.R1',
                                 'user decorators are dropped under claw_decor_place=LAST'),
    # ---- R2 -------------------------------------------------------------------------
    'async-defs-not-visited': seeded(MAIN, "    visit_AsyncFunctionDef = visit_FunctionDef", "    visit_AsyncFunctionDef = NodeTransformer.generic_visit", 'C05.R2'),
    'functiondef-not-recursed': seeded(MAIN, "            self._decorate_node_beartype(node=node, conf=self._conf)\n        # Else, that callable is ignorable.",
                                       "            self._decorate_node_beartype(node=node, conf=self._conf)\n            return node\n        # Else, that callable is ignorable.",
                                       'C05.R2', 'closures of a typed function are no longer transformed'),
    'methods-decorated-twice': seeded(MAIN, "            not self._scopes.is_scope_class and\n", "", 'C05.R2',
                                      'methods are decorated individually in addition to their class'),
    'typed-test-ignores-kwonly': seeded(TEST, "    if node_arg_nodes.kwonlyargs:", "    if False and node_arg_nodes.kwonlyargs:", 'C05.R2',
                                        'def f(*, x: int) is treated as untyped and never checked'),
    # ---- R3 -------------------------------------------------------------------------
    'call-expr-not-located': seeded(MAKE, "    copy_node_metadata(node_src=node_sibling, node_trg=node_func)\n\n    # Return this expression node.",
                                    "    # Return this expression node.", 'C05.R3',
                                    'compile() fails with "required field lineno missing" for hooked modules with annotated assignments'),
    'decorator-call-not-located': seeded(IMP, "            copy_node_metadata(node_src=node, node_trg=node_beartype_decorator)\n        # Else, this configuration is simply the default",
                                         "        # Else, this configuration is simply the default", 'C05.R3'),
    'pep695-loop-not-located': seeded(P695, "            node_forwardref_define,\n            node_forwardrefs_define,\n        ))", "            node_forwardref_define,\n        ))", 'C05.R3'),
    # ---- R4 -------------------------------------------------------------------------
    'import-before-future': seeded(MOD, "                    isinstance(node_prev, ImportFrom) and\n                    node_prev.module == '__future__'",
                                   "                    isinstance(node_prev, ImportFrom) and\n                    node_prev.module == '__past__'", 'C05.R4',
                                   'SyntaxError: from __future__ imports must occur at the beginning of the file'),
    'import-at-top': seeded(MOD, "            node.body[node_index_import_beartype_attrs:0] = (node_import_all,)",
                            "            node.body[0:0] = (node_import_all,)", 'C05.R4', 'the module docstring stops being the docstring'),
    # ---- R5 -------------------------------------------------------------------------
    'annassign-attribute-targets-skipped': seeded(ASG, "        elif isinstance(node_target, Attribute):", "        elif isinstance(node_target, Attribute) and False:", 'C05.R5',
                                                  'self.x: int = "s" is silently accepted'),
    'annassign-checked-in-class-scope-only': seeded(ASG, "            self._scopes.is_scope_class  # type: ignore[attr-defined]\n        ):",
                                                    "            not self._scopes.is_scope_class  # type: ignore[attr-defined]\n        ):", 'C05.R5'),
    'annassign-option-ignored': seeded(ASG, "                self._conf.claw_is_pep526 and  # type: ignore[attr-defined]\n", "", 'C05.R5',
                                       'claw_is_pep526=False still injects checks'),
    # ---- R6 -------------------------------------------------------------------------
    'hook-conf-keeps-fatal-decoration': seeded(PKG, "    if not conf._is_warning_cls_on_decorator_exception_set:", "    if False:", 'C05.R6',
                                               'one undecoratable callable makes the whole import fail'),
    # ---- R7 -------------------------------------------------------------------------
    'placement-first-inserts-nothing': seeded(IMP, "        elif decoration_position is BeartypeDecorPlace.FIRST:\n            node.decorator_list.append(node_beartype_decorator)",
                                              "        elif decoration_position is BeartypeDecorPlace.FIRST:\n            if node.decorator_list:\n                node.decorator_list.append(node_beartype_decorator)", 'C05.R7'),
    # ---- R7 placement / R3 factories / R9 single evaluation (from round-2 seeded changes) ----------
    'class-and-callable-positions-swapped': tseeded(IMP, lambda t: replace_where(
        t, lambda n: isinstance(n, ast.IfExp) and 'claw_decor_place_type' in ast.unparse(n),
        lambda n: expr('conf.claw_decor_place_func if isinstance(node, ClassDef) else conf.claw_decor_place_type'),
        scope='_decorate_node_beartype'), 'C05.R7', 'classes are decorated at the position configured for callables and vice versa'),
    'first-and-last-swapped': tseeded(IMP, lambda t: replace_where(
        t, lambda n: isinstance(n, ast.Expr) and ast.unparse(n) == 'node.decorator_list.insert(0, node_beartype_decorator)',
        lambda n: stmts('node.decorator_list.append(node_beartype_decorator)')[0], scope='_decorate_node_beartype'), 'C05.R7'),
    'factory-relocates-its-arguments': seeded(MAKE, "    copy_node_metadata(node_src=node_sibling, node_trg=node_func_call)\n",
                                              "    copy_node_metadata(node_src=node_sibling, node_trg=(node_func_call, *nodes_args))\n", 'C05.R3',
                                              'the annotation node shared with the original statement gets the line number of the statement'),
    # ---- neutral --------------------------------------------------------------------
    'nested-classes-skipped-in-class-bodies': tseeded(MAIN, lambda t: replace_where(
        t, lambda n: isinstance(n, ast.Expr) and 'self._decorate_node_beartype' in ast.unparse(n),
        lambda n: stmts('if not self._scopes.is_scope_class:\n    self._decorate_node_beartype(node=node, conf=self._conf)')[0],
        scope='BeartypeNodeTransformer.visit_ClassDef'), 'C05.R2', 'seeded C05-22'),
    'n-annassign-return-tuple': neutral(ASG, "        return [node, node_func]", "        return (node, node_func)"),
    'n-visit-param-renamed': Variant('neutral', [MAIN], (lambda files: _rename_classdef_param(files)), None, 'parameter of visit_ClassDef renamed'),
    'n-module-scan-comment': neutral(MOD, "                    node_prev.module == '__future__'", "                    '__future__' == node_prev.module"),
}


def _rename_classdef_param(files):
    import re
    src = files[MAIN]
    m = re.search(r'    def visit_ClassDef\(self, node: ClassDef\).*?(?=\n    def )', src, flags=re.S)
    if not m:
        return None
    body = m.group(0)
    # keep the keyword name of the callee's parameter (`node=`), rename the local
    body2 = re.sub(r'\bnode\b(?!=)', 'node_cls', body).replace('node=node', 'node=node_cls')
    files[MAIN] = src[:m.start()] + body2 + src[m.end():]
    return files
