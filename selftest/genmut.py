"""Seeded and neutral variants of the code generator (templates, makers, sign sets, vale
factories), shared by the self-tests of C01, C02, C09, C10 and C12.  Each entry:
name -> (files, edit, {property: expected rule or None (= must stay silent)}, why).
"""
from .variant import sub, chain

D85 = 'beartype/_data/check/code/pep/datacodepep484585.py'
D604 = 'beartype/_data/check/code/pep/datacodepep484604.py'
D586 = 'beartype/_data/check/code/pep/datacodepep586.py'
D593 = 'beartype/_data/check/code/pep/datacodepep593.py'
CM = 'beartype/_check/code/codemain.py'
UN = 'beartype/_check/code/_pep/pep484/codepep484604union.py'
LOG = 'beartype/_check/cls/logic/logcls.py'
SETS = 'beartype/_data/hint/sign/datahintsignset.py'
VOP = 'beartype/vale/_core/_valecorebinary.py'
VEQ = 'beartype/vale/_is/_valeisoper.py'
VTY = 'beartype/vale/_is/_valeistype.py'
VOB = 'beartype/vale/_is/_valeisobj.py'
SNIP = 'beartype/vale/_util/_valeutilsnip.py'
HTC = 'beartype/_check/cls/hint/tree/hinttreecode.py'
E593 = 'beartype/_check/error/_pep/errpep593.py'
ECON = 'beartype/_check/error/_pep/pep484585/errpep484585container.py'
EMAP = 'beartype/_check/error/_pep/pep484585/errpep484585mapping.py'

IOP = 'beartype/_data/cls/pep/pep544/io/dataclspep544io.py'
REPR = 'beartype/_data/hint/datahintrepr.py'

# name: (files, edit, expectations, why)
M = {
    'union-refetches-item-for-first-subscripted-member': ([UN], sub(UN,
        "                        hint_childs_nonpep or\n", "                        False or\n"),
        {'C09': 'C09.R5', 'C10': None}, 'list[int | list[str]] reads the sampled item twice (seeded C09-12)'),
    'iterator-prefix-mapped-to-iterable-sign': ([REPR], sub(REPR, "'collections.abc.Iterator': HintSignIterator,", "'collections.abc.Iterator': HintSignIterable,"),
        {'C10': 'C10.R7'}, 'collections.abc.Iterator[T] is checked like an Iterable: next() on a sized iterator (seeded C10-22)'),
    'explainer-enumerates-without-a-draw': ([LOG], sub(LOG, "        if cause.conf.strategy is BeartypeStrategy.O1:",
        "        if cause.conf.strategy is BeartypeStrategy.O1 and cause.random_int is not None:"),
        {'C09': 'C09.R3', 'C10': None}, 'the explanation walks the whole container when the wrapper made no draw (seeded C09-23)'),
    'isinstance-builtin-by-bare-name': ([VTY], chain(sub(VTY, "from beartype._util.cls.utilclstest import is_type_subclass",
        "from beartype._util.cls.utilclstest import is_type_builtin, is_type_subclass"), sub(VTY, "        param_name_types = add_func_scope_attr(\n            attr=types, func_scope=is_valid_code_locals)",
        "        param_name_types = (types.__name__ if isinstance(types, type) and is_type_builtin(types) else add_func_scope_attr(\n            attr=types, func_scope=is_valid_code_locals))")),
        {'C12': 'C12.R6'}, 'a module-level name shadowing the builtin changes the verdict (seeded C12-23)'),
    'isequal-unwraps-one-tuples': ([VEQ], sub(VEQ, "        param_name_obj_value = add_func_scope_attr(\n            attr=obj, func_scope=is_valid_code_locals)",
        "        if isinstance(obj, tuple) and len(obj) == 1:\n            obj = obj[0]\n        param_name_obj_value = add_func_scope_attr(\n            attr=obj, func_scope=is_valid_code_locals)"),
        {'C12': 'C12.R6'}, 'IsEqual[(3,)] means == 3 (seeded C12-22)'),
    'textio-hook-reads-the-stream': ([IOP], sub(IOP, "'b' not in obj.mode", "not isinstance(obj.read(0), bytes)"),
        {'C10': 'C10.R6'}, 'checking a stream against TextIO calls its read() (seeded C10-12)'),
    'binaryio-hook-mode-via-getattr': ([IOP], sub(IOP, "'b' in obj.mode", "'b' in getattr(obj, 'mode')"),
        {'C10': None}, 'the same attribute read, spelled with getattr'),
    'container-drops-empty-guard': ([D85], sub(D85,
        "(not len({pith_curr_var_name}) or {hint_child_placeholder})", "({hint_child_placeholder})"),
        {'C01': 'C01.R3'}, 'an empty list[int] raises ZeroDivisionError / StopIteration instead of being accepted'),
    'union-loses-nonpep-half': ([UN], sub(UN, "    if hint_childs_nonpep:\n", "    if hint_childs_nonpep and not hint_childs_sane_pep:\n"),
        {'C01': 'C01.R3'}, 'int | list[str] no longer accepts int'),
    'sequence-always-first-item': ([LOG], sub(LOG,
        "        CODE_PEP484585_SEQUENCE_RANDOM_PITH_CHILD_EXPR\n        if hint_tree.conf.is_random else",
        "        CODE_PEP484585_SEQUENCE_NONRANDOM_PITH_CHILD_EXPR\n        if hint_tree.conf.is_random else"),
        {'C02': 'C02.R1', 'C01': None}, 'only index 0 is ever sampled although is_random is on'),
    'sampler-index-off-by-one-modulus': ([D85], sub(D85,
        "[{VAR_NAME_RANDOM_INT} % len({{pith_curr_var_name}})]", "[{VAR_NAME_RANDOM_INT} % (len({{pith_curr_var_name}}) + 1)]"),
        {'C02': 'C02.R1', 'C01': 'C01.R3'}, 'index may equal len: IndexError on a conforming list'),
    'tuple-length-test-dropped': ([D85], sub(D85,
        "{{indent_curr}}    len({pith_curr_var_name}) == {hint_childs_len} and'''", "{{indent_curr}}    True and'''"),
        {'C02': 'C02.R3', 'C01': None}, 'tuple[int, str] accepts (1, "a", 3.0)'),
    'tuple-child-index-shift': ([CM], sub(CM, "pith_child_index=hint_child_index,", "pith_child_index=hint_child_index and 0,"),
        {'C02': 'C02.R3', 'C01': 'C01.R3'}, 'every child of a fixed tuple is tested against item 0'),
    'literal-eq-to-is': ([D586], sub(D586, "{pith_curr_var_name} == {hint_child_expr} or'''", "{pith_curr_var_name} is {hint_child_expr} or'''"),
        {'C02': 'C02.R3', 'C01': 'C01.R3'}, 'Literal[1000] rejects an equal but non-identical int'),
    'subclass-test-dropped': ([D85], sub(D85, "{indent_curr}    issubclass({pith_curr_var_name}, {hint_curr_expr})", "{indent_curr}    True"),
        {'C02': 'C02.R3', 'C01': None}, 'type[Base] accepts any class'),
    'annotated-validators-joined-by-or': ([D593, CM], chain(
        sub(D593, "{indent_curr}    {hint_child_expr} and'''", "{indent_curr}    {hint_child_expr} or '''")),
        {'C02': 'C02.R3', 'C12': 'C12.R4', 'C01': None}, 'Annotated[int, A, B] accepts when only A holds'),
    'mapping-value-not-checked': ([D85], sub(D85, "{{indent_curr}}        {{hint_key_placeholder}} and\n", "{{indent_curr}}        {{hint_key_placeholder}} or\n"),
        {'C02': 'C02.R3'}, 'dict[str, int] accepts a bad value when the key is fine'),
    'mapping-key-from-nowhere': ([D85], sub(D85, "'''{pith_curr_var_name}[{pith_key_var_name}]'''", "'''{pith_curr_var_name}.setdefault({pith_key_var_name})'''"),
        {'C10': 'C10.R1', 'C09': 'C09.R1'}, 'value looked up through a mutating method'),
    'container-full-scan': ([D85], sub(D85, "(not len({pith_curr_var_name}) or {hint_child_placeholder})",
        "(not len({pith_curr_var_name}) or all({hint_child_placeholder} for _ in {pith_curr_var_name}))"),
        {'C09': 'C09.R1'}, 'a generator expression over the whole container'),
    'container-membership-test': ([D85], sub(D85, "(not len({pith_curr_var_name}) or {hint_child_placeholder})",
        "(not len({pith_curr_var_name}) or (None not in {pith_curr_var_name} and {hint_child_placeholder}))"),
        {'C09': 'C09.R1'}, 'a linear membership test'),
    'reiterable-consumes-iterator': ([D85], sub(D85, "CODE_PEP484585_REITERABLE_PITH_CHILD_EXPR = (\n    '''next(iter({pith_curr_var_name}))''')",
        "CODE_PEP484585_REITERABLE_PITH_CHILD_EXPR = (\n    '''next({pith_curr_var_name})''')"),
        {'C10': 'C10.R1'}, 'next() applied to the object itself'),
    'iterator-filed-as-reiterable': ([SETS], sub(SETS, "    HintSignValuesView,\n\n", "    HintSignValuesView,\n    HintSignIterator,\n\n", nth=0),
        {'C10': 'C10.R2'}, 'Iterator[int] items are consumed by the check'),
    'quasiiterable-guard-dropped': ([D85], sub(D85,
        "{{indent_curr}}    (not isinstance({{pith_curr_var_name}}, {{collection_abc_expr}}) or\n", "{{indent_curr}}    (\n"),
        {'C09': 'C09.R2', 'C10': 'C10.R2'}, 'a one-shot iterable is iterated'),
    'validator-and-becomes-or-in-code-only': ([VOP], sub(VOP, "f'({validator_operand_1._is_valid_code} and '", "f'({validator_operand_1._is_valid_code} or '"),
        {'C12': 'C12.R1'}, 'A & B: callable says and, code says or'),
    'isequal-operands-swapped-in-callable': ([VEQ], sub(VEQ, "is_valid = lambda pith: pith == obj", "is_valid = lambda pith: obj == pith"),
        {'C12': 'C12.R1'}, 'operand order of == differs between the two representations'),
    'issubclass-callable-loses-type-test': ([VTY], sub(VTY, "is_valid = lambda pith: is_type_subclass(pith, types)", "is_valid = lambda pith: issubclass(pith, types)"),
        {'C12': 'C12.R1'}, 'callable raises TypeError on non-classes, code does not'),
    'binary-scope-replaced-not-merged': ([VOP], sub(VOP,
        "        is_valid_code_locals = merge_mappings_two(\n            validator_operand_1._is_valid_code_locals,\n            validator_operand_2._is_valid_code_locals,\n        )",
        "        is_valid_code_locals = validator_operand_2._is_valid_code_locals"),
        {'C12': 'C12.R2'}, 'the first operand\'s scope names are unbound'),
    'isinstance-template-unparenthesised-context': ([SNIP], sub(SNIP, "{{indent}}isinstance({{obj}}, {param_name_types})'''", "{{indent}}type({{obj}}) is {param_name_types} or {{obj}}.__class__ is {param_name_types}'''"),
        {'C12': 'C12.R1'}, 'code string no longer matches the isinstance callable'),
    'explain-annotated-first-validator-only': ([E593], sub(E593, "    for hint_validator in hint_validators:", "    for hint_validator in hint_validators[:1]:"),
        {'C12': 'C12.R5'}, 'explanation path ignores later validators'),
    'explain-container-enumerates-non-collections': ([ECON], sub(ECON, "        not isinstance(cause.pith, Collection) or\n", ""),
        {'C10': 'C10.R2'}, 'explanation path measures and iterates a one-shot iterable (the guard added by the F17 fix removed)'),
    'explain-mapping-scans-under-o1': ([EMAP], sub(EMAP, "        pith_items = (pith_item,)", "        pith_items = tuple(cause.pith.items())"),
        {'C09': 'C09.R3'}, 'explanation path is linear under O1'),
    'pith-var-index-not-bumped': ([CM], sub(CM, "                    hint_tree.hint_curr.pith_var_name_index += 1\n\n                    # Assignment expression",
        "                    pass\n\n                    # Assignment expression") ,
        {'C01': None}, 'placeholder — replaced below'),
    'template-field-renamed': ([D85], sub(D85, "isinstance({pith_curr_assign_expr}, type) and", "isinstance({pith_curr_assign_expression}, type) and"),
        {'C01': 'C01.R1'}, 'KeyError at decoration time for type[...] hints'),
    # ---- neutral ----------------------------------------------------------------
    'n-explain-redundant-collection-test-dropped': ([ECON], sub(ECON, "    if isinstance(cause.pith, Collection):", "    if True:"),
        {'C10': None}, 'since the F17 fix the early return covers non-collections: the second test is redundant (the former shape rule reported this)'),
    'n-template-comment-edit': ([D85], sub(D85, "# True only if this pith is of this container type *AND*...", "# True iff this pith is an instance of this container."),
        {'C01': None, 'C02': None, 'C09': None, 'C10': None, 'C12': None}, 'comment inside a template'),
    'n-template-extra-parens': ([D85], sub(D85, "(not len({pith_curr_var_name}) or {hint_child_placeholder})", "((not len({pith_curr_var_name})) or ({hint_child_placeholder}))"),
        {'C01': None, 'C02': None, 'C09': None, 'C10': None}, 'redundant parentheses'),
    'n-maker-local-renamed': ([UN], (lambda files: {UN: files[UN].replace('hint_childs_nonpep', 'nonpep_children')}),
        {'C01': None, 'C02': None}, 'local variable renamed in the union maker'),
    'n-vale-lambda-param-renamed': ([VEQ], sub(VEQ, "is_valid = lambda pith: pith == obj", "is_valid = lambda subject: subject == obj"),
        {'C12': None}, 'lambda parameter renamed'),
    'n-annotated-always-localises': ([CM], sub(CM, "                            if len(hints_child) == 1 else", "                            if len(hints_child) == 1 and hint_tree.hint_curr.pith_expr.isidentifier() else"),
        {'C01': None, 'C02': None, 'C12': None}, 'a behaviour-preserving change of when the walrus is used (identifier piths are unchanged)'),
}
del M['pith-var-index-not-bumped']


def variants_for(prop: str):
    from .variant import Variant
    out = {}
    for name, (files, edit, expect, why) in M.items():
        if prop not in expect:
            continue
        rule = expect[prop]
        kind = 'neutral' if rule is None else 'seeded'
        out[name] = Variant(kind, list(files), edit, rule, why)
    return out
