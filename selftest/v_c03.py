"""Self-test variants for C03 (entry points agree; rejections are the configured violation)."""
import ast

from .variant import Variant, seeded, neutral, sub, chain, tseeded, replace_where, find_def, stmts

EMAP = 'beartype/_check/error/_errmap.py'
LOG = 'beartype/_check/cls/logic/logcls.py'
ERM = 'beartype/_check/error/errmain.py'
CMK = 'beartype/_check/checkmake.py'
DS = 'beartype/door/_cls/doorsuper.py'
DF = 'beartype/door/_func/doorfunc.py'
DFC = 'beartype/_data/check/code/func/datacodefunccheck.py'
E586 = 'beartype/_check/error/_pep/errpep586.py'
EMP = 'beartype/_check/error/_pep/pep484585/errpep484585mapping.py'
ECON = 'beartype/_check/error/_pep/pep484585/errpep484585container.py'
E593 = 'beartype/_check/error/_pep/errpep593.py'
VBIN = 'beartype/vale/_core/_valecorebinary.py'
VCORE = 'beartype/vale/_core/_valecore.py'
FLOOR_APPLIED = 12

VARIANTS = {
    # ---- R1: dispatch agreement ---------------------------------------------------
    'finder-literal-unmapped': seeded(EMAP, "        HintSignLiteral: find_cause_pep586_literal,\n", "", 'C03.R1',
                                      'Literal[...] violations are explained by the generic origin finder'),
    'finder-tuple-fixed-swapped': seeded(EMAP, "HintSignPep484585TupleFixed: find_cause_pep484585_tuple_fixed,",
                                         "HintSignPep484585TupleFixed: find_cause_pep484585_subclass,", 'C03.R1',
                                         'fixed tuples explained by the type[...] finder'),
    'finder-mapping-loop-dropped': seeded(EMAP, "    for hint_sign in HINT_SIGNS_MAPPING:\n        HINT_SIGN_TO_GET_CAUSE_FUNC[hint_sign] = find_cause_pep484585_mapping\n",
                                          "", 'C03.R1', 'dict[str, int] value violations are reported as "no cause"'),
    'finder-specifics-before-fallbacks': Variant('seeded', [EMAP], chain(
        sub(EMAP, "    for hint_sign in HINT_SIGNS_UNION:\n        HINT_SIGN_TO_GET_CAUSE_FUNC[hint_sign] = find_cause_pep484604_union\n", ""),
    ), 'C03.R1', 'unions lose their finder'),
    # ---- R3: re-sampling ----------------------------------------------------------
    'resample-sequence-always-first': seeded(LOG, "        item_index = cause.random_int % len(cause.pith)\n",
                                             "        item_index = 0\n", 'C03.R3',
                                             'under is_random the explanation looks at item 0, the check looked at a random item'),
    'resample-sequence-other-modulus': seeded(LOG, "        item_index = cause.random_int % len(cause.pith)\n",
                                              "        item_index = (cause.random_int + 1) % len(cause.pith)\n", 'C03.R3'),
    'resample-collection-never-sequence': seeded(LOG, "        if isinstance(cause.pith, Sequence) else", "        if False else", 'C03.R3',
                                                 'Collection[int] on a list: explanation looks at the first item only'),
    'resample-mapping-last-item': seeded(EMP, "next(iter(cause.pith.items()))", "next(reversed(cause.pith.items()))", 'C03.R3'),
    'resample-literal-identity': Variant('seeded', [E586], (lambda files: _literal_is(files)), 'C03.R3', 'Literal explanation compares by identity'),
    # ---- R4: violation class / handler --------------------------------------------
    'class-door-uses-param-type': seeded(ERM, "        exception_cls = conf.violation_door_type\n",
                                         "        exception_cls = conf.violation_param_type\n", 'C03.R4'),
    'class-return-param-swapped': Variant('seeded', [ERM], chain(
        sub(ERM, "            exception_cls = conf.violation_return_type\n", "            exception_cls = conf.violation_XX_type\n"),
        sub(ERM, "            exception_cls = conf.violation_param_type\n", "            exception_cls = conf.violation_return_type\n"),
        sub(ERM, "            exception_cls = conf.violation_XX_type\n", "            exception_cls = conf.violation_param_type\n")),
        'C03.R4', 'return violations raise the parameter class and vice versa'),
    'handler-kind-swapped': Variant('seeded', [CMK], chain(
        sub(CMK, "        conf._is_violation_param_warn\n        if pith_kind is PITH_KIND_FUNC_ARG else",
            "        conf._is_violation_return_warn\n        if pith_kind is PITH_KIND_FUNC_ARG else")),
        'C03.R4', 'parameters warn when the *return* option is a warning'),
    'handler-warn-loses-category': seeded(DFC, "{ARG_NAME_WARN}(str({VAR_NAME_VIOLATION}), type({VAR_NAME_VIOLATION}))",
                                          "{ARG_NAME_WARN}(str({VAR_NAME_VIOLATION}))", 'C03.R4',
                                          'the configured warning category is dropped (UserWarning is emitted)'),
    'culprits-without-object': seeded(ERM, "    violation_culprits = [obj,]\n", "    violation_culprits = []\n", 'C03.R4'),
    # ---- R5: OO API delegates -----------------------------------------------------
    'typehint-is-bearable-ignores-conf': seeded(DS, "return is_bearable(obj=obj, hint=self._hint, conf=conf)",
                                                "return is_bearable(obj=obj, hint=self._hint)", 'C03.R5'),
    'typehint-die-uses-insane-hint': seeded(DS, "            obj=obj,\n            hint=self._hint,\n            conf=conf,\n            exception_prefix=exception_prefix,",
                                            "            obj=obj,\n            hint=self._hint_sane.hint,\n            conf=conf,\n            exception_prefix=exception_prefix,",
                                            'C03.R5'),
    'tester-shares-raiser-memo': seeded(DF, "        make_code_tester_check,\n        _HINT_CONF_EXCEPTION_PREFIX_TO_FUNC_TESTER,",
                                        "        make_code_tester_check,\n        _HINT_CONF_EXCEPTION_PREFIX_TO_FUNC_RAISER,", 'C03.R5',
                                        'is_bearable may return the memoised raiser of die_if_unbearable'),
    # ---- R6 -----------------------------------------------------------------------
    'new-private-raise-site': seeded(ECON, "    if isinstance(cause.pith, Collection):",
                                     "    if cause.pith is NotImplemented:\n        raise _BeartypeCallHintPepRaiseException('unexpected')\n    if isinstance(cause.pith, Collection):",
                                     'C03.R6'),
    # ---- R4 / R6: the interpreted explanation entry ---------------------------------
    'desync-fabricates-a-violation': seeded(ERM, "    if not violation_cause.cause_str_or_none:\n",
                                            "    if not violation_cause.cause_str_or_none:\n        violation_cause.cause_str_or_none = 'unknown'\n    if False:\n", 'C03.R6',
                                            'no cause found: a violation with a made-up message instead of the internal error'),
    'nested-culprit-dropped': seeded(ERM, "    if obj is not violation_cause.pith:\n", "    if False:\n", 'C03.R4',
                                     'the item the cause names is no longer among the culprits'),
    'message-loses-the-hint': seeded(ERM, "    violation_prefix = f'{exception_prefix}violates type hint {hint_repr}'\n",
                                     "    violation_prefix = f'{exception_prefix}violates its type hint'\n", 'C03.R4'),
    'entry-raises-under-maximal-verbosity': seeded(ERM, "    violation_verbosity = conf.violation_verbosity\n",
                                                   "    violation_verbosity = conf.violation_verbosity\n    if violation_verbosity is BeartypeViolationVerbosity.MAXIMAL and pith_name is None:\n        raise ValueError('verbose door violations unsupported')\n",
                                                   'C03.R4', 'a rejection turns into a non-violation exception for one configuration'),
    # ---- R8 / R9: user validators in the explanation ------------------------------------
    'annotated-finder-calls-every-validator': seeded(E593, "            break\n", "            pass\n", 'C03.R8',
                                                     'a validator that raises on an object an earlier one rejects turns the rejection into its exception'),
    'binary-diagnosis-unguarded-again': seeded(VBIN, "        if is_shortcircuited:\n            try:\n                is_obj_valid = self.is_valid(obj)\n            except Exception:\n                pass\n        else:\n            is_obj_valid = self.is_valid(obj)\n",
                                               "        is_obj_valid = self.is_valid(obj)\n", 'C03.R9',
                                               'the defect repaired by the fix commit (F21), reintroduced for & and |'),
    'leaf-diagnosis-unguarded': tseeded(VCORE, lambda t: replace_where(
        t, lambda n: isinstance(n, ast.Try) and 'self.is_valid(obj)' in ast.unparse(n), lambda n: n.body, scope='get_diagnosis'), 'C03.R9'),
    'container-finder-accepts-empty-before-origin-test': tseeded(ECON, lambda t: (find_def(t, 'find_cause_pep484585_container_args_1').body.insert(
        1, stmts('if isinstance(cause.pith, Collection) and not len(cause.pith):\n    return cause')[0]) or True), 'C03.R3', 'seeded C03-21'),
    'counter-counts-not-explained': seeded(EMP, "cause.sanify_hint_child(int)", "HINT_SANE_IGNORABLE", 'C03.R3', 'seeded C03-22'),
    # ---- neutral ------------------------------------------------------------------
    'n-errmap-reorder-specifics': Variant('neutral', [EMAP], chain(
        sub(EMAP, "        HintSignLiteral: find_cause_pep586_literal,\n", ""),
        sub(EMAP, "        HintSignAnnotated: find_cause_pep593_annotated,\n",
            "        HintSignAnnotated: find_cause_pep593_annotated,\n        HintSignLiteral: find_cause_pep586_literal,\n")),
        None, 'entries of the dict display reordered'),
    'n-resample-local-renamed': Variant('neutral', [LOG], (lambda files: {LOG: files[LOG].replace('item_index', 'idx')}), None,
                                        'local variable renamed'),
    'n-culprits-list-literal': neutral(ERM, "    violation_culprits = [obj,]\n", "    violation_culprits = [obj]\n"),
    'n-typehint-kwargs-reordered': neutral(DS, "return is_bearable(obj=obj, hint=self._hint, conf=conf)",
                                           "return is_bearable(hint=self._hint, obj=obj, conf=conf)"),
}


def _literal_is(files):
    import re
    src = files[E586]
    new = re.sub(r'cause\.pith == (\w+)', r'cause.pith is \1', src, count=1)
    if new == src:
        return None
    files[E586] = new
    return files
