"""Self-test variants for C10 (shared generator mutants, see genmut.py)."""
from .genmut import variants_for

VARIANTS = variants_for('C10')
FLOOR_APPLIED = max(2, len(VARIANTS) - 2)
