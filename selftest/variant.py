"""Variant descriptions for the self-test: small source edits computed on the current tree."""
from __future__ import annotations

import re
from dataclasses import dataclass, field
from typing import Callable


@dataclass
class Variant:
    kind: str                      # 'seeded' | 'neutral'
    files: list[str]               # repository-relative paths the edit touches
    edit: Callable[[dict], dict | None]
    expect: str | None = None      # rule id expected to fire (seeded)
    why: str = ''
    allow_analysis_error: bool = False


def sub(rel: str, old: str, new: str, *, count: int = 1, regex: bool = False, nth: int = 0):
    """Edit function replacing ``old`` by ``new`` in file ``rel`` (None if absent)."""
    def edit(files: dict):
        src = files[rel]
        if regex:
            ms = list(re.finditer(old, src, flags=re.S))
            if len(ms) <= nth:
                return None
            m = ms[nth]
            files[rel] = src[:m.start()] + m.expand(new) + src[m.end():]
            return files
        idx = -1
        for _ in range(nth + 1):
            idx = src.find(old, idx + 1)
            if idx < 0:
                return None
        files[rel] = src[:idx] + new + src[idx + len(old):]
        return files
    return edit


def chain(*edits):
    def edit(files: dict):
        for e in edits:
            files = e(files)
            if files is None:
                return None
        return files
    return edit


def seeded(rel, old, new, expect, why='', **kw) -> Variant:
    rels = [rel] if isinstance(rel, str) else list(rel)
    return Variant('seeded', rels, sub(rels[0], old, new, **kw), expect, why)


def neutral(rel, old, new, why='', **kw) -> Variant:
    rels = [rel] if isinstance(rel, str) else list(rel)
    return Variant('neutral', rels, sub(rels[0], old, new, **kw), None, why)


# ---- syntax-tree edits (comments and layout are irrelevant to every rule: findings are keyed by
# construct, never by line) -----------------------------------------------------------------------
import ast as _ast


def find_def(tree, qualname: str):
    """The FunctionDef / ClassDef named by a dotted path below ``tree`` (None if absent)."""
    node = tree
    for part in qualname.split('.'):
        nxt = None
        for st in _ast.walk(node) if node is tree else node.body:
            if isinstance(st, (_ast.FunctionDef, _ast.AsyncFunctionDef, _ast.ClassDef)) and st.name == part:
                nxt = st
                break
        if nxt is None:
            return None
        node = nxt
    return node


def stmts(src: str):
    import textwrap
    return _ast.parse(textwrap.dedent(src)).body


def expr(src: str):
    return _ast.parse(src, mode='eval').body


def ast_edit(rel: str, fn):
    """Edit computed on the syntax tree of ``rel``: ``fn(tree)`` mutates the tree and returns
    True when it changed something (False / None: anchor not found -> variant skipped)."""
    def edit(files: dict):
        tree = _ast.parse(files[rel])
        if not fn(tree):
            return None
        files[rel] = _ast.unparse(_ast.fix_missing_locations(tree)) + '\n'
        return files
    return edit


def replace_where(tree, pred, make, *, scope: str | None = None, nth: int = 0, count: int = 1):
    """Replace the nth (..nth+count) node satisfying ``pred`` (inside ``scope`` if given) by
    ``make(node)`` (a node, a list of statements, or None to delete a statement)."""
    root = find_def(tree, scope) if scope else tree
    if root is None:
        return False
    hits = []
    for parent_ in _ast.walk(root):
        for field, val in _ast.iter_fields(parent_):
            if isinstance(val, list):
                for i, x in enumerate(val):
                    if isinstance(x, _ast.AST) and pred(x):
                        hits.append((getattr(x, 'lineno', 0), getattr(x, 'col_offset', 0), parent_, field, i, x))
            elif isinstance(val, _ast.AST) and pred(val):
                hits.append((getattr(val, 'lineno', 0), getattr(val, 'col_offset', 0), parent_, field, None, val))
    hits.sort(key=lambda h: (h[0], h[1]))
    hits = hits[nth:nth + count]
    if not hits:
        return False
    for _, _, parent_, field, i, x in reversed(hits):
        new = make(x)
        if i is None:
            setattr(parent_, field, new)
        else:
            lst = getattr(parent_, field)
            if new is None:
                del lst[i]
                if not lst and field == 'body':
                    lst.append(_ast.Pass())
            elif isinstance(new, list):
                lst[i:i + 1] = new
            else:
                lst[i] = new
    return True


def src_is(text: str):
    """Predicate: the node unparses to ``text`` (layout-insensitive)."""
    want = _ast.unparse(_ast.parse(text).body[0]) if not text.startswith('expr:') else _ast.unparse(expr(text[5:]))
    is_expr = text.startswith('expr:')

    def pred(n):
        if is_expr and not isinstance(n, _ast.expr):
            return False
        if not is_expr and not isinstance(n, _ast.stmt):
            return False
        try:
            return _ast.unparse(n) == want
        except Exception:
            return False
    return pred


def starts(text: str):
    """Predicate: a statement whose unparsed text starts with ``text``."""
    def pred(n):
        if not isinstance(n, _ast.stmt):
            return False
        try:
            return _ast.unparse(n).startswith(text)
        except Exception:
            return False
    return pred


def tseeded(rel, fn, expect, why='') -> Variant:
    return Variant('seeded', [rel], ast_edit(rel, fn), expect, why)


def tneutral(rel, fn, why='') -> Variant:
    return Variant('neutral', [rel], ast_edit(rel, fn), None, why)


def roundtrip(rel) -> Variant:
    """Behaviour-neutral: the whole file re-rendered by ast.unparse (all comments dropped, layout changed)."""
    return Variant('neutral', [rel], ast_edit(rel, lambda tree: True), None, 'file re-rendered from its syntax tree')


def sub_nc(rel: str, old: str, new: str, **kw):
    """Like :func:`sub` after deleting every comment-only line of ``rel`` (also inside code
    templates, where comments are part of the generated text but not of its meaning)."""
    inner = sub(rel, old, new, **kw)

    def edit(files: dict):
        files[rel] = re.sub(r"(?m)^[ \t]*#(?!.*''').*\n", '', files[rel])
        return inner(files)
    return edit
