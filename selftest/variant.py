"""Variant descriptions for the self-test: small source edits computed on the current tree."""
from __future__ import annotations

import re
from dataclasses import dataclass, field
from typing import Callable


@dataclass
class Variant:
    kind: str                      # 'seeded' | 'neutral'
    files: list[str]               # repository-relative paths the edit touches
    edit: Callable[[dict], dict | None]
    expect: str | None = None      # rule id expected to fire (seeded)
    why: str = ''
    allow_analysis_error: bool = False


def sub(rel: str, old: str, new: str, *, count: int = 1, regex: bool = False, nth: int = 0):
    """Edit function replacing ``old`` by ``new`` in file ``rel`` (None if absent)."""
    def edit(files: dict):
        src = files[rel]
        if regex:
            ms = list(re.finditer(old, src, flags=re.S))
            if len(ms) <= nth:
                return None
            m = ms[nth]
            files[rel] = src[:m.start()] + m.expand(new) + src[m.end():]
            return files
        idx = -1
        for _ in range(nth + 1):
            idx = src.find(old, idx + 1)
            if idx < 0:
                return None
        files[rel] = src[:idx] + new + src[idx + len(old):]
        return files
    return edit


def chain(*edits):
    def edit(files: dict):
        for e in edits:
            files = e(files)
            if files is None:
                return None
        return files
    return edit


def seeded(rel, old, new, expect, why='', **kw) -> Variant:
    rels = [rel] if isinstance(rel, str) else list(rel)
    return Variant('seeded', rels, sub(rels[0], old, new, **kw), expect, why)


def neutral(rel, old, new, why='', **kw) -> Variant:
    rels = [rel] if isinstance(rel, str) else list(rel)
    return Variant('neutral', rels, sub(rels[0], old, new, **kw), None, why)
