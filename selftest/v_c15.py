"""Self-test variants for C15 (thread safety: lock-set style necessary conditions)."""
import ast

from .variant import (Variant, expr, find_def, replace_where, roundtrip, src_is, starts, stmts, tneutral, tseeded)

UNB = 'beartype/_util/cache/map/utilmapunbounded.py'
POOL = 'beartype/_util/cache/pool/utilcachepool.py'
LRU = 'beartype/_util/cache/map/utilmaplru.py'
CONF = 'beartype/_conf/confmain.py'
TRIE = 'beartype/claw/_package/clawpkgtrie.py'
MAIN = 'beartype/claw/_package/clawpkgmain.py'
P560 = 'beartype/_util/hint/pep/proposal/pep560.py'
LOADER = 'beartype/claw/_importlib/_clawimpfileloader.py'
FWD = 'beartype/_check/forward/reference/_cls/fwdrefmeta.py'
FLOOR_APPLIED = 8


def _unwrap_with(scope, nth=0):
    def fn(tree):
        return replace_where(tree, lambda n: isinstance(n, ast.With), lambda n: n.body, scope=scope, nth=nth)
    return fn


def _split_critical_section(tree):
    """BeartypeConf.__new__: look up under the lock, construct and store under a second acquisition."""
    f = find_def(tree, 'BeartypeConf.__new__')
    if f is None:
        return False
    for w in ast.walk(f):
        if isinstance(w, ast.With):
            for i, st in enumerate(w.body):
                if isinstance(st, ast.If) and '_beartype_conf_args_to_conf' in ast.unparse(st.test):
                    head, tail = w.body[:i + 1], w.body[i + 1:]
                    if not tail:
                        return False
                    w2 = ast.With(items=w.items, body=tail)
                    w.body = head
                    for parent_ in ast.walk(f):
                        for field, val in ast.iter_fields(parent_):
                            if isinstance(val, list) and w in val:
                                val.insert(val.index(w) + 1, w2)
                                return True
    return False


def _nest_locks(tree):
    """get_package_conf_or_none acquires a second module lock while holding claw_lock; another
    function takes them in the opposite order."""
    g = find_def(tree, 'get_package_conf_or_none')
    h = find_def(tree, 'is_packages_trie')
    if g is None or h is None:
        return False
    tree.body.insert(tree.body.index(g), stmts('from threading import RLock\n_aux_lock = RLock()')[1])
    tree.body.insert(0, stmts('from threading import RLock')[0])
    for w in ast.walk(g):
        if isinstance(w, ast.With) and ast.unparse(w.items[0].context_expr) == 'claw_lock':
            w.body = [ast.With(items=[ast.withitem(context_expr=expr('_aux_lock'))], body=w.body)]
            break
    else:
        return False
    h.body = stmts('from beartype.claw._clawstate import claw_lock\nwith _aux_lock:\n    with claw_lock:\n        pass') + h.body
    return True


DTYPE = 'beartype/_decor/_type/decortype.py'


def _mark_first(tree):
    fn = find_def(tree, 'beartype_type')
    if fn is None:
        return False
    idx = [i for i, s in enumerate(fn.body) if isinstance(s, ast.Expr) and 'set_type_attr_cached' in ast.unparse(s)]
    loop = [i for i, s in enumerate(fn.body) if isinstance(s, ast.For)]
    if not idx or not loop or idx[-1] < loop[0]:
        return False
    st = fn.body.pop(idx[-1])
    fn.body.insert(loop[0], st)
    return True


PLF = 'beartype/_util/cache/pool/utilcachepoollistfixed.py'


def _lockfree_pool(tree):
    fn = find_def(tree, 'acquire_fixed_list')
    if fn is None:
        return False
    for i, s in enumerate(fn.body):
        if isinstance(s, ast.Assign) and '_fixed_list_pool.acquire' in ast.unparse(s.value):
            fn.body[i:i + 1] = stmts('fixed_lists = _fixed_list_pool_plain[size]\nfixed_list = fixed_lists.pop() if fixed_lists else FixedList(size)')
            tree.body.insert(len(tree.body) - 1, stmts('_fixed_list_pool_plain = {}')[0])
            return True
    return False


VARIANTS = {
    # ---- R1 / R2 --------------------------------------------------------------------------------
    'unbounded-cache-lookup-outside-lock': tseeded(UNB, lambda t: _hoist_lookup(t), 'C15.R2',
                                                   'check-then-act: two threads both miss and both construct'),
    'keypool-release-unlocked': tseeded(POOL, _unwrap_with('KeyPool.release'), 'C15.R2'),
    'lru-setitem-unlocked': tseeded(LRU, _unwrap_with('CacheLruStrong.__setitem__'), 'C15.R2'),
    'conf-singleton-two-sections': tseeded(CONF, _split_critical_section, 'C15.R2',
                                           'two threads construct two different "singletons" for equal options'),
    'registry-read-unlocked': tseeded(TRIE, _unwrap_with('get_package_conf_or_none'), 'C15.R1'),
    # ---- R3 -----------------------------------------------------------------------------------------
    'pooled-list-used-after-release': tseeded(P560, lambda t: replace_where(
        t, src_is('release_fixed_list(hint_bases)'), lambda n: [n] + stmts('hint_bases[0] = None')), 'C15.R3',
        'the list may already belong to another thread'),
    # ---- R4 -----------------------------------------------------------------------------------------
    'lock-order-cycle': tseeded(TRIE, _nest_locks, 'C15.R4', 'AB / BA acquisition order'),
    # ---- R5 -----------------------------------------------------------------------------------------
    'second-global-patch': tseeded(LOADER, lambda t: replace_where(
        t, src_is('self._module_name = fullname'), lambda n: [n] + stmts('import sys\nsys.dont_write_bytecode = True'),
        scope='BeartypeSourceFileLoader.get_code'), 'C15.R5'),
    # ---- R6 / R7 -----------------------------------------------------------------------------------------------------
    'repr-assembled-in-the-shared-attribute': tseeded(CONF, lambda t: replace_where(
        t, lambda n: isinstance(n, ast.Assign) and ast.unparse(n.targets[0]) == 'self._repr',
        lambda n: stmts("self._repr = ''\nself._repr += 'BeartypeConf('"), scope='BeartypeConf.__repr__'), 'C15.R6', 'seeded C15-23'),
    'class-marked-before-its-members-are-decorated': tseeded(DTYPE, lambda t: _mark_first(t), 'C15.R7', 'seeded C15-22'),
    'fixed-list-pool-without-its-lock': tseeded(PLF, _lockfree_pool, 'C15.R1', 'seeded C15-21'),
    # ---- neutral ----------------------------------------------------------------------------------------
    'n-roundtrip-unbounded': roundtrip(UNB),
    'n-roundtrip-pool': roundtrip(POOL),
    'n-roundtrip-lru': roundtrip(LRU),
    'n-roundtrip-trie': roundtrip(TRIE),
}


def _hoist_lookup(tree):
    f = find_def(tree, 'CacheUnboundedStrong.cache_or_get_cached_value')
    if f is None:
        return False
    for i, w in enumerate(f.body):
        if isinstance(w, ast.With):
            first = w.body[0]
            del w.body[0]
            if not w.body:
                return False
            f.body.insert(i, first)
            return True
    return False
