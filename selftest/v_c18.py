"""Self-test variants for C18 (hint-rewriting options behave like rewriting the hints by hand)."""
import ast

from .variant import (Variant, expr, find_def, replace_where, roundtrip, src_is, starts, stmts, tneutral, tseeded)

RED = 'beartype/_check/convert/_reduce/redmain.py'
OVR = 'beartype/_conf/_confoverrides.py'
CT = 'beartype/_conf/conftest.py'
DT = 'beartype/_data/typing/datatyping.py'
UN = 'beartype/_check/code/_pep/pep484/codepep484604union.py'
CMAIN = 'beartype/_check/code/codemain.py'
LOG = 'beartype/_check/cls/logic/logcls.py'
FLOOR_APPLIED = 8


def _swap_first_two(tree):
    for st in tree.body:
        if isinstance(st, ast.Assign) and ast.unparse(st.targets[0]) == '_HINT_REDUCERS' and isinstance(st.value, ast.Tuple):
            e = st.value.elts
            if len(e) >= 2:
                e[0], e[1] = e[1], e[0]
                return True
    return False


CONFM = 'beartype/_conf/confmain.py'
HTE = 'beartype/_check/cls/hint/tree/hinttreeerror.py'

VARIANTS = {
    # ---- R1 --------------------------------------------------------------------------------------
    'overrides-not-first': tseeded(RED, _swap_first_two, 'C18.R1',
                                   'a built-in reduction wins over a user override for hints both handle'),
    'reducers-first-only': tseeded(RED, lambda t: replace_where(
        t, lambda n: isinstance(n, ast.For) and ast.unparse(n.iter) == '_HINT_REDUCERS',
        lambda n: (setattr(n, 'iter', expr('_HINT_REDUCERS[:1]')) or n), scope='reduce_hint'), 'C18.R1'),
    'overrides-consulted-once': tseeded(RED, lambda t: replace_where(
        t, lambda n: isinstance(n, ast.For) and ast.unparse(n.iter) == '_HINT_REDUCERS',
        lambda n: (setattr(n, 'iter', expr('_HINT_REDUCERS[bool(reductions_count):]')) or n), scope='reduce_hint'), 'C18.R1',
        'overrides are not applied to the result of an earlier reduction (an override target that is itself overridden)'),
    # ---- R2 --------------------------------------------------------------------------------------
    'union-children-unreduced': tseeded(UN, lambda t: _raw_child(t), 'C18.R2',
                                        'float inside int | float is not expanded by is_pep484_tower'),
    # ---- R3 --------------------------------------------------------------------------------------
    'tower-read-by-generator': tseeded(CMAIN, lambda t: replace_where(
        t, src_is('CACHE_KEY = (hint_sane, conf)'), lambda n: [n] + stmts('if conf.is_pep484_tower:\n    pass'), scope='make_check_expr'), 'C18.R3'),
    'tower-float-loses-int': tseeded(DT, lambda t: replace_where(
        t, lambda n: isinstance(n, ast.Assign) and ast.unparse(n.targets[0]) == 'Pep484TowerFloat', lambda n: stmts('Pep484TowerFloat = float | bool')[0]),
        'C18.R3', 'is_pep484_tower=True: float no longer accepts int'),
    'tower-complex-loses-float': tseeded(DT, lambda t: replace_where(
        t, lambda n: isinstance(n, ast.Assign) and ast.unparse(n.targets[0]) == 'Pep484TowerComplex', lambda n: stmts('Pep484TowerComplex = complex | int')[0]),
        'C18.R3'),
    'tower-not-merged': tseeded(CT, lambda t: replace_where(
        t, lambda n: isinstance(n, ast.If) and ast.unparse(n.test) == "conf_kwargs['is_pep484_tower']", lambda n: None), 'C18.R3',
        'the option is accepted and has no effect'),
    # ---- R4 --------------------------------------------------------------------------------------
    'violation-type-read-by-generator': tseeded(LOG, lambda t: replace_where(
        t, lambda n: isinstance(n, ast.If) and ast.unparse(n.test) == 'cause.conf.is_random',
        lambda n: (setattr(n, 'test', expr('cause.conf.is_random and cause.conf.violation_type is not None')) or n)), 'C18.R4'),
    # ---- R7 / R8 ---------------------------------------------------------------------------------------------------
    'return-warn-flag-from-param-option': tseeded(CONFM, lambda t: replace_where(
        t, lambda n: isinstance(n, ast.Attribute) and n.attr == '_violation_return_type' and isinstance(n.ctx, ast.Load),
        lambda n: expr('self._violation_param_type'), scope='BeartypeConf.__new__'), 'C18.R7', 'seeded C03-23'),
    'explainer-builds-metadata-itself': tseeded(HTE, lambda t: (find_def(t, 'HintTreeError.hint_childs_sane').body.insert(
        1, stmts('if False:\n    make_hint_sane(hint=None, hint_parent_sane=None)')[0]) or True), 'C18.R8', 'seeded C18-22 (shape)'),
    # ---- neutral ----------------------------------------------------------------------------------
    'n-roundtrip-redmain': roundtrip(RED),
    'n-roundtrip-overrides': roundtrip(OVR),
    'n-roundtrip-conftest': roundtrip(CT),
}


def _raw_child(tree):
    """Enqueue a child of the union without sanifying it."""
    hit = [False]

    class V(ast.NodeTransformer):
        def visit_Call(self, node):
            if isinstance(node.func, ast.Attribute) and node.func.attr == 'enqueue_hint_child_sane' and not hit[0]:
                for k in node.keywords:
                    if k.arg == 'hint_sane':
                        hit[0] = True
                        k.value = expr('HintSane(hint_child)')
            return self.generic_visit(node)
    V().visit(tree)
    return hit[0]
