"""Self-test variants for C07 (string and postponed annotations): structural clauses of the resolver."""
import ast

from .variant import (expr, find_def, neutral, replace_where, roundtrip, seeded, src_is, starts, stmts, tneutral, tseeded)

META = 'beartype/_check/forward/reference/_cls/fwdrefmeta.py'
SCLS = 'beartype/_check/forward/scope/fwdscopecls.py'
SMAKE = 'beartype/_check/forward/scope/fwdscopemake.py'
RES = 'beartype/_check/forward/fwdresolve.py'
COERCE = 'beartype/_check/convert/_convcoerce.py'
FABC = 'beartype/_check/forward/reference/_cls/fwdrefabc.py'
FPROXY = 'beartype/_check/forward/reference/fwdrefproxy.py'
FLOOR_APPLIED = 14
PROP = '__resolved_hint_beartype__'


def _call_named(name):
    return lambda n: isinstance(n, ast.Expr) and isinstance(n.value, ast.Call) and ast.unparse(n.value.func) == name


def _swap_updates(tree):
    fn = find_def(tree, 'make_scope_forward_decor_curr')
    idx = {ast.unparse(s): i for i, s in enumerate(fn.body)}
    g, l = idx.get('func_scope.update(func_globals)'), idx.get('func_scope.update(func_locals)')
    if g is None or l is None:
        return False
    fn.body[g], fn.body[l] = fn.body[l], fn.body[g]
    return True


def _move_str_test_down(tree):
    fn = find_def(tree, 'coerce_func_hint_root')
    ifs = [i for i, s in enumerate(fn.body) if isinstance(s, ast.If) and 'isinstance(hint, str)' in ast.unparse(s.test)]
    if not ifs or ifs[0] + 1 >= len(fn.body):
        return False
    i = ifs[0]
    fn.body[i], fn.body[i + 1] = fn.body[i + 1], fn.body[i]
    return True


def _guard_clause_property(tree):
    """`if referent_hint is not None: return …` rewritten as if / else around the rest of the getter."""
    cls = find_def(tree, 'BeartypeForwardRefMeta')
    fn = next((f for f in cls.body if isinstance(f, ast.FunctionDef) and f.name == PROP), None)
    if fn is None:
        return False
    for i, s in enumerate(fn.body):
        if isinstance(s, ast.If) and ast.unparse(s.test) == 'referent_hint is not None' and not s.orelse:
            s.test = expr('referent_hint is None')
            ret = s.body
            s.body = fn.body[i + 1:]
            fn.body[i + 1:] = ret
            return True
    return False


def _cache_type_first(tree):
    cls = find_def(tree, 'BeartypeForwardRefMeta')
    fn = next((f for f in cls.body if isinstance(f, ast.FunctionDef) and f.name == '__resolved_type_beartype__'), None)
    if fn is None:
        return False
    ci = next((i for i, s in enumerate(fn.body) if isinstance(s, ast.Expr) and '_cache_ref_proxy_referent_type' in ast.unparse(s)), None)
    vi = next((i for i, s in enumerate(fn.body) if isinstance(s, ast.If) and 'is_object_isinstanceable' in ast.unparse(s.test)), None)
    if ci is None or vi is None or ci < vi:
        return False
    st = fn.body.pop(ci)
    fn.body.insert(vi, st)
    return True


VARIANTS = {
    # ---- R1 exception family ---------------------------------------------------------------------------------
    'scope-maker-defaults-to-nonpep-exception': tseeded(SMAKE, lambda t: _default(t, 'make_scope_forward_decor_curr', 'BeartypeDecorHintNonpepException'),
                                                        'C07.R1', 'an unresolvable name surfaces as a non-forward-reference exception'),
    'proxy-self-reference-raises-call-exception': tseeded(META, lambda t: replace_where(
        t, lambda n: isinstance(n, ast.Raise) and isinstance(n.exc, ast.Call) and ast.unparse(n.exc.func) == 'BeartypeCallHintForwardRefException',
        lambda n: (setattr(n.exc, 'func', expr('BeartypeCallHintException')) or n)), 'C07.R1'),
    'missing-validates-with-builtin-exception': tseeded(SCLS, lambda t: replace_where(
        t, lambda n: isinstance(n, ast.keyword) and n.arg == 'exception_cls' and ast.unparse(n.value) == 'BeartypeDecorHintForwardRefException',
        lambda n: ast.keyword(arg='exception_cls', value=expr('ValueError')), scope='BeartypeForwardScope.__missing__'), 'C07.R1'),
    # ---- R2 failure not remembered, success remembered ---------------------------------------------------------------
    'invalid-referent-stays-memoised': tseeded(META, lambda t: replace_where(t, _call_named('_uncache_ref_proxy_referent_hint'), lambda n: None,
                                                                             scope=f'BeartypeForwardRefMeta.{PROP}'), 'C07.R2',
                                               'a referent that is no hint is answered from the memo table on the next check'),
    'referent-never-memoised': tseeded(META, lambda t: replace_where(t, _call_named('_cache_ref_proxy_referent_hint'), lambda n: None,
                                                                     scope=f'BeartypeForwardRefMeta.{PROP}'), 'C07.R2',
                                       'every check resolves again'),
    'failure-memoised-as-none-sentinel': tseeded(META, lambda t: replace_where(
        t, lambda n: isinstance(n, ast.Assign) and ast.unparse(n.value) == '_resolve_hint_pep484_ref_str(cls)',
        lambda n: stmts('try:\n    referent_hint = _resolve_hint_pep484_ref_str(cls)\nexcept Exception:\n    _cache_ref_proxy_referent_hint(cls=cls, referent_hint=cls)\n    raise'),
        scope=f'BeartypeForwardRefMeta.{PROP}'), 'C07.R2', 'the first failure poisons the proxy: the name never becomes usable'),
    # ---- R3 the proxy's resolver -------------------------------------------------------------------------------------
    'resolver-looks-up-module-name-in-locals': tseeded(META, lambda t: replace_where(
        t, lambda n: isinstance(n, ast.Call) and ast.unparse(n.func) == 'func_local_parent_locals.get',
        lambda n: expr('func_local_parent_locals.get(referent_module_name, SENTINEL)'), scope='_resolve_hint_pep484_ref_str'), 'C07.R3',
        'a local defined meanwhile is not found'),
    'resolver-undefined-local-returns-none': tseeded(META, lambda t: replace_where(
        t, lambda n: isinstance(n, ast.Raise) and isinstance(n.exc, ast.Call) and ast.unparse(n.exc.func) == 'exception_cls',
        lambda n: stmts('return None')[0], scope='_resolve_hint_pep484_ref_str'), 'C07.R3',
        'a name undefined everywhere silently resolves to None'),
    # ---- R4 scope precedence -----------------------------------------------------------------------------------------
    'globals-shadow-locals': tseeded(SMAKE, _swap_updates, 'C07.R4', 'a local class shadowing a global one is checked against the global'),
    'class-body-names-dropped': tseeded(SMAKE, lambda t: replace_where(t, _call_named('func_locals.update'), lambda n: None,
                                                                        scope='make_scope_forward_decor_curr'), 'C07.R4',
                                        'names bound in the class body are invisible to string annotations of its methods'),
    'class-scopes-not-skipped': tseeded(SMAKE, lambda t: replace_where(
        t, lambda n: isinstance(n, ast.keyword) and n.arg == 'ignore_func_scope_names', lambda n: ast.keyword(arg='ignore_func_scope_names', value=expr('0')),
        scope='make_scope_forward_decor_curr'), 'C07.R4', 'the locals of the wrong frame are used for methods of classes nested in functions'),
    'scope-not-kept': tseeded(SMAKE, lambda t: replace_where(
        t, lambda n: isinstance(n, ast.Assign) and len(n.targets) == 2 and ast.unparse(n.targets[1]) == 'decor_curr.decoratee_scope_forward',
        lambda n: (setattr(n, 'targets', n.targets[:1]) or n), scope='make_scope_forward_decor_curr'), 'C07.R4',
        'every annotation of a callable gets a fresh scope: proxies of one name are no longer shared'),
    # ---- R5 __missing__ ------------------------------------------------------------------------------------------------
    'missing-does-not-store-the-proxy': tseeded(SCLS, lambda t: replace_where(
        t, lambda n: isinstance(n, ast.Assign) and ast.unparse(n.targets[0]) == 'self[hint_name]', lambda n: None,
        scope='BeartypeForwardScope.__missing__'), 'C07.R5'),
    'missing-proxy-forgets-the-module': tseeded(SCLS, lambda t: replace_where(
        t, lambda n: isinstance(n, ast.keyword) and n.arg == 'scope_name' and ast.unparse(n.value) == 'self._scope_name',
        lambda n: ast.keyword(arg='scope_name', value=expr('None')), scope='BeartypeForwardScope.__missing__'), 'C07.R5'),
    # ---- R6 routes -------------------------------------------------------------------------------------------------------
    'root-string-resolved-after-coercion': tseeded(COERCE, _move_str_test_down, 'C07.R6',
                                                   'a string return annotation of a binary dunder method is wrapped in a union unresolved'),
    'resolver-converts-only-nameerror': tseeded(RES, lambda t: replace_where(
        t, lambda n: isinstance(n, ast.ExceptHandler) and n.type is not None and ast.unparse(n.type) == 'Exception',
        lambda n: (setattr(n, 'type', expr('NameError')) or n), scope='_resolve_hint_pep484_ref_str'), 'C07.R6',
        'a SyntaxError / AttributeError of the evaluated string escapes bare'),
    # ---- R7 the proxy's verdict ---------------------------------------------------------------------------------------------
    'proxy-instancecheck-generic-via-isinstance': tseeded(META, lambda t: replace_where(
        t, lambda n: isinstance(n, ast.If) and 'is_object_isinstanceable(resolved_hint)' in ast.unparse(n.test),
        lambda n: (setattr(n, 'test', expr('is_object_isinstanceable(resolved_hint)')) or n), scope='BeartypeForwardRefMeta.__instancecheck__'),
        'C07.R7', 'a forward reference to a generic is tested by bare isinstance(): items unchecked'),
    'proxy-subclasscheck-against-the-hint': tseeded(META, lambda t: replace_where(
        t, lambda n: isinstance(n, ast.Assign) and ast.unparse(n.value) == 'cls.__resolved_type_beartype__',
        lambda n: (setattr(n, 'value', expr('cls.__resolved_hint_beartype__')) or n), scope='BeartypeForwardRefMeta.__subclasscheck__'), 'C07.R7'),
    'referent-type-memoised-before-validation': tseeded(META, _cache_type_first, 'C07.R7',
                                                        'a non-isinstanceable referent is remembered: the second check no longer raises'),
    # ---- R4 (class body of the innermost class) / R8 derived proxies ----------------------------------------------------------
    'method-scope-from-root-class-body': tseeded(SMAKE, lambda t: replace_where(
        t, lambda n: isinstance(n, ast.Call) and ast.unparse(n) == 'get_type_locals(cls_curr)', lambda n: expr('get_type_locals(cls_root)'),
        scope='make_scope_forward_decor_curr'), 'C07.R4', 'methods of a nested class resolve names against the outer class body (seeded C07-1)'),
    'subscripted-proxy-forgets-enclosing-callable': tseeded(FABC, lambda t: replace_where(
        t, lambda n: isinstance(n, ast.keyword) and n.arg == 'func_local_parent_codeobj_weakref', lambda n: ast.keyword(arg='func_local_parent_codeobj_weakref', value=expr('None')),
        scope='BeartypeForwardRefSubbableABC.__class_getitem__'), 'C07.R8', "'Box[int]' with Box defined later in the same function never resolves (seeded C07-3)"),
    'n-proxy-factory-local-renamed': tneutral(FPROXY, lambda t: _rename(t, '_proxy_hint_ref', 'ref_proxy', 'proxy_type')),
    # ---- neutral -------------------------------------------------------------------------------------------------------------
    'n-roundtrip-fwdrefmeta': roundtrip(META),
    'n-roundtrip-fwdscopemake': roundtrip(SMAKE),
    'n-roundtrip-fwdscopecls': roundtrip(SCLS),
    'n-roundtrip-fwdresolve': roundtrip(RES),
    'n-property-as-if-else': tneutral(META, _guard_clause_property, 'the memo hit written as if / else instead of a guard clause'),
    'n-scope-locals-renamed': tneutral(SMAKE, lambda t: _rename(t, 'make_scope_forward_decor_curr', 'func_locals', 'decoratee_locals')),
}


def _default(tree, scope, new):
    fn = find_def(tree, scope)
    if fn is None:
        return False
    a = fn.args
    pos = a.posonlyargs + a.args
    for i, p in enumerate(pos[len(pos) - len(a.defaults):]):
        if p.arg == 'exception_cls':
            a.defaults[i] = expr(new)
            return True
    return False


def _rename(tree, scope, old, new):
    fn = find_def(tree, scope)
    if fn is None:
        return False
    hit = False
    for n in ast.walk(fn):
        if isinstance(n, ast.Name) and n.id == old:
            n.id = new
            hit = True
    return hit
