"""Self-test variants for C08 (wrapped coroutines and generators are indistinguishable)."""
import ast

from .variant import Variant, sub_nc, expr, replace_where, roundtrip, seeded, neutral, src_is, stmts, sub, tneutral, tseeded

T525 = 'beartype/_data/check/code/pep/datacodepep525.py'
T342 = 'beartype/_data/check/code/pep/datacodepep342.py'
TW = 'beartype/_data/check/code/func/datacodefuncwrap.py'
CD = 'beartype/_check/cls/call/calldatadecorfunc.py'
FLOOR_APPLIED = 12

RF = 'beartype/_util/hint/pep/proposal/pep484585/pep484585func.py'
CONV = 'beartype/_check/convert/convmain.py'


def _reduce_first(tree):
    from .variant import find_def
    f = find_def(tree, 'sanify_hint_root_func')
    if f is None:
        return False
    idx = [i for i, st in enumerate(f.body) if isinstance(st, ast.If) and 'ARG_NAME_RETURN' in ast.unparse(st.test)]
    co = [i for i, st in enumerate(f.body) if isinstance(st, ast.Assign) and 'coerce_func_hint_root' in ast.unparse(st.value)]
    if len(idx) != 1 or len(co) != 1 or idx[0] < co[0]:
        return False
    st = f.body.pop(idx[0])
    f.body.insert(co[0], st)
    return True


VARIANTS = {
    # ---- R1: same kind of callable ---------------------------------------------------------
    'coroutine-wrapper-is-sync': tseeded(CD, lambda t: replace_where(
        t, src_is("self.func_wrapper_code_signature_prefix = 'async '"), lambda n: None, nth=0), 'C08.R1',
        'the wrapper of an async def is a plain function (await inside def: SyntaxError / not a coroutine function)'),
    'async-generator-wrapper-is-sync': tseeded(CD, lambda t: replace_where(
        t, src_is("self.func_wrapper_code_signature_prefix = 'async '"), lambda n: None, nth=1), 'C08.R1'),
    'sync-generator-uses-normal-return': tseeded(CD, lambda t: replace_where(
        t, src_is('self.func_wrapper_code_return_unchecked = CODE_PEP342_RETURN_UNCHECKED'), lambda n: None), 'C08',
        'an unannotated-return generator function is wrapped by a plain function returning the generator object'),
    # ---- R2: what is bound, checked, returned ------------------------------------------------
    'coroutine-not-awaited-when-checked': tseeded(CD, lambda t: replace_where(
        t, src_is("self.func_wrapper_code_call_prefix = 'await '"), lambda n: None), 'C08.R2',
        'the coroutine object instead of its result is checked against the return hint'),
    'coroutine-unchecked-not-awaited': seeded(TW, "    return await {ARG_NAME_FUNC}(*args, **kwargs)'''", "    return {ARG_NAME_FUNC}(*args, **kwargs)'''", 'C08.R2',
                                              'awaiting the wrapper yields a coroutine object'),
    'generator-not-delegated': seeded(T342, "    return (yield from {VAR_NAME_PITH_ROOT})'''", "    return (yield {VAR_NAME_PITH_ROOT})'''", 'C08.R2',
                                      'the wrapper yields the generator object once instead of delegating'),
    # ---- R3: async yield from ------------------------------------------------------------------
    'agen-send-dropped': seeded(T525, "                    if __beartype_agen_send_pith is None:", "                    if True:", 'C08.R3',
                                'values sent with asend() never reach the wrapped generator'),
    'n-agen-asend-always': neutral(T525, "                    if __beartype_agen_send_pith is None:", "                    if __beartype_agen_send_pith is NotImplemented:",
                                   'inner.asend(None) is anext(inner): always forwarding with asend() is behaviour-preserving (the former shape rule reported it)'),
    'agen-falsy-sent-value-dropped': seeded(T525, "                    if __beartype_agen_send_pith is None:", "                    if not __beartype_agen_send_pith:", 'C08.R3',
                                            'asend(0) arrives as anext()'),
    'agen-throw-swallowed': seeded(T525, "                        await {VAR_NAME_PITH_ROOT}.athrow(\n                            __beartype_agen_exception))",
                                   "                        await anext({VAR_NAME_PITH_ROOT}))", 'C08.R3',
                                   'athrow() into the wrapper is not forwarded'),
    'agen-close-not-propagated': seeded(T525, "                await {VAR_NAME_PITH_ROOT}.aclose()\n", "                pass\n", 'C08.R3',
                                        'closing the wrapper leaves the wrapped generator suspended (its finally blocks do not run)'),
    'agen-close-not-reraised': Variant('seeded', [T525], sub_nc(T525, "                await {VAR_NAME_PITH_ROOT}.aclose()\n\n                raise\n", "                await {VAR_NAME_PITH_ROOT}.aclose()\n                return\n"), 'C08.R3'),
    'agen-handler-order': Variant('seeded', [T525], (lambda files: _swap_handlers(files)), 'C08.R3',
                                  'BaseException handler first: GeneratorExit is thrown into the inner generator instead of closing it'),
    'agen-stale-yield': seeded(T525, "                        __beartype_agen_yield_pith = await anext(\n                            {VAR_NAME_PITH_ROOT})",
                               "                        await anext(\n                            {VAR_NAME_PITH_ROOT})", 'C08.R3',
                               'the same value is yielded again and again'),
    'agen-stop-caught-around-yield': seeded(T525, "            except GeneratorExit as exception:", "            except StopAsyncIteration:\n                return\n            except GeneratorExit as exception:", 'C08.R3',
                                            'a StopAsyncIteration thrown by the consumer is swallowed instead of forwarded'),
    'agen-priming-unguarded': Variant('seeded', [T525], sub_nc(T525, "    try:\n        __beartype_agen_yield_pith = await anext({VAR_NAME_PITH_ROOT})\n    except StopAsyncIteration:\n        return\n    else:\n",
                                     "    __beartype_agen_yield_pith = await anext({VAR_NAME_PITH_ROOT})\n    if True:\n"), 'C08.R3',
                                     'an empty async generator raises RuntimeError(async generator raised StopAsyncIteration)'),
    # ---- R4: return annotations by kind ------------------------------------------------------
    'coroutine-return-checked-against-send-type': tseeded(RF, lambda t: replace_where(
        t, src_is('hint = hint_args[-1]'), lambda n: stmts('hint = hint_args[1]')[0], scope='reduce_hint_pep484585_func_return'), 'C08.R4',
        'the awaited value of a coroutine annotated Coroutine[Y, S, R] is checked against S'),
    'coroutine-return-not-reduced': tseeded(RF, lambda t: replace_where(
        t, src_is('hint = hint_args[-1]'), lambda n: stmts('pass')[0], scope='reduce_hint_pep484585_func_return'), 'C08.R4',
        'the awaited value is checked against Coroutine[...] itself: every correct call is a violation'),
    'generator-return-hint-unvalidated': tseeded(RF, lambda t: replace_where(
        t, lambda n: isinstance(n, ast.If) and ast.unparse(n.test) == 'is_func_sync_generator(func)',
        lambda n: (setattr(n, 'body', stmts('pass')) or n), scope='reduce_hint_pep484585_func_return'), 'C08.R4'),
    'return-reduced-before-strings-are-resolved': tseeded(CONV, lambda t: _reduce_first(t), 'C08.R4',
                                                          'with `from __future__ import annotations` the reducer sees a string'),
    # ---- neutral ----------------------------------------------------------------------------
    'n-roundtrip-calldata': roundtrip(CD),
    'n-roundtrip-pep525': roundtrip(T525),
    'n-agen-variable-renamed': Variant('neutral', [T525], (lambda files: {T525: files[T525].replace('__beartype_agen_send_pith', '__beartype_agen_sent')}), None,
                                       'template variable renamed'),
    'n-agen-exception-unnamed': neutral(T525, "            except GeneratorExit as exception:", "            except GeneratorExit:"),
}


def _swap_handlers(files):
    import re
    src = re.sub(r"(?m)^[ \t]*#(?!.*''').*\n", '', files[T525])
    a = src.find("            except GeneratorExit as exception:")
    b = src.find("            except BaseException as __beartype_agen_exception:")
    c = src.find("            else:\n                try:\n                    if __beartype_agen_send_pith")
    if min(a, b, c) < 0 or not a < b < c:
        return None
    files[T525] = src[:a] + src[b:c] + src[a:b] + src[c:]
    return files
