"""Self-test variants for C20 (an inferred hint accepts the object it was inferred from)."""
import ast

from .variant import (Variant, expr, find_def, replace_where, roundtrip, src_is, starts, stmts, tneutral, tseeded)

MAIN = 'beartype/bite/_infermain.py'
ITEMS = 'beartype/bite/collection/infercollectionitems.py'
ABC = 'beartype/bite/collection/infercollectionsabc.py'
BUILTIN = 'beartype/bite/collection/infercollectionbuiltin.py'
FLOOR_APPLIED = 6


def _factory(old, new):
    def fn(tree):
        return replace_where(tree, lambda n: isinstance(n, ast.keyword) and n.arg == 'hint_factory' and ast.unparse(n.value) == old,
                             lambda n: ast.keyword(arg='hint_factory', value=expr(new)))
    return fn


VARIANTS = {
    # ---- R1 --------------------------------------------------------------------------------------
    'constant-hint-for-unknown-objects': tseeded(MAIN, lambda t: replace_where(
        t, src_is('return obj_type'), lambda n: stmts('return int')[0], scope='infer_hint', nth=1), 'C20.R1',
        'objects no inferer recognises are hinted as int'),
    # ---- R2 --------------------------------------------------------------------------------------
    'fsm-sequence-node-concrete-list': tseeded(ABC, _factory('Sequence', 'list'), 'C20.R2',
                                               'a user-defined Sequence is hinted as list[...] and rejected by its own hint'),
    'fsm-mapping-node-concrete-dict': tseeded(ABC, _factory('Mapping', 'dict'), 'C20.R2'),
    'fsm-set-node-concrete-again': tseeded(ABC, _factory('AbstractSet', 'set'), 'C20.R2',
                                           'the defect repaired by the fix commit (F15b), reintroduced'),
    # ---- R3 --------------------------------------------------------------------------------------
    'seen-set-not-extended': tseeded(ITEMS, lambda t: replace_where(
        t, lambda n: isinstance(n, ast.AugAssign) and '__beartype_obj_ids_seen__' in ast.unparse(n.target), lambda n: None,
        scope='infer_hint_collection_items'), 'C20.R3', 'a self-referential list recurses until RecursionError'),
    'guard-after-dispatch': tseeded(MAIN, lambda t: _guard_last(t), 'C20.R3'),
    'recursive-call-drops-seen-set': tseeded(ITEMS, lambda t: replace_where(
        t, lambda n: isinstance(n, ast.keyword) and n.arg == '__beartype_obj_ids_seen__' and
        isinstance(getattr(n, '_p', None), type(None)), lambda n: None, scope='_infer_hint_reiterable_items'), 'C20.R3'),
    # ---- neutral ----------------------------------------------------------------------------------
    'n-roundtrip-infermain': roundtrip(MAIN),
    'n-roundtrip-items': roundtrip(ITEMS),
    'n-roundtrip-abc': roundtrip(ABC),
}


def _guard_last(tree):
    f = find_def(tree, 'infer_hint')
    if f is None:
        return False
    k = 1 if isinstance(f.body[0], ast.Expr) and isinstance(f.body[0].value, ast.Constant) else 0
    g = f.body[k]
    if not (isinstance(g, ast.If) and 'id(obj)' in ast.unparse(g.test)):
        return False
    del f.body[k]
    # re-insert right before the loop over the inferers
    for i, st in enumerate(f.body):
        if isinstance(st, ast.For):
            f.body.insert(i, g)
            return True
    return False
