"""Self-test variants for C11 (only beartype's exceptions for bad hints)."""
import ast

from .variant import (Variant, expr, find_def, replace_where, roundtrip, seeded, neutral, src_is, starts, stmts, sub,
                      tneutral, tseeded)

HT = 'beartype/_util/hint/utilhinttest.py'
CT = 'beartype/_conf/conftest.py'
ER = 'beartype/_util/error/utilerrraise.py'
CMK = 'beartype/_check/checkmake.py'
DNT = 'beartype/_decor/_nontype/decornontype.py'
TRIE = 'beartype/claw/_package/clawpkgtrie.py'
DF = 'beartype/door/_func/doorfunc.py'
TW = 'beartype/_data/check/code/func/datacodefuncwrap.py'
VOP = 'beartype/vale/_is/_valeisoper.py'
DM = 'beartype/door/_cls/doormeta.py'
CCH = 'beartype/_util/cache/utilcachecall.py'
C3119 = 'beartype/_util/cls/pep/clspep3119.py'
CONV = 'beartype/_check/convert/convmain.py'
U484 = 'beartype/_util/hint/pep/proposal/pep484/pep484union.py'
REDMAIN = 'beartype/_check/convert/_reduce/redmain.py'
D586 = 'beartype/door/_cls/pep/doorpep586.py'
COERCE = 'beartype/_check/convert/_convcoerce.py'
FLOOR_APPLIED = 10


def _first_raise(scope, new_exc):
    def fn(tree):
        return replace_where(tree, lambda n: isinstance(n, ast.Raise) and n.exc is not None,
                             lambda n: (setattr(n, 'exc', expr(new_exc)) or n), scope=scope)
    return fn


def _prepend(tree, scope, code):
    fn = find_def(tree, scope)
    i = 1 if (isinstance(fn.body[0], ast.Expr) and isinstance(getattr(fn.body[0], 'value', None), ast.Constant)) else 0
    fn.body[i:i] = stmts(code)
    return tree


def _hoist_first_of_try(tree, scope):
    fn = find_def(tree, scope)
    if fn is None:
        return False
    for i, st in enumerate(fn.body):
        if isinstance(st, ast.Try) and st.body:
            fn.body.insert(i, st.body.pop(0))
            return bool(st.body)
    return False


VARIANTS = {
    # ---- R1: raise-site typing ------------------------------------------------------------------
    'conf-validator-raises-builtin': tseeded(CT, _first_raise('die_if_conf_kwargs_invalid', "TypeError('bad option')"), 'C11.R1',
                                             'a bad option value escapes as a bare TypeError'),
    'trie-init-raises-valueerror': tseeded(TRIE, _first_raise('PackagesTrieBlacklist.__init__', "ValueError('bad trie')"), 'C11.R1'),
    'validator-factory-raises-private': tseeded(VOP, _first_raise('_IsEqualFactory.__getitem__', "_BeartypeUtilCallableException('x')"), 'C11',
                                                'a private (underscore) class raised from the public validator API'),
    # ---- R2: exception_cls flows ----------------------------------------------------------------------
    'default-exception-cls-builtin': tseeded(HT, lambda t: _default(t, 'die_unless_hint', 'ValueError'), 'C11.R2',
                                             'every caller relying on the default gets a bare ValueError for an unsupported hint'),
    'argument-exception-cls-builtin': tseeded(DNT, lambda t: replace_where(
        t, lambda n: isinstance(n, ast.keyword) and n.arg == 'exception_cls' and ast.unparse(n.value) == 'BeartypeDecorWrapperException',
        lambda n: ast.keyword(arg='exception_cls', value=expr('SyntaxError'))), 'C11.R2'),
    'checker-route-loses-exception-cls': tseeded(CMK, lambda t: replace_where(
        t, lambda n: isinstance(n, ast.keyword) and n.arg == 'exception_cls' and ast.unparse(n.value) == 'BeartypeDecorWrapperException',
        lambda n: None, scope='make_func_checker'), 'C11.R2', 'the defect repaired by the fix commit (F8), reintroduced'),
    # ---- R3: warnings ---------------------------------------------------------------------------------
    # ---- R4: placeholder re-raise -----------------------------------------------------------------------
    'reraise-builds-new-exception': tseeded(ER, lambda t: replace_where(
        t, lambda n: isinstance(n, ast.Raise), lambda n: stmts('raise Exception(exception.args[0]) from exception')[0],
        scope='reraise_exception_placeholder'), 'C11.R4', 'every decoration-time exception loses its class'),
    # ---- R5: first hash of raw input ----------------------------------------------------------------------
    'checker-memo-lookup-unguarded': tseeded(CMK, lambda t: _unguard_first_try(t, 'make_func_checker'), 'C11.R5',
                                             'is_bearable(x, Annotated[int, []]) raises a bare TypeError (unhashable hint)'),
    # ---- R6 -------------------------------------------------------------------------------------------------
    'wrapper-call-in-try': seeded(TW, "    {VAR_NAME_PITH_ROOT} = {{func_call_prefix}}{ARG_NAME_FUNC}(*args, **kwargs)\n",
                                  "    try:\n        {VAR_NAME_PITH_ROOT} = {{func_call_prefix}}{ARG_NAME_FUNC}(*args, **kwargs)\n    except RecursionError as e:\n        raise RuntimeError(str(e))\n", 'C11.R6',
                                  'a user exception is replaced by another one'),
    # ---- family layering ---------------------------------------------------------------------------------------
    'conf-raises-decor-family': tseeded(CT, _first_raise('die_if_conf_kwargs_invalid', "BeartypeDecorHintPepException('bad option')"), 'C11.R1',
                                        'a configuration error is reported as a decoration-time hint error'),
    # ---- R11: probes of the user's metaclass hooks ---------------------------------------------------------------
    'probe-raiser-catches-typeerror-only': tseeded(C3119, lambda t: replace_where(
        t, lambda n: isinstance(n, ast.ExceptHandler) and n.type is not None and ast.unparse(n.type) == 'Exception',
        lambda n: (setattr(n, 'type', expr('TypeError')) or n), scope='_die_unless_object_builtin_checkable'), 'C11.R11',
        'a metaclass __instancecheck__ raising ValueError lets a bare ValueError out of @beartype (seeded C11-11)'),
    # ---- R12: raw annotation compared by identity only --------------------------------------------------------------
    'sanify-compares-raw-hint-by-equality': tseeded(CONV, lambda t: replace_where(
        t, lambda n: isinstance(n, ast.Compare) and ast.unparse(n) == 'hint_coerced is not hint',
        lambda n: expr('hint_coerced != hint'), scope='sanify_hint_root_func'), 'C11.R12',
        'an annotation whose __ne__ raises or returns an array escapes @beartype as a bare ValueError (seeded C11-12)'),
    'is-hint-truth-tests-raw-hint': tseeded(HT, lambda t: _prepend(t, 'is_hint', 'if not hint:\n    return False'), 'C11.R12',
                                            'numpy.zeros(3) as annotation: bare ValueError from the truth test'),
    # ---- R13: raw annotations reaching a typing factory -------------------------------------------------------------
    'tuple-union-factory-unguarded': tseeded(U484, lambda t: replace_where(
        t, lambda n: isinstance(n, ast.Try), lambda n: n.body, scope='make_hint_pep484_union'), 'C11.R13',
        'the defect repaired by the fix commit (F24), reintroduced: is_bearable(0, (int, [1])) raises a bare TypeError'),
    'n-tuple-union-factory-broad-handler': tneutral(U484, lambda t: replace_where(
        t, lambda n: isinstance(n, ast.ExceptHandler) and n.type is not None and ast.unparse(n.type) == 'TypeError',
        lambda n: (setattr(n, 'type', expr('Exception')) or n), scope='make_hint_pep484_union')),
    # ---- R14: hint-keyed lookups ------------------------------------------------------------------------------------
    'override-lookup-outside-its-guard': tseeded(REDMAIN, lambda t: _hoist_first_of_try(t, '_reduce_hint_overrides'), 'C11.R14',
                                                 'Annotated[int, []] under a configuration with overrides: bare TypeError (seeded C11-21)'),
    'literal-subhint-hashes-raw-args': tseeded(D586, lambda t: replace_where(
        t, lambda n: isinstance(n, ast.Return), lambda n: stmts('return frozenset(self._args).issubset(other._args)')[0],
        scope='LiteralTypeHint._is_subhint', nth=-1 if False else 0), 'C11.R14', 'is_subhint(Literal[[1]], Literal[1]) raises a bare TypeError (seeded C11-22)'),
    'binary-dunder-return-widened-before-coercion': tseeded(COERCE, lambda t: replace_where(
        t, lambda n: isinstance(n, ast.Return) and isinstance(n.value, ast.Call) and ast.unparse(n.value.func) == 'make_hint_pep484_union',
        lambda n: stmts('return Union[hint, NotImplementedType]')[0], scope='coerce_func_hint_root') and (
        t.body.insert(1, stmts('from typing import Union')[0]) or True), 'C11.R13',
        'the defect repaired by the fix commit (F25), reintroduced'),
    # ---- neutral ---------------------------------------------------------------------------------------------------
    'n-roundtrip-conftest': roundtrip(CT),
    'n-roundtrip-checkmake': roundtrip(CMK),
    'n-roundtrip-utilhinttest': roundtrip(HT),
    'n-raise-from': tneutral(ER, lambda t: replace_where(
        t, lambda n: isinstance(n, ast.Raise), lambda n: stmts('raise exception')[0], scope='reraise_exception_placeholder'),
        'the same object re-raised without with_traceback'),
}


def _default(tree, fname, new):
    f = find_def(tree, fname)
    if f is None:
        return False
    a = f.args
    names = [x.arg for x in a.args][len(a.args) - len(a.defaults):]
    for i, nm in enumerate(names):
        if nm == 'exception_cls':
            a.defaults[i] = expr(new)
            return True
    for i, x in enumerate(a.kwonlyargs):
        if x.arg == 'exception_cls' and a.kw_defaults[i] is not None:
            a.kw_defaults[i] = expr(new)
            return True
    return False


def _unguard_first_try(tree, fname):
    """Replace the first try/except TypeError of the function by its body."""
    return replace_where(tree, lambda n: isinstance(n, ast.Try) and any(ast.unparse(h.type) == 'TypeError' for h in n.handlers if h.type),
                         lambda n: n.body, scope=fname)
