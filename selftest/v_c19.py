"""Self-test variants for C19 (is_subhint and TypeHint wrappers are coherent)."""
import ast

from .variant import (Variant, expr, find_def, replace_where, roundtrip, src_is, starts, stmts, tneutral, tseeded)

SUP = 'beartype/door/_cls/doorsuper.py'
META = 'beartype/door/_cls/doormeta.py'
UNB = 'beartype/_util/cache/map/utilmapunbounded.py'
UNI = 'beartype/door/_cls/pep/doorpep484604.py'
ANN = 'beartype/door/_cls/pep/doorpep593.py'
FLOOR_APPLIED = 7


def _ret(scope, new):
    def fn(tree):
        return replace_where(tree, lambda n: isinstance(n, ast.Return), lambda n: stmts(new)[0], scope=scope)
    return fn


LIT = 'beartype/door/_cls/pep/doorpep586.py'

VARIANTS = {
    # ---- R1 children coherence -----------------------------------------------------------------
    'len-counts-raw-args': tseeded(SUP, _ret('TypeHint.__len__', 'return len(self._args)'), 'C19.R1',
                                   'len(t) and len(list(t)) differ for hints whose wrapped children are not their raw arguments'),
    'bool-from-raw-args': tseeded(SUP, _ret('TypeHint.__bool__', 'return bool(self._args)'), 'C19.R1'),
    'contains-scans-raw-args': tseeded(SUP, _ret('TypeHint.__contains__', 'return hint_child in self._args'), 'C19.R1',
                                       'TypeHint(int) in TypeHint(int | str) is False'),
    'frozenset-from-other-source': tseeded(SUP, _ret('TypeHint._args_wrapped_frozenset', 'return frozenset(self._args)'), 'C19.R1'),
    'wrapped-tuple-skips-first': tseeded(SUP, _ret('TypeHint._args_wrapped_tuple',
                                                   'return tuple((TypeHint(hint_child) for hint_child in self._args[1:]))'), 'C19.R1'),
    'args-returns-wrapped': tseeded(SUP, _ret('TypeHint.args', 'return self._args_wrapped_tuple'), 'C19.R1'),
    # ---- R4 singleton construction ------------------------------------------------------------------
    'wrapper-cache-keyed-by-repr': tseeded(META, lambda t: replace_where(
        t, lambda n: isinstance(n, ast.keyword) and n.arg == 'key', lambda n: ast.keyword(arg='key', value=expr('repr(hint)')),
        scope='_TypeHintMetaclass.__call__'), 'C19.R4', 'two distinct classes with one repr share a wrapper'),
    'wrapper-cache-bypassed': tseeded(META, lambda t: replace_where(
        t, lambda n: isinstance(n, (ast.Assign, ast.AnnAssign)) and 'cache_or_get_cached_func_return_passed_arg' in ast.unparse(n),
        lambda n: stmts('wrapper = cls._make_wrapper(hint)')[0], scope='_TypeHintMetaclass.__call__'), 'C19.R4',
        'TypeHint(h) is TypeHint(h) no longer holds'),
    'unhashable-hint-raises': tseeded(UNB, lambda t: replace_where(
        t, lambda n: isinstance(n, ast.Try) and any(h.type is not None and 'TypeError' in ast.unparse(h.type) for h in n.handlers),
        lambda n: n.body, scope='CacheUnboundedStrong.cache_or_get_cached_func_return_passed_arg'), 'C19.R4',
        'TypeHint(Annotated[int, []]) raises a bare TypeError'),
    # ---- R6 soundness of the branch tests ---------------------------------------------------------------
    'annotated-metahints-compared-by-strict-superhint': tseeded(ANN, lambda t: replace_where(
        t, lambda n: isinstance(n, ast.UnaryOp) and ast.unparse(n) == 'not self._metahint_wrapper.is_subhint(branch._metahint_wrapper)',
        lambda n: expr('self._metahint_wrapper > branch._metahint_wrapper'), scope='_is_subhint_branch'), 'C19.R6',
        'the defect repaired by the fix commit (F23), reintroduced: Annotated[int, v] is a subhint of Annotated[str, v]'),
    'n-annotated-guards-merged': tneutral(ANN, lambda t: replace_where(
        t, lambda n: isinstance(n, ast.UnaryOp) and ast.unparse(n) == 'not self._metahint_wrapper.is_subhint(branch._metahint_wrapper)',
        lambda n: expr('not self._metahint_wrapper <= branch._metahint_wrapper'), scope='_is_subhint_branch'),
        'the subhint test spelled as a comparison of wrappers'),
    # ---- R11 ---------------------------------------------------------------------------------------------------
    'literal-wrapper-eq-without-hash': tseeded(LIT, lambda t: (find_def(t, 'LiteralTypeHint').body.append(
        stmts('def __eq__(self, other):\n    return self is other')[0]) or True), 'C19.R11',
        'wrappers of Literal hints become unhashable (seeded C19-23)'),
    # ---- neutral -----------------------------------------------------------------------------------------
    # ---- R10 union subhint by interpretation -------------------------------------------------------------
    'union-subhint-no-descent-into-unionlike-member': tseeded(UNI, _ret(
        'UnionTypeHint._is_subhint', 'return all(this_branch.is_subhint(other) for this_branch in self._branches)'), 'C19.R10',
        'is_subhint(Optional[T], Optional[T]) is False for a bounded T (seeded C19-11)'),
    'union-subhint-any-member-suffices': tseeded(UNI, _ret(
        'UnionTypeHint._is_subhint', 'return any((any(this_branch.is_subhint(that_branch) for that_branch in other._branches) '
        'if isinstance(other, UnionTypeHint) else this_branch.is_subhint(other)) for this_branch in self._branches)'), 'C19.R10',
        'int | str becomes a subhint of int: unsound'),
    'n-union-subhint-manual-loops': tneutral(UNI, _ret(
        'UnionTypeHint._is_subhint', 'return all(any(this_branch.is_subhint(that_branch) for that_branch in '
        '(other._branches if isinstance(other, UnionTypeHint) else (other,))) for this_branch in self._branches)')),
    'n-roundtrip-doorsuper': roundtrip(SUP),
    'n-roundtrip-doormeta': roundtrip(META),
    'n-iter-return-iter': tneutral(SUP, lambda t: replace_where(
        t, lambda n: isinstance(n, ast.Expr) and isinstance(n.value, ast.YieldFrom), lambda n: stmts('return iter(self._args_wrapped_tuple)')[0],
        scope='TypeHint.__iter__'), '__iter__ returns an iterator over the same tuple'),
}
