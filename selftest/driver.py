"""Self-test of the rules (thorough tier): every rule must be able to fire, and must stay
silent on behaviour-preserving variants.

Variants are computed from the *current* sources (text / ast edits) and analysed through
the in-memory overlay of :class:`sa.repo.Repo` — no scratch copy is written anywhere.
A seeded variant must (a) still compile and (b) make the property's check report a new
violation of the expected rule; a neutral variant must leave the set of failing
obligations unchanged.  A variant whose edit anchor no longer exists is *skipped* (the
count is reported); the self-test fails (ANALYSIS-ERROR, exit 2) when a seeded variant is
not detected or a neutral variant raises an alarm; fewer applied variants than the
per-property floor (stale anchors) is reported in the evidence but is not a verdict.
"""
from __future__ import annotations

import importlib
import multiprocessing as mp
import os
import sys
import time

HERE = os.path.dirname(os.path.dirname(os.path.abspath(__file__)))
if HERE not in sys.path:
    sys.path.insert(0, HERE)

from sa.repo import AnalysisError, Repo       # noqa: E402
from sa import report                         # noqa: E402


def _analyse(prop: str, root: str, overlay: dict[str, str]):
    repo = Repo(root, overlay)
    mod = importlib.import_module(f'rules.{prop.lower()}')
    ctx = report.Ctx(prop, repo, tier='selftest')
    known = report.load_known()
    try:
        mod.run(ctx)
    except AnalysisError:
        # same policy as ./check: a violation found before a later rule gave up is still a violation
        new, hit = report.split_failures(prop, ctx.obs, known)
        if not new:
            raise
        return ctx, new, hit
    new, hit = report.split_failures(prop, ctx.obs, known)
    return ctx, new, hit


def _one(job):
    prop, root, kind, name, relpath, edit_mod, edit_name, expect = job
    try:
        edits = importlib.import_module(edit_mod)
        v = getattr(edits, 'VARIANTS')[edit_name]
        overlay = {}
        for rel in v.files:
            path = os.path.join(root, rel)
            if not os.path.exists(path):
                return (name, kind, 'skipped', f'{rel} does not exist')
            with open(path, encoding='utf-8') as fh:
                overlay[rel] = fh.read()
        new_overlay = v.edit(dict(overlay))
        if new_overlay is None or new_overlay == overlay:
            return (name, kind, 'skipped', 'edit anchor not found in the current source')
        for rel, src in new_overlay.items():
            try:
                compile(src, rel, 'exec', dont_inherit=True)
            except SyntaxError as ex:
                return (name, kind, 'skipped', f'variant does not compile: {ex}')
        try:
            ctx, new, hit = _analyse(prop, root, new_overlay)
        except AnalysisError as ex:
            # a seeded variant answered by "cannot analyse" is fail-closed, but it is not a
            # verdict: count it separately
            return (name, kind, 'analysis-error', str(ex))
        rules = sorted({o.rule for o in new})
        if kind == 'seeded':
            if any(r == expect or r.startswith(expect + '.') or expect is None for r in rules):
                first = [o for o in new if o.rule == expect or expect is None or o.rule.startswith(expect)][0]
                return (name, kind, 'detected', f'{first.rule} at {first.where} [{first.key}]')
            return (name, kind, 'MISSED', f'expected a new violation of {expect}, got {rules or "none"}')
        else:
            if new:
                o = new[0]
                return (name, kind, 'ALARM', f'{o.rule} at {o.where} [{o.key}]: {o.detail}')
            return (name, kind, 'silent', '')
    except Exception as ex:  # pragma: no cover - reported as a self-test failure
        import traceback
        return (name, kind, 'ERROR', traceback.format_exc(limit=4))


def run_for(prop: str, root: str, seed: int = 0, verbose: bool = False, jobs: int | None = None) -> dict:
    try:
        vm = importlib.import_module(f'selftest.v_{prop.lower()}')
    except ModuleNotFoundError:
        return {'selftest': {'mutants_applied': 0, 'mutants_detected': 0, 'neutral_applied': 0,
                             'neutral_silent': 0, 'failures': [], 'note': 'no variants defined'}}
    t0 = time.time()
    joblist = []
    for name, v in vm.VARIANTS.items():
        joblist.append((prop, root, v.kind, name, None, vm.__name__, name, v.expect))
    jobs = jobs or min(16, os.cpu_count() or 4, max(1, len(joblist)))
    if jobs > 1:
        with mp.get_context('fork').Pool(jobs) as pool:
            results = pool.map(_one, joblist, chunksize=1)
    else:
        results = [_one(j) for j in joblist]
    failures = []
    st = {'mutants_applied': 0, 'mutants_detected': 0, 'neutral_applied': 0, 'neutral_silent': 0,
          'skipped': 0, 'analysis_error_on_seeded': 0, 'results': []}
    for name, kind, outcome, info in results:
        st['results'].append({'variant': name, 'kind': kind, 'outcome': outcome, 'info': info[:300]})
        if verbose:
            print(f'    self-test {kind:7s} {name}: {outcome} {info[:160]}')
        if outcome == 'skipped':
            st['skipped'] += 1
            continue
        if kind == 'seeded':
            st['mutants_applied'] += 1
            if outcome == 'detected':
                st['mutants_detected'] += 1
            elif outcome == 'analysis-error':
                st['analysis_error_on_seeded'] += 1
                if not getattr(vm.VARIANTS[name], 'allow_analysis_error', False):
                    failures.append(f'seeded variant {name}: answered ANALYSIS-ERROR instead of a violation: {info}')
                else:
                    st['mutants_detected'] += 1
            else:
                failures.append(f'seeded variant {name}: {outcome}: {info}')
        else:
            st['neutral_applied'] += 1
            if outcome == 'silent':
                st['neutral_silent'] += 1
            else:
                failures.append(f'neutral variant {name}: {outcome}: {info}')
    floor = getattr(vm, 'FLOOR_APPLIED', 0)
    if st['mutants_applied'] + st['neutral_applied'] < floor:
        # the edit anchors of the variants went stale (the tree was refactored): that is a fact about
        # the self-test, not about the property — reported, recorded in the evidence, never a verdict
        st['stale'] = (f'only {st["mutants_applied"] + st["neutral_applied"]} variants applied, floor {floor} '
                       f'({st["skipped"]} skipped: anchors of the variant edits vanished)')
    st['failures'] = failures
    st['wall_s'] = round(time.time() - t0, 2)
    return {'selftest': st}
