"""Self-test variants for C17 (configuration objects)."""
from .variant import Variant, seeded, neutral, sub, chain

CM = 'beartype/_conf/confmain.py'
CT = 'beartype/_conf/conftest.py'
FLOOR_APPLIED = 10

VARIANTS = {
    # --- seeded: each breaks one instance of one rule and still compiles ---------------
    'key-drops-option': seeded(CM, "                is_debug,\n                is_pep484_tower,",
                               "                is_pep484_tower,", 'C17.R1',
                               'is_debug removed from the memo key: BeartypeConf(is_debug=True) is BeartypeConf()'),
    'kwargs-cross-wired': seeded(CM, "is_random=is_random,", "is_random=is_debug,", 'C17.R1',
                                 'kwargs["is_random"] reads back another option'),
    'slot-cross-wired': seeded(CM, "self._is_debug = conf_kwargs['is_debug']",
                               "self._is_debug = conf_kwargs['is_random']", 'C17.R1'),
    'property-wrong-slot': seeded(CM, "        return self._is_random\n", "        return self._is_debug\n", 'C17.R1'),
    'option-not-validated': seeded(CT, "    'is_random',\n)", ")", 'C17.R1',
                                   'is_random dropped from the tuple of boolean options that are validated'),
    'alias-not-folded': seeded(CM, "                is_pep557_fields = is_check_pep557\n",
                               "                pass\n", 'C17.R1',
                               'deprecated alias accepted but ignored'),
    'hash-of-other-value': seeded(CM, "self._hash = hash(conf_args)", "self._hash = hash(conf_args[:3])", 'C17.R1'),
    'eq-other-field': seeded(CM, "self._conf_args == other._conf_args", "self._conf_kwargs == other._conf_kwargs", 'C17.R1'),
    'second-early-return': seeded(CM, "            conf_kwargs = dict(\n",
                                  "            if is_debug is None:\n                return _beartype_conf_args_to_conf.get(conf_args)\n            conf_kwargs = dict(\n",
                                  'C17.R2', 'a new return that skips validation'),
    'validation-after-store-conditional': seeded(CM, "            die_if_conf_kwargs_invalid(conf_kwargs)\n",
                                                 "            if is_debug:\n                die_if_conf_kwargs_invalid(conf_kwargs)\n",
                                                 'C17.R2', 'validation only on some paths'),
    'new-mutator': seeded([CM, CT], "            die_if_conf_kwargs_invalid(conf_kwargs)\n",
                          "            die_if_conf_kwargs_invalid(conf_kwargs)\n            conf_kwargs.update(is_color=bool(is_color))\n",
                          'C17.R3', allow=None) if False else
                   Variant('seeded', [CT], sub(CT, "    elif not isinstance(conf_kwargs['claw_is_pep526'], bool):",
                                                 "    elif conf_kwargs.setdefault('is_color', None) is NotImplemented or not isinstance(conf_kwargs['claw_is_pep526'], bool):"),
                           'C17.R3', 'the validator starts mutating the dictionary'),
    'store-outside-lock': Variant('seeded', [CM], chain(
        sub(CM, "            _beartype_conf_args_to_conf[conf_args] = self\n", "            pass\n"),
        sub(CM, "        # Return this configuration.\n        return self",
            "        _beartype_conf_args_to_conf[conf_args] = self\n        # Return this configuration.\n        return self")),
        'C17.R5', 'store moved out of the critical section'),
    # --- neutral: behaviour-preserving edits must stay silent ---------------------------
    'singleton-table-becomes-an-lru-cache': seeded(CM, "_beartype_conf_args_to_conf: dict[tuple, BeartypeConf] = {}",
        "_beartype_conf_args_to_conf: dict[tuple, BeartypeConf] = CacheLruStrong(size=256)", 'C17.R9', 'seeded C17-22'),
    'is-color-validated-by-value': seeded(CT, "not isinstance(conf_kwargs['is_color'], NoneTypeOr[bool])",
        "conf_kwargs['is_color'] not in (True, False, None)", 'C17.R1', 'seeded C17-23'),
    'n-rename-key-var': Variant('neutral', [CM], sub(CM, r'\bconf_args\b', 'conf_key', regex=True, count=0) if False else
                                (lambda files: {CM: __import__('re').sub(r'\bconf_args\b', 'conf_key', files[CM])}),
                                None, 'local variable renamed'),
    'n-kwargs-as-literal': Variant('neutral', [CM], (lambda files: _kwargs_literal(files)), None,
                                   'dict(k=v) rewritten as a {"k": v} display'),
    'n-reorder-properties': neutral(CM, "    @property\n    def is_debug(self) -> bool:", "    @property\n    def is_debug(self) -> 'bool':"),
    'n-guarded-hash-fix': Variant('neutral', [CM], sub(
        CM, "            if conf_args in _beartype_conf_args_to_conf:\n                return _beartype_conf_args_to_conf[conf_args]\n",
        "            try:\n                if conf_args in _beartype_conf_args_to_conf:\n                    return _beartype_conf_args_to_conf[conf_args]\n            except TypeError as exception:\n                raise BeartypeConfParamException(str(exception)) from exception\n"),
        None, 'repair of F9: the rule must be silent on the repaired tree'),
}


def _kwargs_literal(files):
    import re
    src = files[CM]
    m = re.search(r'conf_kwargs = dict\((.*?)\n            \)\n', src, flags=re.S)
    if not m:
        return None
    body = re.sub(r'(\w+)=\(?\s*(\w+)\)?,', r"'\1': \2,", m.group(1))
    files[CM] = src[:m.start()] + 'conf_kwargs = {' + body + '\n            }\n' + src[m.end():]
    return files
