"""Self-test variants for C16 (hooked and unhooked bytecode caches never mix)."""
import ast

from .variant import (Variant, expr, find_def, replace_where, roundtrip, src_is, starts, stmts, tneutral, tseeded)

LOADER = 'beartype/claw/_importlib/_clawimpfileloader.py'
CACHE = 'beartype/claw/_importlib/clawimpcache.py'
MAGIC = 'beartype/_data/claw/dataclawmagic.py'
ASG = 'beartype/claw/_ast/_kind/clawastassign.py'
FLOOR_APPLIED = 7


def _unprotect(tree):
    """patch; result = super().get_code(); restore; return result  — no try/finally."""
    return replace_where(tree, lambda n: isinstance(n, ast.Try) and n.finalbody and 'cache_from_source' in ast.unparse(n.finalbody[0]),
                         lambda n: stmts('result = super().get_code(fullname)') + n.finalbody + stmts('return result'),
                         scope='BeartypeSourceFileLoader.get_code')


def _patch_first(tree):
    """Move the patch to the top of get_code: the un-hooked early returns run inside the patched region."""
    f = find_def(tree, 'BeartypeSourceFileLoader.get_code')
    if f is None:
        return False
    for i, st in enumerate(f.body):
        if isinstance(st, ast.Assign) and ast.unparse(st.targets[0]).endswith('.cache_from_source') and 'original' not in ast.unparse(st.value):
            del f.body[i]
            k = 1 if isinstance(f.body[0], ast.Expr) and isinstance(f.body[0].value, ast.Constant) else 0
            f.body.insert(k, st)
            return True
    return False


PYI = 'beartype/_util/py/utilpyinterpreter.py'

VARIANTS = {
    # ---- R2: marker inputs ------------------------------------------------------------------------
    'transformer-reads-new-option': tseeded(ASG, lambda t: replace_where(
        t, src_is('expr:self._conf.claw_is_pep526'), lambda n: expr('self._conf.claw_is_pep526 and self._conf.is_debug')), 'C16.R2',
        'a further option now changes the transformed code but not the cache file name'),
    # ---- R3: patch / restore ----------------------------------------------------------------------
    'restore-not-in-finally': tseeded(LOADER, _unprotect, 'C16.R3',
                                      'a SyntaxError in a hooked module leaves every later import writing beartype-tagged caches'),
    'unhooked-return-inside-patch': tseeded(LOADER, _patch_first, 'C16.R3',
                                            'un-hooked modules are cached under the beartype tag'),
    'restore-assigns-beartype-variant': tseeded(LOADER, lambda t: replace_where(
        t, lambda n: isinstance(n, ast.Assign) and 'cache_from_source_original' in ast.unparse(n.value),
        lambda n: stmts('_bootstrap_external.cache_from_source = cache_from_source_beartype')[0],
        scope='BeartypeSourceFileLoader.get_code'), 'C16.R3'),
    # ---- R4: marker -------------------------------------------------------------------------------
    'marker-replaces-interpreter-tag': tseeded(CACHE, lambda t: replace_where(
        t, lambda n: isinstance(n, ast.Assign) and ast.unparse(n.targets[0]) == "kwargs['optimization']",
        lambda n: stmts("kwargs['optimization'] = OPTIMIZATION_MARKER_BEARTYPE")[0], scope='cache_from_source_beartype'), 'C16.R4',
        'python -O and plain python share one beartype cache file'),
    'marker-not-version-bound': tseeded(MAGIC, lambda t: replace_where(
        t, lambda n: isinstance(n, ast.Assign) and ast.unparse(n.targets[0]) == 'OPTIMIZATION_MARKER_BEARTYPE',
        lambda n: stmts("OPTIMIZATION_MARKER_BEARTYPE = 'beartype'")[0]), 'C16.R4',
        'bytecode transformed by an older beartype is reused after an upgrade'),
    'marker-empty': tseeded(MAGIC, lambda t: replace_where(
        t, lambda n: isinstance(n, ast.Assign) and ast.unparse(n.targets[0]) == 'OPTIMIZATION_MARKER_BEARTYPE',
        lambda n: stmts("OPTIMIZATION_MARKER_BEARTYPE = ''")[0]), 'C16.R4', 'hooked and un-hooked caches coincide'),
    # ---- R1 -----------------------------------------------------------------------------------------
    'second-foreign-patch': tseeded(LOADER, lambda t: replace_where(
        t, src_is('self._module_name = fullname'), lambda n: [n] + stmts('_bootstrap_external.SOURCE_SUFFIXES = [".py"]'),
        scope='BeartypeSourceFileLoader.get_code'), 'C16.R1'),
    # ---- R6 / R3 parse flags -----------------------------------------------------------------------------------------------
    'environment-overrules-the-interpreter': tseeded(PYI, lambda t: replace_where(
        t, lambda n: isinstance(n, ast.If) and '__debug__' in ast.unparse(n.test), lambda n: (setattr(n, 'test', expr('TYPE_CHECKING')) or n),
        scope='is_python_optimized'), 'C16.R6', 'seeded C16-22'),
    'hooked-parse-with-type-comments': tseeded(LOADER, lambda t: replace_where(
        t, lambda n: isinstance(n, ast.Name) and n.id == 'PyCF_ONLY_AST' and isinstance(n.ctx, ast.Load), lambda n: expr('PyCF_ONLY_AST | 4096'),
        scope='BeartypeSourceFileLoader.source_to_code'), 'C16.R3', 'seeded C05-21'),
    # ---- neutral ------------------------------------------------------------------------------------
    'n-roundtrip-loader': roundtrip(LOADER),
    'n-roundtrip-cache': roundtrip(CACHE),
    'n-roundtrip-magic': roundtrip(MAGIC),
}
