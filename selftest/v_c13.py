"""Self-test variants for C13 (class decoration; no-op identities)."""
import ast

from .variant import (Variant, expr, find_def, replace_where, roundtrip, src_is, starts, stmts, tneutral, tseeded)

TYPE = 'beartype/_decor/_type/decortype.py'
NONTYPE = 'beartype/_decor/_nontype/decornontype.py'
CORE = 'beartype/_decor/decorcore.py'
DESC = 'beartype/_decor/_nontype/_builtin/decorbuiltindescriptor.py'
BEARFUNC = 'beartype/_util/bear/utilbearfunc.py'
MK = 'beartype/_util/func/utilfuncmake.py'
FLOOR_APPLIED = 10


def _set(attr, value):
    def mk(n):
        setattr(n, attr, value)
        return n
    return mk


VARIANTS = {
    # ---- R1 identity ---------------------------------------------------------------------------
    'type-returns-subclass': tseeded(TYPE, lambda t: replace_where(
        t, lambda n: isinstance(n, ast.Return) and ast.unparse(n) == 'return cls', lambda n: stmts('return type(cls.__name__, (cls,), {})')[0],
        scope='beartype_type', nth=1), 'C13.R1', '@beartype class C: … is no longer C (isinstance checks against the original fail)'),
    'nonfatal-returns-none-on-failure': tseeded(CORE, lambda t: replace_where(
        t, src_is('return obj'), lambda n: stmts('return None')[0], scope='_beartype_object_nonfatal'), 'C13.R1',
        'under the import hook an undecoratable function is replaced by None'),
    'nonfatal-reraises': tseeded(CORE, lambda t: replace_where(
        t, starts('issue_warning('), lambda n: [n] + stmts('raise'), scope='_beartype_object_nonfatal'), 'C13.R1'),
    # ---- R2 own members only -------------------------------------------------------------------
    'type-decorates-inherited-members': tseeded(TYPE, lambda t: replace_where(
        t, lambda n: isinstance(n, ast.For) and ast.unparse(n.iter) == 'cls.__dict__.items()',
        _set('iter', expr('((k, getattr(cls, k)) for k in dir(cls))')), scope='beartype_type'), 'C13.R2',
        'methods of base classes are re-wrapped and copied into the subclass'),
    'type-decorates-foreign-nested-classes': tseeded(TYPE, lambda t: replace_where(
        t, lambda n: isinstance(n, ast.If) and 'TYPES_BEARTYPEABLE' in ast.unparse(n.test),
        _set('test', expr('isinstance(attr_value, TYPES_BEARTYPEABLE)')), scope='beartype_type'), 'C13.R2',
        'a class attribute that merely refers to an unrelated class gets that class decorated in place'),
    # ---- R3 no-op identities --------------------------------------------------------------------
    'func-noop-returns-wrapper-arg': tseeded(NONTYPE, lambda t: replace_where(
        t, lambda n: isinstance(n, ast.If) and ast.unparse(n.test) == 'not func_wrapper_code',
        lambda n: stmts('if not func_wrapper_code:\n    return func_wrapper')[0], scope='beartype_func'), 'C13.R3',
        'an unannotated callable decorated through a descriptor comes back as another object'),
    'func-unbeartypeable-still-wrapped': tseeded(NONTYPE, lambda t: replace_where(
        t, lambda n: isinstance(n, ast.If) and ast.unparse(n.test) == 'is_func_unbeartypeable(func_wrapper)', lambda n: None,
        scope='beartype_func'), 'C13.R3', '@no_type_check callables are wrapped anyway'),
    # ---- R4 descriptor kinds ---------------------------------------------------------------------
    'staticmethod-rebuilt-as-classmethod': tseeded(DESC, lambda t: replace_where(
        t, src_is('return descriptor.__class__(descriptor_wrappee_checked)'), lambda n: stmts('return classmethod(descriptor_wrappee_checked)')[0],
        scope='beartype_descriptor_decorator_builtin_class_or_static_method'), 'C13.R4'),
    'property-loses-deleter': tseeded(DESC, lambda t: replace_where(
        t, lambda n: isinstance(n, ast.keyword) and n.arg == 'fdel', lambda n: None, scope='beartype_descriptor_decorator_builtin_property'), 'C13.R4'),
    'property-setter-from-getter-slot': tseeded(DESC, lambda t: replace_where(
        t, src_is('descriptor_setter = descriptor.fset'), lambda n: stmts('descriptor_setter = descriptor.fget')[0],
        scope='beartype_descriptor_decorator_builtin_property'), 'C13.R4'),
    'property-loses-doc': tseeded(DESC, lambda t: replace_where(
        t, lambda n: isinstance(n, ast.keyword) and n.arg == 'doc', lambda n: None, scope='beartype_descriptor_decorator_builtin_property'), 'C13.R4'),
    # ---- R5 metadata / idempotence ------------------------------------------------------------------
    'wrapper-without-wrapped-metadata': tseeded(NONTYPE, lambda t: replace_where(
        t, lambda n: isinstance(n, ast.keyword) and n.arg == 'func_wrapped', lambda n: None, scope='beartype_func'), 'C13.R5',
        '__name__, __doc__, __wrapped__ of the wrappee are lost'),
    'wrapper-not-marked': tseeded(NONTYPE, lambda t: replace_where(
        t, src_is('set_func_beartyped(func_checked)'), lambda n: None, scope='beartype_func'), 'C13.R5',
        'decorating twice wraps twice'),
    # ---- neutral ---------------------------------------------------------------------------------------
    'n-roundtrip-decortype': roundtrip(TYPE),
    'n-roundtrip-decornontype': roundtrip(NONTYPE),
    'n-roundtrip-descriptor': roundtrip(DESC),
    'n-roundtrip-core': roundtrip(CORE),
    'n-property-positional': tneutral(DESC, lambda t: replace_where(
        t, lambda n: isinstance(n, ast.Return) and ast.unparse(n.value).startswith('property('),
        lambda n: stmts('return property(descriptor_getter, descriptor_setter, descriptor_deleter, descriptor.__doc__)')[0],
        scope='beartype_descriptor_decorator_builtin_property'), 'property() called positionally'),
}
