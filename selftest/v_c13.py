"""Self-test variants for C13 (class decoration; no-op identities)."""
import ast

from .variant import (Variant, expr, find_def, replace_where, roundtrip, src_is, starts, stmts, tneutral, tseeded)

TYPE = 'beartype/_decor/_type/decortype.py'
NONTYPE = 'beartype/_decor/_nontype/decornontype.py'
CORE = 'beartype/_decor/decorcore.py'
DESC = 'beartype/_decor/_nontype/_builtin/decorbuiltindescriptor.py'
BEARFUNC = 'beartype/_util/bear/utilbearfunc.py'
MK = 'beartype/_util/func/utilfuncmake.py'
CACHE = 'beartype/_util/cache/utilcacheobjattr.py'
FLOOR_APPLIED = 10


def _set(attr, value):
    def mk(n):
        setattr(n, attr, value)
        return n
    return mk


VARIANTS = {
    # ---- R1 identity ---------------------------------------------------------------------------
    'type-returns-subclass': tseeded(TYPE, lambda t: replace_where(
        t, lambda n: isinstance(n, ast.Return) and ast.unparse(n) == 'return cls', lambda n: stmts('return type(cls.__name__, (cls,), {})')[0],
        scope='beartype_type', nth=1), 'C13.R1', '@beartype class C: … is no longer C (isinstance checks against the original fail)'),
    'nonfatal-returns-none-on-failure': tseeded(CORE, lambda t: replace_where(
        t, src_is('return obj'), lambda n: stmts('return None')[0], scope='_beartype_object_nonfatal'), 'C13.R1',
        'under the import hook an undecoratable function is replaced by None'),
    'nonfatal-reraises': tseeded(CORE, lambda t: replace_where(
        t, starts('issue_warning('), lambda n: [n] + stmts('raise'), scope='_beartype_object_nonfatal'), 'C13.R1'),
    # ---- R2 own members only -------------------------------------------------------------------
    'type-decorates-inherited-members': tseeded(TYPE, lambda t: replace_where(
        t, lambda n: isinstance(n, ast.For) and ast.unparse(n.iter) == 'cls.__dict__.items()',
        _set('iter', expr('((k, getattr(cls, k)) for k in dir(cls))')), scope='beartype_type'), 'C13.R2',
        'methods of base classes are re-wrapped and copied into the subclass'),
    'type-decorates-foreign-nested-classes': tseeded(TYPE, lambda t: replace_where(
        t, lambda n: isinstance(n, ast.If) and 'TYPES_BEARTYPEABLE' in ast.unparse(n.test),
        _set('test', expr('isinstance(attr_value, TYPES_BEARTYPEABLE)')), scope='beartype_type'), 'C13.R2',
        'a class attribute that merely refers to an unrelated class gets that class decorated in place'),
    # ---- R3 no-op identities --------------------------------------------------------------------
    'func-noop-returns-wrapper-arg': tseeded(NONTYPE, lambda t: replace_where(
        t, lambda n: isinstance(n, ast.If) and ast.unparse(n.test) == 'not func_wrapper_code',
        lambda n: stmts('if not func_wrapper_code:\n    return func_wrapper')[0], scope='beartype_func'), 'C13.R3',
        'an unannotated callable decorated through a descriptor comes back as another object'),
    'func-unbeartypeable-still-wrapped': tseeded(NONTYPE, lambda t: replace_where(
        t, lambda n: isinstance(n, ast.If) and ast.unparse(n.test) == 'is_func_unbeartypeable(func_wrapper)', lambda n: None,
        scope='beartype_func'), 'C13.R3', '@no_type_check callables are wrapped anyway'),
    # ---- R4 descriptor kinds ---------------------------------------------------------------------
    'staticmethod-rebuilt-as-classmethod': tseeded(DESC, lambda t: replace_where(
        t, src_is('return descriptor.__class__(descriptor_wrappee_checked)'), lambda n: stmts('return classmethod(descriptor_wrappee_checked)')[0],
        scope='beartype_descriptor_decorator_builtin_class_or_static_method'), 'C13.R4'),
    'property-loses-deleter': tseeded(DESC, lambda t: replace_where(
        t, lambda n: isinstance(n, ast.keyword) and n.arg == 'fdel', lambda n: None, scope='beartype_descriptor_decorator_builtin_property'), 'C13.R4'),
    'property-setter-from-getter-slot': tseeded(DESC, lambda t: replace_where(
        t, src_is('descriptor_setter = descriptor.fset'), lambda n: stmts('descriptor_setter = descriptor.fget')[0],
        scope='beartype_descriptor_decorator_builtin_property'), 'C13.R4'),
    'property-loses-doc': tseeded(DESC, lambda t: replace_where(
        t, lambda n: isinstance(n, ast.keyword) and n.arg == 'doc', lambda n: None, scope='beartype_descriptor_decorator_builtin_property'), 'C13.R4'),
    # ---- R5 metadata / idempotence ------------------------------------------------------------------
    'wrapper-without-wrapped-metadata': tseeded(NONTYPE, lambda t: replace_where(
        t, lambda n: isinstance(n, ast.keyword) and n.arg == 'func_wrapped', lambda n: None, scope='beartype_func'), 'C13.R5',
        '__name__, __doc__, __wrapped__ of the wrappee are lost'),
    'wrapper-not-marked': tseeded(NONTYPE, lambda t: replace_where(
        t, src_is('set_func_beartyped(func_checked)'), lambda n: None, scope='beartype_func'), 'C13.R5',
        'decorating twice wraps twice'),
    # ---- R8 / class idempotence ------------------------------------------------------------------------
    'type-cache-stored-under-literal-name': tseeded(CACHE, lambda t: replace_where(
        t, lambda n: isinstance(n, ast.Expr) and ast.unparse(n).startswith('setattr(cls_sizeof, _TYPE_ATTR_CACHE_NAME'),
        lambda n: stmts('cls_sizeof._TYPE_ATTR_CACHE_NAME = type_to_attr_name_to_value')[0], scope='set_type_attr_cached'), 'C13.R8',
        'the defect repaired by the fix commit (F20), reintroduced: the class marker is never found again'),
    'type-cache-per-hierarchy': tseeded(CACHE, lambda t: replace_where(
        t, src_is('attr_name_to_value = type_to_attr_name_to_value.get(cls)'),
        lambda n: stmts("attr_name_to_value = type_to_attr_name_to_value.get('*')")[0], scope='get_type_attr_cached_or_sentinel') and replace_where(
        t, src_is('attr_name_to_value = type_to_attr_name_to_value.get(cls)'),
        lambda n: stmts("attr_name_to_value = type_to_attr_name_to_value.get('*')")[0], scope='set_type_attr_cached') and replace_where(
        t, src_is('attr_name_to_value = type_to_attr_name_to_value[cls] = {}'),
        lambda n: stmts("attr_name_to_value = type_to_attr_name_to_value['*'] = {}")[0], scope='set_type_attr_cached'), 'C13.R8',
        'an undecorated subclass of a decorated class is taken for decorated'),
    'class-marker-key-mismatch': tseeded(TYPE, lambda t: replace_where(
        t, lambda n: isinstance(n, ast.Expr) and ast.unparse(n).startswith('set_type_attr_cached(cls,'),
        lambda n: stmts("set_type_attr_cached(cls, 'beartyped', True)")[0], scope='beartype_type'), 'C13.R5'),
    'class-idempotence-guard-dropped': tseeded(TYPE, lambda t: replace_where(
        t, lambda n: isinstance(n, ast.If) and 'get_type_attr_cached_or_sentinel' in ast.unparse(n.test), lambda n: None,
        scope='beartype_type'), 'C13.R5', 'decorating a decorated class re-decorates its members'),
    'qualname-guard-contains-instead-of-prefix': tseeded(TYPE, lambda t: replace_where(
        t, lambda n: isinstance(n, ast.Call) and ast.unparse(n) == 'attr_value.__qualname__.startswith(cls.__qualname__)',
        lambda n: expr('cls.__qualname__ in attr_value.__qualname__'), scope='beartype_type'), 'C13.R2',
        'a class declared elsewhere whose qualified name merely contains the parent name is decorated'),
    'member-stack-not-extended': tseeded(TYPE, lambda t: replace_where(
        t, lambda n: isinstance(n, ast.keyword) and n.arg == 'cls_stack' and ast.unparse(n.value) == 'cls_stack',
        lambda n: ast.keyword(arg='cls_stack', value=expr('cls_stack[:-1] or None')), scope='beartype_type'), 'C13.R2'),
    'property-unchanged-when-getter-unchecked': tseeded(DESC, lambda t: replace_where(
        t, src_is('descriptor_getter = beartype_func(func=descriptor_getter, **kwargs)'),
        lambda n: [n] + stmts('if descriptor_getter is descriptor.fget:\n    return descriptor'),
        scope='beartype_descriptor_decorator_builtin_property'), 'C13.R4',
        'an annotated setter of a property with an unannotated getter is left unchecked'),
    # ---- deeper stacks / O0 ------------------------------------------------------------------------------------------------
    'class-stack-truncated-to-root-and-current': tseeded(TYPE, lambda t: replace_where(
        t, lambda n: isinstance(n, ast.BinOp) and ast.unparse(n) == 'cls_stack + (cls,)', lambda n: expr('(cls_stack[0], cls)'), scope='beartype_type'),
        'C13.R2', 'seeded C13-21'),
    # ---- neutral ---------------------------------------------------------------------------------------
    'n-roundtrip-decortype': roundtrip(TYPE),
    'n-roundtrip-decornontype': roundtrip(NONTYPE),
    'n-roundtrip-descriptor': roundtrip(DESC),
    'n-roundtrip-core': roundtrip(CORE),
    'n-roundtrip-cache': roundtrip(CACHE),
    'n-property-positional': tneutral(DESC, lambda t: replace_where(
        t, lambda n: isinstance(n, ast.Return) and ast.unparse(n.value).startswith('property('),
        lambda n: stmts('return property(descriptor_getter, descriptor_setter, descriptor_deleter, descriptor.__doc__)')[0],
        scope='beartype_descriptor_decorator_builtin_property'), 'property() called positionally'),
}
