"""Self-test variants for C09 (shared generator mutants, see genmut.py)."""
from .genmut import variants_for

VARIANTS = variants_for('C09')
FLOOR_APPLIED = max(2, len(VARIANTS) - 2)
