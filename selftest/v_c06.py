"""Self-test variants for C06 (hook scoping after any history)."""
import ast

from .variant import (Variant, ast_edit, expr, find_def, replace_where, roundtrip, src_is, starts, stmts,
                      tneutral, tseeded)

MAIN = 'beartype/claw/_package/clawpkgmain.py'
TRIE = 'beartype/claw/_package/clawpkgtrie.py'
CTX = 'beartype/claw/_package/clawpkgcontext.py'
IMP = 'beartype/claw/_importlib/clawimpmain.py'
FLOOR_APPLIED = 12


def _unlock(scope, nth=0):
    """Replace the nth `with claw_lock:` of `scope` by its body."""
    def fn(tree):
        return replace_where(tree, lambda n: isinstance(n, ast.With) and ast.unparse(n.items[0].context_expr) == 'claw_lock',
                             lambda n: n.body, scope=scope, nth=nth)
    return fn


def _move_out_of_lock(scope, text):
    """Move the statement starting with `text` from inside the `with claw_lock:` of `scope` to just after it."""
    def fn(tree):
        f = find_def(tree, scope)
        if f is None:
            return False
        for w in ast.walk(f):
            if isinstance(w, ast.With) and ast.unparse(w.items[0].context_expr) == 'claw_lock':
                for i, st in enumerate(w.body):
                    if ast.unparse(st).startswith(text):
                        del w.body[i]
                        for parent_ in ast.walk(f):
                            for field, val in ast.iter_fields(parent_):
                                if isinstance(val, list) and w in val:
                                    val.insert(val.index(w) + 1, st)
                                    return True
        return False
    return fn


VARIANTS = {
    # ---- R1: lock discipline -----------------------------------------------------------
    'lookup-without-lock': tseeded(TRIE, _unlock('get_package_conf_or_none'), 'C06.R1',
                                   'a concurrent beartype_package() can be observed half-registered'),
    'path-hook-added-outside-lock': tseeded(MAIN, _move_out_of_lock('hook_packages', 'add_beartype_path_hook()'), 'C06.R1'),
    'beartyping-restores-without-lock': tseeded(CTX, _unlock('beartyping', nth=1), 'C06.R1'),
    # ---- R2: lookup semantics ----------------------------------------------------------
    'whitelist-ignores-blacklist': tseeded(TRIE, lambda t: replace_where(
        t, src_is('expr:not is_package_blacklisted(package_basenames)'), lambda n: expr('True'), scope='get_package_conf_or_none'),
        'C06.R2', 'claw_skip_package_names has no effect'),
    'shallowest-prefix-wins': tseeded(TRIE, lambda t: replace_where(
        t, src_is('expr:subpackages_trie.conf_if_hooked or subpackage_conf'),
        lambda n: expr('subpackage_conf or subpackages_trie.conf_if_hooked'), scope='get_package_conf_or_none'),
        'C06.R2', 'a.b registered with C2 under a registered with C1 is checked with C1'),
    'root-conf-forgotten': tseeded(TRIE, lambda t: replace_where(
        t, src_is('subpackage_conf = claw_state.packages_trie_whitelist.conf_if_hooked'), lambda n: stmts('subpackage_conf = None')[0],
        scope='get_package_conf_or_none'), 'C06.R2', 'beartype_all() no longer applies to unregistered packages'),
    'walk-skips-first-component': tseeded(TRIE, lambda t: replace_where(
        t, lambda n: isinstance(n, ast.For) and ast.unparse(n.iter) == 'package_basenames',
        lambda n: (setattr(n, 'iter', expr('package_basenames[1:]')) or n), scope='iter_packages_trie'), 'C06.R2'),
    'lookup-returns-last-visited': tseeded(TRIE, lambda t: replace_where(
        t, src_is('return subpackage_conf'), lambda n: stmts('return claw_state.packages_trie_whitelist.conf_if_hooked')[0],
        scope='get_package_conf_or_none'), 'C06.R2'),
    # ---- R3: conflict handling is atomic ------------------------------------------------
    'all-stores-before-conflict-check': tseeded(MAIN, lambda t: replace_where(
        t, lambda n: isinstance(n, ast.If) and ast.unparse(n.test) == 'conf_curr is None',
        lambda n: stmts('''
            claw_state.packages_trie_whitelist.conf_if_hooked = conf
            if conf_curr is not None and conf_curr != conf:
                raise BeartypeClawHookException('conflict')
        '''), scope='_whitelist_packages_all'), 'C06.R3', 'a conflicting beartype_all() raises and still replaces the configuration'),
    # ---- R4: beartyping restores ---------------------------------------------------------
    'beartyping-restores-nothing-on-error': tseeded(CTX, lambda t: replace_where(
        t, lambda n: isinstance(n, ast.Try) and n.finalbody, lambda n: n.body + n.finalbody, scope='beartyping'), 'C06.R4',
        'an exception inside the with block leaves the hook installed'),
    'beartyping-forgets-old-conf': tseeded(CTX, lambda t: replace_where(
        t, src_is('claw_state.packages_trie_whitelist.conf_if_hooked = packages_trie_conf_if_hooked_old'),
        lambda n: stmts('claw_state.packages_trie_whitelist.conf_if_hooked = None')[0], scope='beartyping'), 'C06.R4',
        'a surrounding beartype_all() registration is lost after the block'),
    'beartyping-compares-raw-conf-again': tseeded(CTX, lambda t: replace_where(
        t, src_is('conf = make_conf_hookable(conf)'), lambda n: stmts('conf_hookable = make_conf_hookable(conf)')[0], scope='beartyping')
        and replace_where(t, src_is('expr:beartype_all(conf=conf)'), lambda n: expr('beartype_all(conf=conf_hookable)'), scope='beartyping'),
        'C06.R4', 'the defect repaired by the fix commit, reintroduced'),
    # ---- R5: path hook idempotence ------------------------------------------------------
    'add-hook-not-idempotent': tseeded(IMP, lambda t: replace_where(
        t, lambda n: isinstance(n, ast.If) and ast.unparse(n.test) == 'claw_state.beartype_path_hook is not None',
        lambda n: None, scope='add_beartype_path_hook'), 'C06.R5', 'every hook call stacks another path hook'),
    'remove-hook-keeps-finder-cache': tseeded(IMP, lambda t: replace_where(
        t, src_is('_clear_importlib_caches()'), lambda n: None, scope='remove_beartype_path_hook'), 'C06.R5',
        'cached finders keep hooking after the hook was removed'),
    'clear-caches-half': tseeded(IMP, lambda t: replace_where(
        t, src_is('path_importer_cache.clear()'), lambda n: None, scope='_clear_importlib_caches'), 'C06.R5'),
    'blacklisted-leaf-recognised-by-emptiness': tseeded(TRIE, lambda t: replace_where(
        t, lambda n: isinstance(n, ast.Compare) and ast.unparse(n) == 'subpackages_trie_blacklist is PackagesTrieBlacklisted',
        lambda n: expr('not subpackages_trie_blacklist'), scope='is_package_blacklisted'), 'C06.R2', 'seeded C06-21'),
    # ---- neutral --------------------------------------------------------------------------
    'n-roundtrip-main': roundtrip(MAIN),
    'n-roundtrip-trie': roundtrip(TRIE),
    'n-roundtrip-context': roundtrip(CTX),
    'n-roundtrip-importlib': roundtrip(IMP),
    'n-lookup-fold-ifexp': tneutral(TRIE, lambda t: replace_where(
        t, src_is('expr:subpackages_trie.conf_if_hooked or subpackage_conf'),
        lambda n: expr('subpackages_trie.conf_if_hooked if subpackages_trie.conf_if_hooked else subpackage_conf'),
        scope='get_package_conf_or_none'), 'the fold written as a conditional expression'),
    'n-validate-then-store-some': tneutral(MAIN, lambda t: _two_pass(t), 'a repair of F7: conflicts are detected in a first pass, stores happen in a second'),
}


def _hook_first(tree):
    f = find_def(tree, 'hook_packages')
    if f is None:
        return False
    for w in ast.walk(f):
        if isinstance(w, ast.With) and ast.unparse(w.items[0].context_expr) == 'claw_lock':
            for i, st in enumerate(w.body):
                if ast.unparse(st) == 'add_beartype_path_hook()':
                    del w.body[i]
                    w.body.insert(0, st)
                    return True
    return False


def _two_pass(tree):
    """_whitelist_packages_some: first loop only reads and raises, second loop stores."""
    f = find_def(tree, '_whitelist_packages_some')
    if f is None:
        return False
    new = stmts('''
        from beartype.claw._clawstate import claw_state
        for package_name in package_names:
            subtrie = claw_state.packages_trie_whitelist
            for package_basename in package_name.split('.'):
                subtrie = subtrie.get(package_basename)
                if subtrie is None:
                    break
            else:
                conf_curr = subtrie.conf_if_hooked
                if conf_curr is not None and conf_curr != conf:
                    raise BeartypeClawHookException('conflict')
        for package_name in package_names:
            package_basenames = package_name.split('.')
            subpackages_trie_whitelist = claw_state.packages_trie_whitelist
            for package_basename in package_basenames:
                if package_basename not in subpackages_trie_whitelist:
                    subpackages_trie_whitelist[package_basename] = PackagesTrieWhitelist(package_basename=package_basename)
                subpackages_trie_whitelist = subpackages_trie_whitelist[package_basename]
            subpackages_trie_whitelist.conf_if_hooked = conf
    ''')
    f.body = [st for st in f.body if isinstance(st, (ast.Assert,)) or (isinstance(st, ast.Expr) and isinstance(st.value, ast.Constant))] + new
    return True
