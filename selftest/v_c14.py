"""Self-test variants for C14 (memoisation is invisible)."""
import ast

from .variant import (Variant, expr, find_def, replace_where, roundtrip, src_is, starts, stmts, tneutral, tseeded)

CLR = 'beartype/_util/cache/utilcacheclear.py'
CMAIN = 'beartype/_check/code/codemain.py'
CMK = 'beartype/_check/checkmake.py'
P560 = 'beartype/_util/hint/pep/proposal/pep560.py'
P695 = 'beartype/_util/hint/pep/proposal/pep695.py'
DOORF = 'beartype/door/_func/doorfunc.py'
DOORM = 'beartype/door/_cls/doormeta.py'
SANE = 'beartype/_check/cls/hint/hintsane.py'
UTILGET = 'beartype/_util/hint/pep/utilpepget.py'
FLOOR_APPLIED = 10


def _add_memo(tree):
    """A new run-time memo table that clear_caches() does not know."""
    f = find_def(tree, 'is_bearable')
    if f is None:
        return False
    tree.body.insert(tree.body.index(f), stmts('_HINT_TO_LAST_ANSWER = {}')[0])
    f.body.insert(len(f.body) - 1, stmts('_HINT_TO_LAST_ANSWER[hint] = conf')[0])
    return True


def _key_by_repr(tree):
    f = find_def(tree, 'make_check_expr')
    return f is not None and replace_where(tree, src_is('CACHE_KEY = (hint_sane, conf)'),
                                           lambda n: stmts('CACHE_KEY = (repr(hint_sane), conf)')[0], scope='make_check_expr')


REF = 'beartype/_check/convert/_reduce/_pep/pep484/redpep484ref.py'

VARIANTS = {
    # ---- R4: clear list complete ------------------------------------------------------------------
    'clear-forgets-check-expr-table': tseeded(CLR, lambda t: replace_where(
        t, src_is('_HINT_CONF_TO_CHECK_EXPR.clear()'), lambda n: None, scope='clear_caches'), 'C14.R4',
        'after a class is redefined, list[C] is still checked against the old C'),
    'clear-forgets-hintsane-table': tseeded(CLR, lambda t: replace_where(
        t, src_is('_HINT_TO_HINTSANE.clear()'), lambda n: None, scope='clear_caches'), 'C14.R4'),
    'new-unlisted-memo-table': tseeded(DOORF, _add_memo, 'C14.R4', 'a new run-time table nobody clears'),
    # ---- R2: key injectivity ---------------------------------------------------------------------------
    'check-expr-keyed-by-repr': tseeded(CMAIN, _key_by_repr, 'C14',
                                        'two distinct classes with one repr share generated code'),
    # ---- R1: key completeness ---------------------------------------------------------------------------
    'check-expr-key-drops-conf': tseeded(CMAIN, lambda t: replace_where(
        t, src_is('CACHE_KEY = (hint_sane, conf)'), lambda n: stmts('CACHE_KEY = (hint_sane,)')[0], scope='make_check_expr'), 'C14.R1',
        'is_bearable(x, h, conf=C1) answers with the code generated for C0'),
    'checker-key-drops-prefix': tseeded(CMK, lambda t: replace_where(
        t, src_is('CACHE_KEY = (hint, conf, exception_prefix)'), lambda n: stmts('CACHE_KEY = (hint, conf)')[0], scope='make_func_checker'), 'C14.R1',
        'violation messages carry the prefix of an earlier caller'),
    'checker-stores-unmemoisable': tseeded(CMK, lambda t: replace_where(
        t, lambda n: isinstance(n, ast.If) and 'is_check_expr_cacheable' in ast.unparse(n.test),
        lambda n: (setattr(n, 'test', expr('is_func_cacheable')) or n), scope='make_func_checker'), 'C14.R1',
        'checkers that depend on the caller\'s scope (forward references) are shared between callers'),
    # ---- R5: pooled objects ---------------------------------------------------------------------------------
    'pooled-list-never-released': tseeded(P560, lambda t: replace_where(
        t, src_is('release_fixed_list(hint_bases)'), lambda n: None), 'C14.R5'),
    'pooled-dict-returned': tseeded(P695, lambda t: replace_where(
        t, src_is('release_instance(scope_pep695)'), lambda n: stmts('release_instance(scope_pep695)\nreturn scope_pep695'), nth=0), 'C14.R5',
        'a pooled dictionary escapes to the caller and is handed to the next acquirer as well'),
    # ---- R6 -------------------------------------------------------------------------------------------------
    'memoised-called-by-keyword': tseeded(DOORF, lambda t: _kwcall(t), 'C14.R6'),
    # ---- R11 / R12 / R13 ---------------------------------------------------------------------------------------------
    'tester-table-aliases-raiser-table': tseeded(DOORF, lambda t: replace_where(
        t, lambda n: isinstance(n, (ast.Assign, ast.AnnAssign)) and 'TESTER' in ast.unparse(n.targets[0] if isinstance(n, ast.Assign) else n.target)
        and isinstance(n.value, ast.Dict), lambda n: (setattr(n, 'value', expr('_HINT_CONF_EXCEPTION_PREFIX_TO_FUNC_RAISER')) or n)), 'C14.R11',
        'seeded C14-23'),
    'forward-reference-metadata-cacheable': tseeded(REF, lambda t: replace_where(
        t, lambda n: isinstance(n, ast.keyword) and n.arg == 'is_check_expr_cacheable', lambda n: ast.keyword(arg='is_check_expr_cacheable', value=expr('True')),
        scope='reduce_hint_pep484_ref'), 'C14.R12', 'seeded C14-21'),
    'hintsane-eq-trusts-the-hash': tseeded(SANE, lambda t: replace_where(
        t, lambda n: isinstance(n, ast.Return), lambda n: stmts('return self._hash == other._hash if isinstance(other, HintSane) else NotImplemented')[0],
        scope='HintSane.__eq__'), 'C14.R13', 'seeded C01-23'),
    # ---- neutral ------------------------------------------------------------------------------------------------
    'n-roundtrip-clear': roundtrip(CLR),
    'n-roundtrip-checkmake': roundtrip(CMK),
    'n-roundtrip-doorfunc': roundtrip(DOORF),
    'n-clear-reordered': tneutral(CLR, lambda t: _reorder(t), 'clear() calls reordered'),
}


def _reorder(tree):
    f = find_def(tree, 'clear_caches')
    if f is None:
        return False
    idx = [i for i, s in enumerate(f.body) if isinstance(s, ast.Expr) and ast.unparse(s).endswith('.clear()')]
    if len(idx) < 3:
        return False
    body = [f.body[i] for i in idx]
    body.reverse()
    for i, s in zip(idx, body):
        f.body[i] = s
    return True


def _kwcall(tree):
    """Call a @callable_cached function by keyword somewhere."""
    f = find_def(tree, 'is_bearable')
    if f is None:
        return False
    tree.body.insert(0, stmts('from beartype._util.hint.pep.utilpepget import get_hint_pep_typeargs_unpacked')[0])
    f.body.insert(len(f.body) - 1, stmts('_ = get_hint_pep_typeargs_unpacked(hint=hint)')[0])
    return True
