"""Witness for F22 (triage only, never part of a verdict): under the beartype.claw hook the annotation expression of a
module-level annotated assignment and the object expression of an attribute target are evaluated twice.

run:  cd /tmp && PYTHONPATH=/repo /venv/bin/python /verif/triage/w_f22_double_evaluation.py
"""
import os
import subprocess
import sys
import tempfile
import textwrap

MOD = textwrap.dedent('''
    calls = []
    def hint():
        calls.append('hint')
        return int
    class O: pass
    o = O()
    def obj():
        calls.append('obj')
        return o
    x: hint() = 1
    obj().attr: int = 2
''')
RUN = textwrap.dedent('''
    import sys
    sys.dont_write_bytecode = True
    sys.path.insert(0, {d!r})
    if sys.argv[1] == 'hooked':
        from beartype.claw import beartyping
        with beartyping():
            import modw22
    else:
        import modw22
    print(modw22.calls)
''')
with tempfile.TemporaryDirectory() as d:
    open(os.path.join(d, 'modw22.py'), 'w').write(MOD)
    open(os.path.join(d, 'run.py'), 'w').write(RUN.format(d=d))
    out = {}
    for mode in ('plain', 'hooked'):
        p = subprocess.run([sys.executable, os.path.join(d, 'run.py'), mode], capture_output=True, text=True,
                           env=dict(os.environ, PYTHONDONTWRITEBYTECODE='1'))
        out[mode] = p.stdout.strip().splitlines()[-1] if p.stdout.strip() else p.stderr[-300:]
        print(mode, out[mode])
    sys.exit(1 if out['plain'] != out['hooked'] else 0)
