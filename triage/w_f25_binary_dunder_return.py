"""Witness for F25 (C11.R13) — not a check.  Run with PYTHONPATH=<tree>.

The return hint of a binary dunder method was widened to Union[hint, NotImplementedType] before being coerced or
validated: a valid tuple union and an invalid unhashable object both made typing.Union raise a bare TypeError out of
@beartype.  Exit 1 if a non-beartype exception escapes the decoration.
"""
import sys

from beartype import beartype
from beartype.roar import BeartypeException

bad = 0
for hint in ((int, str), [], (int, [1]), {1: 2}):
    try:
        class C:
            @beartype
            def __add__(self, other) -> hint:
                return 1
        print(f'-> {hint!r}: decorated; C() + 2 = {C() + 2!r}')
    except BeartypeException as ex:
        print(f'-> {hint!r}: {type(ex).__name__} (beartype)')
    except Exception as ex:  # noqa: BLE001
        bad += 1
        print(f'-> {hint!r}: LEAK {type(ex).__module__}.{type(ex).__name__}: {ex}')
sys.exit(1 if bad else 0)
