#!/usr/bin/env python3
"""Print a python file with comments and docstrings stripped, keeping original line numbers."""
import sys, io, tokenize, ast
def strip(path, lo=None, hi=None):
    src = open(path).read()
    tree = ast.parse(src)
    doc_lines = set()
    for node in ast.walk(tree):
        # any bare string expression statement
        if isinstance(node, ast.Expr) and isinstance(node.value, ast.Constant) and isinstance(node.value.value, str):
            for l in range(node.lineno, node.end_lineno+1):
                doc_lines.add(l)
    lines = src.splitlines()
    comment_only = set()
    toks = tokenize.generate_tokens(io.StringIO(src).readline)
    com = {}
    for t in toks:
        if t.type == tokenize.COMMENT:
            com[t.start[0]] = t.start[1]
    for i, line in enumerate(lines, 1):
        if lo and i < lo: continue
        if hi and i > hi: continue
        if i in doc_lines: continue
        if i in com:
            line = line[:com[i]].rstrip()
        if not line.strip(): continue
        print(f"{i:5d} {line}")
if __name__ == '__main__':
    p = sys.argv[1]
    lo = int(sys.argv[2]) if len(sys.argv) > 2 else None
    hi = int(sys.argv[3]) if len(sys.argv) > 3 else None
    strip(p, lo, hi)
