"""Prototype: probe-integrity hygiene test for template fields."""
import ast, re, string, sys
sys.path.insert(0, __import__('os').path.dirname(__import__('os').path.abspath(__file__)))
from fold import Mods, Fmt
M=Mods()
def tmpl(mod,name):
    v=M.lookup(mod,name)
    return v.s if isinstance(v,Fmt) else v
PROBES={
 'IDENT':  '__P0',
 'ATOM':   '__P0[__P1 % len(__P0)]',
 'CALL':   'next(iter(__P0))',
 'WALRUS': '__P9 := __P0[__P1]',
 'PLACEHOLDER': '(__PH0 and __PH1)',   # child check code is always parenthesised? to be verified
}
def fields(t):
    return [f for _,f,_,_ in string.Formatter().parse(t) if f]
def probe_ast(cat):
    return ast.dump(ast.parse(PROBES[cat], mode='eval').body) if cat!='WALRUS' else ast.dump(ast.parse('('+PROBES[cat]+')',mode='eval').body)
def integrity(template, field, cat, others):
    """substitute `field` with probe of category `cat`, other fields with neutral atoms; parse; check probe subtree intact."""
    class D(dict):
        def __missing__(self,k): return others.get(k, f'__F_{k}')
    binding=D(); binding[field]=PROBES[cat]
    # two-stage: format once, then again for double-brace fields
    s=template
    for _ in range(2):
        try: s=s.format_map(binding)
        except Exception as e: return ('format-error', str(e))
    try:
        tree=ast.parse(s.strip(), mode='eval')
    except SyntaxError as e:
        return ('syntax-error', e.msg)
    want=probe_ast(cat)
    n=sum(1 for x in ast.walk(tree) if ast.dump(x)==want)
    return ('ok', n) if n>=1 else ('reassociated', s.strip()[:120].replace('\n',' '))
cases=[
 ('beartype.vale._util._valeutilsnip','VALE_CODE_CHECK_ISEQUAL_TEST','obj'),
 ('beartype.vale._util._valeutilsnip','VALE_CODE_CHECK_ISINSTANCE_TEST','obj'),
 ('beartype.vale._util._valeutilsnip','VALE_CODE_CHECK_ISSUBCLASS_TEST','obj'),
 ('beartype._check.code.snip.codesnipstr','CODE_PEP484_INSTANCE','pith_curr_expr'),
 ('beartype._data.check.code.pep.datacodepep484585','CODE_PEP484585_REITERABLE_OR_SEQUENCE','pith_curr_assign_expr'),
 ('beartype._data.check.code.pep.datacodepep484585','CODE_PEP484585_REITERABLE_OR_SEQUENCE','pith_curr_var_name'),
 ('beartype._data.check.code.pep.datacodepep484585','CODE_PEP484585_QUASIITERABLE','pith_curr_assign_expr'),
 ('beartype._data.check.code.pep.datacodepep484585','CODE_PEP484585_QUASIITERABLE','sequence_pith_child_expr'),
 ('beartype._data.check.code.pep.datacodepep484585','CODE_PEP484585_QUASIITERABLE','pith_child_var_name'),
 ('beartype._data.check.code.pep.datacodepep484585','CODE_PEP484585_SUBCLASS','pith_curr_assign_expr'),
 ('beartype._data.check.code.pep.datacodepep484585','CODE_PEP484585_MAPPING','pith_curr_assign_expr'),
]
others={'indent_curr':'','indent':'','hint_child_placeholder':'__CHILD','func_curr_code_key_value':'__KV','hint_curr_expr':'__T','collection_abc_expr':'__C','sequence_abc_expr':'__S'}
for mod,name,f in cases:
    t=tmpl(mod,name)
    if name.startswith('VALE'): t='('+t+')'
    print(name, f, fields(t))
    for cat in ('IDENT','ATOM','CALL','WALRUS'):
        print('   ',cat, integrity(t,f,cat,others))
# IsAttr temp name
t="({obj}_isattr_real := getattr({obj}, 'real', __S)) is not __S and ({obj}_isattr_real == 1)"
for cat in ('IDENT','ATOM','WALRUS'):
    print('ISATTR',cat, integrity(t,'obj',cat,{}))
