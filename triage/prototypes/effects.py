import ast, io, tokenize, string, sys, collections, keyword
sys.path.insert(0, __import__('os').path.dirname(__import__('os').path.abspath(__file__)))
from fold import Mods, Fmt, Unknown
M=Mods()
mods=['beartype._data.check.code.pep.datacodepep484585','beartype._data.check.code.pep.datacodepep484604','beartype._data.check.code.pep.datacodepep586','beartype._data.check.code.pep.datacodepep593','beartype._check.code.snip.codesnipstr','beartype.vale._util._valeutilsnip','beartype._data.check.code.pep.datacodepep484','beartype._data.check.code.pep.datacodepep342','beartype._data.check.code.pep.datacodepep525','beartype._data.check.code.func.datacodefuncwrap','beartype._data.check.code.func.datacodefunccheck']
calls=collections.Counter(); kws=collections.Counter(); ops=collections.Counter()
for mod in mods:
    t=M.tree(mod)
    for n in t.body:
        names=[]
        if isinstance(n, ast.Assign): names=[tg.id for tg in n.targets if isinstance(tg, ast.Name)]
        elif isinstance(n, ast.AnnAssign) and isinstance(n.target, ast.Name) and n.value is not None: names=[n.target.id]
        for nm in names:
            try: v=M.lookup(mod,nm)
            except Unknown: continue
            if isinstance(v,Fmt) or not isinstance(v,str): 
                if isinstance(v,dict): vals=[x for x in v.values() if isinstance(x,str)]
                else: continue
            else: vals=[v]
            for s in vals:
                # neutralise fields
                class D(dict):
                    def __missing__(self,k): return 'F_'+k.split('!')[0]
                for _ in range(2):
                    try: s=string.Formatter().vformat(s,(),D())
                    except Exception as e: break
                try:
                    toks=list(tokenize.generate_tokens(io.StringIO(s).readline))
                except (tokenize.TokenError, IndentationError, SyntaxError) as e:
                    toks=[]
                    try:
                        for tk in tokenize.generate_tokens(io.StringIO(s).readline): toks.append(tk)
                    except Exception: pass
                prev=None
                for i,tk in enumerate(toks):
                    if tk.type==tokenize.NAME and keyword.iskeyword(tk.string): kws[tk.string]+=1
                    if tk.type==tokenize.OP and tk.string=='(' and prev is not None and prev.type==tokenize.NAME and not keyword.iskeyword(prev.string):
                        # attribute call?
                        pp=toks[i-2] if i>=2 else None
                        calls[('.' if pp is not None and pp.string=='.' else '')+prev.string]+=1
                    if tk.type==tokenize.OP and tk.string in ('[','==','!=','%',':=','-','+','<','>','*','**'): ops[tk.string]+=1
                    prev=tk
print('CALLS',dict(calls))
print('KEYWORDS',dict(kws))
print('OPS',dict(ops))
