"""Prototype: name-based call resolution rate over beartype/ (pure ast)."""
import ast, os, sys, time, collections
ROOT='/repo'
t0=time.time()
mods={}
for dp,dn,fn in os.walk(os.path.join(ROOT,'beartype')):
    for f in fn:
        if f.endswith('.py'):
            p=os.path.join(dp,f)
            rel=os.path.relpath(p,ROOT)
            name=rel[:-3].replace('/','.')
            if name.endswith('.__init__'): name=name[:-9]
            mods[name]=(p,ast.parse(open(p).read()))
print(len(mods),'modules parsed in',round(time.time()-t0,2))
# symbol tables
defs={}   # mod -> {name: kind}
imps={}   # mod -> {local: (srcmod, srcname)}
for m,(p,t) in mods.items():
    d={}; i={}
    for n in ast.walk(t):
        if isinstance(n,(ast.FunctionDef,ast.AsyncFunctionDef,ast.ClassDef)):
            d.setdefault(n.name,type(n).__name__)
        elif isinstance(n,ast.ImportFrom) and n.module and n.level==0:
            for a in n.names:
                i[a.asname or a.name]=(n.module,a.name)
        elif isinstance(n,ast.Import):
            for a in n.names:
                i[a.asname or a.name.split('.')[0]]=(a.name,None)
    for n in t.body:
        if isinstance(n,ast.Assign):
            for tg in n.targets:
                if isinstance(tg,ast.Name): d.setdefault(tg.id,'var')
        elif isinstance(n,ast.AnnAssign) and isinstance(n.target,ast.Name):
            d.setdefault(n.target.id,'var')
    defs[m]=d; imps[m]=i
import builtins
B=set(dir(builtins))
stat=collections.Counter()
unres=collections.Counter()
for m,(p,t) in mods.items():
    for n in ast.walk(t):
        if isinstance(n,ast.Call):
            f=n.func
            if isinstance(f,ast.Name):
                if f.id in imps[m]:
                    sm,sn=imps[m][f.id]
                    if sm in mods: stat['name->beartype']+=1
                    else: stat['name->external']+=1
                elif f.id in defs[m]: stat['name->local def']+=1
                elif f.id in B: stat['name->builtin']+=1
                else:
                    stat['name->unresolved(local var/param)']+=1; unres[f.id]+=1
            elif isinstance(f,ast.Attribute):
                stat['attr call']+=1
            else: stat['other']+=1
print(stat)
print(unres.most_common(40))
print('total',round(time.time()-t0,2))
