"""Prototype: static constant folder for beartype module-level constants (no import of beartype)."""
import ast, os, sys
ROOT='/repo'
class Unknown(Exception): pass
class Fmt:  # bound str.format of a folded template
    def __init__(self, s): self.s=s
class Mods:
    def __init__(self):
        self.cache={}
        self.env={}
    def path(self, mod):
        p=os.path.join(ROOT, mod.replace('.','/'))
        if os.path.isdir(p): return os.path.join(p,'__init__.py')
        return p+'.py'
    def tree(self, mod):
        if mod not in self.cache:
            p=self.path(mod)
            if not os.path.exists(p): raise Unknown(f'no module {mod}')
            self.cache[mod]=ast.parse(open(p).read())
        return self.cache[mod]
    def lookup(self, mod, name, depth=0):
        key=(mod,name)
        if key in self.env: return self.env[key]
        if depth>20: raise Unknown('depth')
        t=self.tree(mod)
        val=None; found=False
        for n in t.body:
            if isinstance(n, ast.Assign):
                for tg in n.targets:
                    if isinstance(tg, ast.Name) and tg.id==name:
                        val=self.ev(mod, n.value, depth+1); found=True
            elif isinstance(n, ast.AnnAssign) and isinstance(n.target, ast.Name) and n.target.id==name and n.value is not None:
                val=self.ev(mod, n.value, depth+1); found=True
            elif isinstance(n, ast.ImportFrom) and n.module and n.level==0:
                for a in n.names:
                    if (a.asname or a.name)==name:
                        val=self.lookup(n.module, a.name, depth+1); found=True
        if not found: raise Unknown(f'{mod}.{name} not found')
        self.env[key]=val
        return val
    def ev(self, mod, e, depth=0):
        if isinstance(e, ast.Constant): return e.value
        if isinstance(e, ast.Name): return self.lookup(mod, e.id, depth)
        if isinstance(e, ast.JoinedStr):
            out=[]
            for v in e.values:
                if isinstance(v, ast.Constant): out.append(v.value)
                elif isinstance(v, ast.FormattedValue):
                    x=self.ev(mod, v.value, depth)
                    if v.conversion==114: x=repr(x)
                    if v.format_spec is not None:
                        spec=self.ev(mod, v.format_spec, depth); x=format(x, spec)
                    out.append(str(x))
            return ''.join(out)
        if isinstance(e, ast.BinOp):
            l=self.ev(mod,e.left,depth); r=self.ev(mod,e.right,depth)
            if isinstance(e.op, ast.Add): return l+r
            if isinstance(e.op, ast.BitOr): return l|r
            if isinstance(e.op, ast.Sub): return l-r
            if isinstance(e.op, ast.Mult): return l*r
            raise Unknown('binop')
        if isinstance(e, ast.UnaryOp) and isinstance(e.op, ast.USub): return -self.ev(mod,e.operand,depth)
        if isinstance(e, ast.Attribute):
            if e.attr=='format':
                return Fmt(self.ev(mod,e.value,depth))
            raise Unknown(f'attr {e.attr}')
        if isinstance(e, ast.Call):
            if isinstance(e.func, ast.Name) and e.func.id=='len' and len(e.args)==1: return len(self.ev(mod,e.args[0],depth))
            if isinstance(e.func, ast.Name) and e.func.id=='frozenset':
                if not e.args: return frozenset()
                return frozenset(self.ev(mod,e.args[0],depth))
            if isinstance(e.func, ast.Attribute) and e.func.attr=='replace':
                s=self.ev(mod,e.func.value,depth); a=[self.ev(mod,x,depth) for x in e.args]; return s.replace(*a)
            raise Unknown('call '+ast.dump(e.func)[:60])
        if isinstance(e, ast.Tuple): return tuple(self.ev(mod,x,depth) for x in e.elts)
        if isinstance(e, ast.Dict): return {self.ev(mod,k,depth): self.ev(mod,v,depth) for k,v in zip(e.keys,e.values)}
        raise Unknown(type(e).__name__)
if __name__=='__main__':
    M=Mods()
    import glob
    ok=bad=0; results={}
    files=glob.glob(ROOT+'/beartype/_data/check/code/**/*.py', recursive=True)+[ROOT+'/beartype/_check/code/snip/codesnipstr.py', ROOT+'/beartype/vale/_util/_valeutilsnip.py', ROOT+'/beartype/_data/claw/dataclawmagic.py']
    for f in files:
        mod=os.path.relpath(f,ROOT)[:-3].replace('/','.')
        if mod.endswith('.__init__'): continue
        t=M.tree(mod)
        for n in t.body:
            names=[]
            if isinstance(n, ast.Assign): names=[tg.id for tg in n.targets if isinstance(tg, ast.Name)]
            elif isinstance(n, ast.AnnAssign) and isinstance(n.target, ast.Name) and n.value is not None: names=[n.target.id]
            for nm in names:
                try:
                    v=M.lookup(mod,nm); results[(mod,nm)]=v; ok+=1
                except Unknown as ex:
                    bad+=1; print('UNFOLDED',mod,nm,ex)
    print('folded',ok,'unfolded',bad)
    # cross-validate against import (validation of the folder only)
    import importlib
    mism=0
    for (mod,nm),v in results.items():
        m=importlib.import_module(mod); rv=getattr(m,nm)
        if isinstance(v,Fmt):
            if not (getattr(rv,'__self__',None)==v.s): mism+=1; print('MISMATCH fmt',mod,nm)
        elif rv!=v:
            mism+=1; print('MISMATCH',mod,nm,repr(v)[:60],repr(rv)[:60])
    print('mismatches',mism)
