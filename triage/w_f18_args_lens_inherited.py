import functools
from beartype import beartype
from beartype.roar import BeartypeCallHintParamViolation

def orig(a: int, b: int) -> int:
    return a + b
checked = beartype(orig)          # inspecting orig caches its argument lengths on orig.__dict__
print('cached on orig:', orig.__dict__)

def adapter(fn):
    @functools.wraps(fn)          # copies fn.__dict__ (including the cache) and __annotations__... onto w
    def w(x: str, y: str, z: str = 'z', *, k: str = 'k'):
        return fn(len(x), len(y))
    w.__annotations__ = {'x': str, 'y': str, 'z': str, 'k': str, 'return': int}
    return w
w = adapter(orig)
print('inherited by wrapper:', {k: v for k, v in w.__dict__.items() if 'beartype' in k})
bw = beartype(w)
try:
    print('bw("ab","c") =', bw('ab', 'c'))
    print('bw("ab","c", 5) =', bw('ab', 'c', 5), '  <- z: str not checked?')
except Exception as e:
    print(type(e).__name__, str(e)[:200])
try:
    print('bw("ab","c", k=5) =', bw('ab', 'c', k=5), '  <- k: str not checked?')
except Exception as e:
    print(type(e).__name__, str(e)[:200])
