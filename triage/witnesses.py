#!/usr/bin/env python3
"""
Triage witnesses -- NOT checks, NOT part of any verdict.

Each function reproduces, against the real library in /repo, one deviation that a
planned static rule (see DESIGN.md, section 6) flags on the unchanged tree.  They exist
only to settle "genuine defect or false alarm" for what the rules report, as the brief
requires ("you can show the failing input, schedule or history against the real code").
The static checks never import or run these.

usage:  /venv/bin/python triage/witnesses.py            # all
        /venv/bin/python triage/witnesses.py F3 F12a    # some

Every witness prints  `<id> REPRODUCED: ...`  or  `<id> not reproduced: ...`.
Multi-process witnesses work in a fresh temporary directory that is removed afterwards.
"""
import os
import shutil
import subprocess
import sys
import tempfile
import textwrap

PY = sys.executable


def _env(pyc):
    """Child environment.  Bytecode is written only when a witness is about bytecode
    caches, and then under the private prefix `pyc` (inside the witness's temporary
    directory) so that nothing is ever written below /repo."""
    env = dict(os.environ)
    env.pop('PYTHONPYCACHEPREFIX', None)
    if pyc is None:
        env['PYTHONDONTWRITEBYTECODE'] = '1'
    else:
        env.pop('PYTHONDONTWRITEBYTECODE', None)
        env['PYTHONPYCACHEPREFIX'] = pyc
    return env


def _say(fid, ok, msg):
    print(f"{fid} {'REPRODUCED' if ok else 'not reproduced'}: {msg}")
    return ok


def _run(code, cwd, *args, pyc=None):
    """Run `code` in a fresh interpreter and return its output."""
    p = subprocess.run([PY, '-W', 'ignore', '-c', textwrap.dedent(code), *args],
                       cwd=cwd, env=_env(pyc), capture_output=True, text=True, timeout=120)
    return (p.stdout + p.stderr).strip()


def _pkg(root, name, **files):
    d = os.path.join(root, name)
    os.makedirs(d, exist_ok=True)
    open(os.path.join(d, '__init__.py'), 'w').close()
    for fn, src in files.items():
        with open(os.path.join(d, fn + '.py'), 'w') as f:
            f.write(textwrap.dedent(src))


# ---------------------------------------------------------------- single-process
def F1():
    from typing import Annotated
    from beartype.door import is_bearable
    from beartype.vale import IsAttr, IsEqual
    try:
        r = is_bearable([1], list[Annotated[object, IsAttr['real', IsEqual[1]]]])
        return _say('F1', False, f'returned {r}')
    except Exception as e:  # noqa
        return _say('F1', type(e).__name__.startswith('_') and 'SyntaxError' in str(e),
                    f'is_bearable([1], list[Annotated[object, IsAttr[...]]]) raised '
                    f'{type(e).__name__} (generated code is a SyntaxError)')


def F2():
    from typing import Annotated
    from beartype.door import is_bearable
    from beartype.vale import IsEqual, IsInstance
    a = is_bearable([5], list[Annotated[object, IsEqual[5], IsEqual[5]]])
    b = is_bearable([5], list[Annotated[object, IsEqual[5], IsInstance[bool]]])
    return _say('F2', a is False and b is True,
                f'[5] vs list[Annotated[object, IsEqual[5], IsEqual[5]]] -> {a} (want True); '
                f'[5] vs list[Annotated[object, IsEqual[5], IsInstance[bool]]] -> {b} (want False)')


def F3():
    from beartype.door import is_bearable

    def make():
        class Foo:
            pass
        return Foo
    A, B = make(), make()
    first = is_bearable([A()], list[A])
    second = is_bearable([B()], list[B])
    return _say('F3', first is True and second is False,
                f'is_bearable([B()], list[B]) -> {second} after an equal-repr hint list[A] was seen')


def F5_F6():
    from beartype import BeartypeConf
    from beartype.claw import beartyping
    from beartype.claw._clawstate import claw_state
    from beartype.claw._package.clawpkgtrie import is_package_blacklisted
    claw_state.reinit()
    with beartyping():
        pass
    left = claw_state.packages_trie_whitelist.conf_if_hooked
    hook = claw_state.beartype_path_hook
    ok5 = _say('F5', left is not None and hook is not None,
               f'after `with beartyping(): pass` root conf is {left!r} and path hook installed={hook is not None}')
    claw_state.reinit()
    with beartyping(conf=BeartypeConf(claw_skip_package_names=('zzz_skipme',))):
        pass
    ok6 = _say('F6', is_package_blacklisted(['zzz_skipme']),
               'package skipped inside beartyping() is still skipped after the block')
    claw_state.reinit()
    return ok5 and ok6


def F7():
    from beartype import BeartypeConf
    from beartype.claw import beartype_packages
    from beartype.claw._clawstate import claw_state
    from beartype.claw._package.clawpkgtrie import get_package_conf_or_none
    from beartype.roar import BeartypeClawHookException
    claw_state.reinit()
    c1, c2 = BeartypeConf(is_color=False), BeartypeConf(is_color=True)
    beartype_packages(('wpkgb',), conf=c1)
    raised = False
    try:
        beartype_packages(('wpkga', 'wpkgb'), conf=c2)
    except BeartypeClawHookException:
        raised = True
    left = get_package_conf_or_none('wpkga')
    claw_state.reinit()
    return _say('F7', raised and left is not None,
                f'conflicting multi-package call raised={raised} yet left wpkga registered: {left!r}')


def F7b():
    from beartype import BeartypeConf
    from beartype.claw import beartype_all, beartype_packages
    from beartype.claw._clawstate import claw_state
    from beartype.roar import BeartypeClawHookException
    claw_state.reinit()
    beartype_packages(('wpkga',), conf=BeartypeConf(is_debug=False))
    r1 = r2 = False
    try:
        beartype_packages(('wpkga',), conf=BeartypeConf(is_color=False, claw_skip_package_names=('wskip1',)))
    except BeartypeClawHookException:
        r1 = True
    left1 = 'wskip1' in claw_state.packages_trie_blacklist
    try:
        beartype_all(conf=BeartypeConf(is_color=True))
        beartype_all(conf=BeartypeConf(is_color=False, claw_skip_package_names=('wskip2',)))
    except BeartypeClawHookException:
        r2 = True
    left2 = 'wskip2' in claw_state.packages_trie_blacklist
    claw_state.reinit()
    return _say('F7b', r1 and left1 and r2 and left2,
                f'conflicting beartype_packages()/beartype_all() calls raised ({r1}, {r2}) yet their skip '
                f'lists stayed registered ({left1}, {left2})')


def F8():
    from beartype.door import is_bearable
    h = int
    for _ in range(100):
        h = list[h]
    try:
        is_bearable([], h)
        name = 'no exception'
    except Exception as e:
        name = type(e).__name__
    return _say('F8', name.startswith('_'), f'is_bearable([], <list nested 100 deep>) raised {name}')


def F17():
    from collections.abc import Iterable
    from beartype.door import die_if_unbearable
    try:
        die_if_unbearable(((i for i in range(3)), 'x'), tuple[Iterable[int], int])
        name = 'no exception'
    except Exception as e:
        name = type(e).__name__
    return _say('F17', name == 'TypeError', f"die_if_unbearable((generator, 'x'), tuple[Iterable[int], int]) raised {name}")


def F19():
    from typing import Annotated
    from beartype.door import is_bearable
    try:
        is_bearable([1], list[Annotated[int, []]])
        name = 'no exception'
    except Exception as e:
        name = type(e).__name__
    return _say('F19', name == 'TypeError', f'is_bearable([1], list[Annotated[int, []]]) raised {name}')


def F9_F12():
    from beartype import BeartypeConf
    from beartype.roar import BeartypeConfParamException
    try:
        BeartypeConf(claw_skip_package_names=['a'])
        ok9 = _say('F9', False, 'accepted')
    except BeartypeConfParamException:
        ok9 = _say('F9', False, 'BeartypeConfParamException')
    except TypeError as e:
        ok9 = _say('F9', True, f'BeartypeConf(claw_skip_package_names=["a"]) raised bare TypeError: {e}')
    # history dependence of validation -- needs a fresh interpreter for the "before" half
    out = _run("""
        from beartype import BeartypeConf
        from beartype.roar import BeartypeConfParamException
        try: BeartypeConf(is_debug=1); first='accepted'
        except BeartypeConfParamException: first='rejected'
        BeartypeConf(is_debug=True)
        try: BeartypeConf(is_debug=1); second='accepted'
        except BeartypeConfParamException: second='rejected'
        print(first, second)
    """, '.')
    ok12a = _say('F12a', out.endswith('rejected accepted'),
                 f'BeartypeConf(is_debug=1): before/after BeartypeConf(is_debug=True) = {out}')
    c = BeartypeConf()
    c2 = BeartypeConf(**c.kwargs)
    ok12b = _say('F12b', c2 is not c, f'BeartypeConf(**conf.kwargs) is conf -> {c2 is c}; == -> {c2 == c}')
    return ok9 and ok12a and ok12b


def F13():
    out = _run("""
        from beartype.door import TypeHint
        from beartype._util.cache.utilcacheclear import clear_caches
        import gc
        J = [type('J0', (), {})]
        for k in range(1, 400): J.append(type(f'J{k}', (J[-1],), {}))
        U = [type(f'U{k}', (), {}) for k in range(60)]
        TypeHint(J[0]).is_subhint(TypeHint(J[1])); clear_caches(); gc.collect()
        ws = [TypeHint(u) for u in U]
        for x in ws:
            for y in ws:
                if x is not y: assert x.is_subhint(y) is False
        old = {id(w) for w in ws}
        del ws, x, y
        clear_caches(); gc.collect()
        keep, landed = [], []
        for k, cls in enumerate(J):
            w = TypeHint(cls); keep.append(w)
            if id(w) in old: landed.append((k, w))
            if len(landed) == 2: break
        if len(landed) == 2:
            (k1, w1), (k2, w2) = landed
            sub, sup = (w1, w2) if k1 > k2 else (w2, w1)
            print(issubclass(sub.hint, sup.hint), sub.is_subhint(sup))
        else:
            print('no-reuse')
    """, '.')
    return _say('F13', out.endswith('True False'),
                f'(issubclass truth, is_subhint answer after id reuse) = {out}')


def F14():
    from typing import Any, List, Literal
    from beartype.door import TypeHint, is_subhint
    a, b = TypeHint(List[int]), TypeHint(list[int])
    ok_a = _say('F14a', a == b and hash(a) != hash(b),
                f'TypeHint(List[int]) == TypeHint(list[int]) -> {a == b}, equal hashes -> {hash(a) == hash(b)}')
    ok_b = _say('F14b', is_subhint(int, Any) and is_subhint(Any, str) and not is_subhint(int, str),
                'int <= Any, Any <= str, but not int <= str')
    t = TypeHint(Literal[1, 2])
    ok_c = _say('F14c', len(t) == 0 and len(t.args) == 2,
                f'TypeHint(Literal[1, 2]): len={len(t)}, list={list(t)}, args={t.args}')
    from typing import Callable, TypeVar
    tv, tc = TypeHint(TypeVar('T', int, str)), TypeHint(Callable[[], int])
    ok_c = _say('F14c', len(tv) != len(tv.args) and len(tc) != len(tc.args),
                f'TypeVar: len={len(tv)} args={tv.args}; Callable: len={len(tc)} args={tc.args}') and ok_c
    return ok_a and ok_b and ok_c


def F15():
    import warnings
    from beartype.door import infer_hint, is_bearable
    with warnings.catch_warnings():
        warnings.simplefilter('ignore')
        l = []
        l.append(l)
        r1 = is_bearable(l, infer_hint(l))
    v = {'a': 1}.items()
    h = infer_hint(v)
    r2 = is_bearable(v, h)
    ok_a = _say('F15a', r1 is False, f'self-referential list: is_bearable(l, infer_hint(l)) -> {r1}')
    ok_b = _say('F15b', r2 is False, f'dict_items: infer_hint -> {h}; round trip -> {r2}')
    return ok_a and ok_b


# ---------------------------------------------------------------- multi-process
def F4():
    root = tempfile.mkdtemp(prefix='bt_triage_')
    try:
        _pkg(root, 'wq', m3="""
            d: dict = {}
            d['k']: int = 'not an int'
        """)
        out = _run("""
            from beartype.claw import beartype_package
            beartype_package('wq')
            try:
                from wq import m3; print('imported')
            except Exception as e: print('raised', type(e).__name__)
        """, root)
        return _say('F4', out.endswith('imported'), f"hooked module with `d['k']: int = 'not an int'` -> {out}")
    finally:
        shutil.rmtree(root, ignore_errors=True)


def F16():
    root = tempfile.mkdtemp(prefix='bt_triage_')
    try:
        _pkg(root, 'wq', m4="""
            _ = 'user value'
            type A = list[Undefined695] | int
            after = _
            names = sorted(n for n in globals() if not n.startswith('__'))
        """)
        prog = """
            import sys
            if sys.argv[1] == 'hook':
                from beartype.claw import beartype_package
                beartype_package('wq')
            from wq import m4
            print(repr(m4.after)[:24], m4.names)
        """
        plain = _run(prog, root, 'nohook')
        hooked = _run(prog, root, 'hook')
        ok = plain.startswith("'user value'") and not hooked.startswith("'user value'") and 'Undefined695' in hooked
        return _say('F16', ok, f'unhooked: {plain} | hooked: {hooked}')
    finally:
        shutil.rmtree(root, ignore_errors=True)


def F11():
    root = tempfile.mkdtemp(prefix='bt_triage_')
    try:
        _pkg(root, 'wq', m2="y: int = 'not an int'\n")
        prog = """
            import sys
            from beartype import BeartypeConf
            from beartype.claw import beartype_package
            beartype_package('wq', conf=BeartypeConf(claw_is_pep526=(sys.argv[1] == 'on')))
            try:
                from wq import m2; print('ok')
            except Exception as e: print('raised')
        """
        pyc = os.path.join(root, '_pyc')
        on1 = _run(prog, root, 'on', pyc=pyc)
        off2 = _run(prog, root, 'off', pyc=pyc)     # stale: still raises
        shutil.rmtree(pyc, ignore_errors=True)
        off1 = _run(prog, root, 'off', pyc=pyc)
        on2 = _run(prog, root, 'on', pyc=pyc)       # stale: no longer raises
        ok = (on1, off2, off1, on2) == ('raised', 'raised', 'ok', 'ok')
        return _say('F11', ok, f'on,off (shared cache) = {on1},{off2}; off,on (shared cache) = {off1},{on2}')
    finally:
        shutil.rmtree(root, ignore_errors=True)


def F10():
    root = tempfile.mkdtemp(prefix='bt_triage_')
    try:
        _pkg(root, 'wq', m="def f(x: float) -> float:\n    return x\n")
        _pkg(root, 'wother', mod="def g(x: int) -> int:\n    return x\n")
        race = """
            import threading, os
            from beartype.claw import beartype_package
            from beartype.claw._ast.clawastmain import BeartypeNodeTransformer
            beartype_package('wq')                      # wother is NOT hooked
            inside, go = threading.Event(), threading.Event()
            orig = BeartypeNodeTransformer.visit
            def gated(self, node):                      # schedule control only
                if self._module_name == 'wq.m' and not inside.is_set():
                    inside.set(); go.wait(10)
                return orig(self, node)
            BeartypeNodeTransformer.visit = gated
            def A():
                import wq.m
            def B():
                inside.wait(10)
                import wother.mod                       # unhooked import during A's patched region
                go.set()
            ta, tb = threading.Thread(target=A), threading.Thread(target=B)
            ta.start(); tb.start(); ta.join(); tb.join()
            import sys
            print(sorted(f for d, _, fs in os.walk(sys.pycache_prefix) for f in fs if f.startswith('mod.')))
        """
        pyc = os.path.join(root, '_pyc')
        files = _run(race, root, pyc=pyc)
        later = _run("""
            from beartype.claw import beartype_package
            beartype_package('wother')
            from wother import mod
            try: mod.g('x'); print('unchecked')
            except Exception: print('checked')
        """, root, pyc=pyc)
        ok = 'opt-beartype' in files and later.endswith('unchecked')
        return _say('F10', ok, f'unhooked bytecode landed in {files}; later hooked run of wother -> {later}')
    finally:
        shutil.rmtree(root, ignore_errors=True)


ALL = {
    'F1': F1, 'F2': F2, 'F3': F3, 'F4': F4, 'F5': F5_F6, 'F6': F5_F6, 'F7': F7,
    'F7b': F7b, 'F8': F8, 'F17': F17, 'F19': F19,
    'F9': F9_F12, 'F10': F10, 'F11': F11, 'F12a': F9_F12, 'F12b': F9_F12,
    'F13': F13, 'F16': F16, 'F14a': F14, 'F14b': F14, 'F14c': F14, 'F15a': F15, 'F15b': F15,
}

if __name__ == '__main__':
    want = sys.argv[1:] or list(ALL)
    done, bad = set(), 0
    for fid in want:
        fn = ALL[fid]
        if fn in done:
            continue
        done.add(fn)
        try:
            if not fn():
                bad += 1
        except Exception as e:  # a witness that crashes is simply "not reproduced"
            bad += 1
            print(f'{fid} not reproduced: witness crashed with {type(e).__name__}: {e}')
    sys.exit(1 if bad else 0)
