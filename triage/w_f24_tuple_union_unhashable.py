"""Witness for F24 (C11.R13) — not a check.  Run with PYTHONPATH=<tree>.

A PEP-noncompliant tuple union with an unhashable member is handed, unvalidated, to typing.Union.__getitem__, whose
TypeError ("unhashable type: 'list'") leaves the public API on every route.  Exit 1 if a non-beartype exception escapes.
"""
import sys

from beartype import beartype
from beartype.door import die_if_unbearable, is_bearable
from beartype.roar import BeartypeException

bad = 0


def probe(label, thunk):
    global bad
    try:
        thunk()
        print(f'{label}: no exception')
    except BeartypeException as ex:
        print(f'{label}: {type(ex).__name__} (beartype)')
    except Exception as ex:  # noqa: BLE001
        bad += 1
        print(f'{label}: LEAK {type(ex).__module__}.{type(ex).__name__}: {ex}')


for hint in ((int, [1]), ([1],), (int, {})):
    probe(f'is_bearable(0, {hint!r})', lambda: is_bearable(0, hint))
    probe(f'die_if_unbearable(0, {hint!r})', lambda: die_if_unbearable(0, hint))

    def decorate():
        @beartype
        def f(x: hint):
            return x
        return f(0)
    probe(f'@beartype def f(x: {hint!r})', decorate)
sys.exit(1 if bad else 0)
