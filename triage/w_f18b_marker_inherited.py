import functools
from beartype import beartype

@beartype
def f(a: int) -> int:
    return a
print({k: v for k, v in f.__dict__.items() if 'beartype' in k})

@functools.wraps(f)
def g(s: str) -> str:
    return s
g.__annotations__ = {'s': str, 'return': str}
del g.__wrapped__
print('g inherits:', {k: v for k, v in g.__dict__.items() if 'beartype' in k})
bg = beartype(g)
print('beartype(g) is g:', bg is g)
try:
    print('bg(5) =', bg(5), ' <- s: str unchecked')
except Exception as e:
    print(type(e).__name__, str(e)[:100])
