#!/bin/bash
# usage: tools/snapshot_run.sh quick|thorough [logfile]
# Runs every claimed check from a frozen copy of the *committed* /verif (so that editing /verif meanwhile cannot
# disturb the run) against /repo's working tree; the copy is removed afterwards.
T="${1:-quick}"; LOG="${2:-/tmp/snapshot_$T.log}"
S=$(mktemp -d /tmp/verif_snap_XXXX)
git -C /verif archive HEAD | tar -x -C "$S"
chmod +x "$S/check" "$S/tools/"*.sh 2>/dev/null
( cd "$S" && sed -i "s#cd /verif#cd $S#" tools/run_all.sh && tools/run_all.sh "$T" ) > "$LOG" 2>&1
echo "snapshot run finished rc=$?" >> "$LOG"
rm -rf "$S"
