#!/venv/bin/python
"""Regenerates /verif/MANIFEST.json from the table below (kept valid at all times)."""
import json, os, sys
HERE = os.path.dirname(os.path.dirname(os.path.abspath(__file__)))

# property -> (technique, level text, level note, design ref)
GEN_NOTE = "Trusted: CPython ast/compile front-end; the analyser's abstract interpreter (sa/fold.py) and the abstract transfer functions that stand in for beartype's hint-introspection helpers (table in sa/gen.py); the reference semantics of each production and the container-family table (sa/spec.py), which are specification, not repository text. Enumeration is bounded (every production in every slot of every production, depth 2 quick / depth 3 sampled thorough; 2 configurations). Semantics of user metaclasses / validators raising are out of scope."

CLAIMED = {
 'C01': ('abstract interpretation of the code generator (finite domain of hint shapes) + term rewriting of generated code + comparison with reference semantics (acceptance direction, truth-table implication fallback) + definite-assignment analysis of assignment expressions + guard (non-emptiness) dominance',
         'For every enumerated abstract hint shape (all productions nested in all slots, depth 2; depth 3 sampled in the thorough tier) x {is_random} the code beartype would generate is obtained by interpreting make_check_expr over abstract hints, rewritten to a variable-free term and compared with the reference semantics of the hint: the generated test accepts at least what the reference accepts, every item read is guarded, every pith variable is bound where read, templates and call sites agree, validator code is hygienic for every category of pith expression it receives, and the ignorable fast path exists on all three entry routes. Necessary conditions of C01, decided for all hints of the enumerated shapes and, by compositionality of the generator, for their nestings.',
         GEN_NOTE + ' Defects F1, F2 (validator hygiene) found by C01.R2 were repaired in /repo (fix: dd6e4a7); the rule stays armed.', 'DESIGN.md §4 C01'),
 'C02': ('abstract interpretation of the code generator + term comparison with reference semantics (detection direction) + scope/draw consistency + fail-closed table of ignorable-sentinel producers (path-condition fingerprints)',
         'For every enumerated shape the generated term equals the reference term exactly (prescribed item strategy: random index modulo the length of the same container under is_random, first item otherwise; every fixed-tuple position and the length test; all literals by ==; isinstance-and-issubclass; metahint and every validator conjoined) or implies it; the random draw is in scope exactly when used and is drawn once; an ignorable child elides only the child test; every producer of the ignorable sentinel is one of 14 reviewed producers; every container sign of the sign universe receives the item strategy of its family; the memo key of the generated expression contains the configuration.',
         GEN_NOTE + ' Assumes R % n over 32 bits reaches every residue for n <= 2**32. C02.R4 is deliberately fail-closed for new producers.', 'DESIGN.md §4 C02'),
 'C03': ('exhaustive evaluation of both dispatchers over the folded sign universe (167 cases) by abstract interpretation + symbolic interpretation of the re-sampling functions and of the container cause finders on operation-logging objects + abstract interpretation of get_hint_object_violation (class selection, culprits, message, desynchronisation), of the Annotated cause finder and of the validator diagnoses with scripted validators + ast queries on generated wrappers under each warn-flag combination + raise-site attribution through private helpers',
         'Generator and explanation path are two implementations of the hint semantics: for every sign x subscription the production the generator emits and the cause finder find_cause selects are paired as the specification table requires; both sides share one logic object per container family; each logic class re-samples exactly the item expression its template tested; the violation class and the raise-vs-warn handler are selected by the same pith kind; the OO API delegates; private desynchronisation raise sites are the 9 reviewed ones; operations the explanation path applies to the checked object are licensed by the guards of the generated code. User validators are called by the explanation exactly as the generated check calls them, and the diagnosis of an operand the check short-circuits away cannot raise (F21 repaired in /repo, fix: 25c60d4).',
         GEN_NOTE + ' Agreement inside a paired handler for every object (user __instancecheck__, validators raising) is not decided.', 'DESIGN.md §4 C03'),
 'C04': ('abstract interpretation of the wrapper generator (generate_code, code_check_args/return, iter_func_args, make_func_signature) over abstract callables + syntax-tree queries on the generated wrapper source',
         'For 326 abstract callables (12 signatures covering all five parameter kinds x annotation patterns x return kinds x callable kinds) the wrapper source beartype would generate is obtained by interpretation and inspected: each parameter kind is localised from the right source with the true index / name, unpassed parameters are not checked, the keywordable set is exact, there is exactly one call-through f(*args, **kwargs) outside any try, args/kwargs are never modified, parameter checks precede and the return check follows the call, and the returned name is the call result; a functools.wraps wrapper is checked against the wrapped signature exactly when it declares no named parameter (32 wrapper-signature shapes).',
         'Trusted: as for C01, plus the abstract code object (co_argcount, co_posonlyargcount, co_kwonlyargcount, co_flags, co_varnames) standing in for CPython code objects. CPython\'s own binding errors are not modelled.', 'DESIGN.md §4 C04'),
 'C08': ('abstract interpretation of BeartypeCallDecorFuncData.reinit + generate_code for the callable kinds (incl. wraps-adapters and kind-neutral code flags) + syntactic kind classification + a protocol evaluator for the generated async-yield-from code explored against caller x inner-generator scripts (sa/agenproto.py) + abstract interpretation of the return-hint reducer and the root sanifier',
         'For every callable kind x return kind the generated wrapper is syntactically the same kind of callable and passes the compiler front-end; the awaited value / generator object is what is bound, checked and returned or delegated to; the hand-written async yield-from satisfies the PEP 380 forwarding obligations (asend iff a value was sent, athrow for thrown exceptions, aclose + re-raise on GeneratorExit before BaseException, StopAsyncIteration caught only around forwarding awaits, latest inner value yielded). The forwarding code is compared with PEP 380 transposed to asynchronous generators on every caller script x inner script up to 4 (thorough: 5) operations; Coroutine[Y, S, R] returns reduce to R, generators accept only hints they can return, and the return reducer runs after string annotations are resolved.',
         'Trusted: as for C04; the PEP 380/525 obligation table in rules/c08.py is specification. Trace equivalence with the undecorated object for all operation sequences is not decided.', 'DESIGN.md §4 C08'),
 'C09': ('effect-vocabulary analysis of all generated terms + structural guard check of the quasi-iterable production + abstract interpretation of every container cause finder on an operation-logging abstract object under the O1 strategy + who-may-read of the strategy options',
         'Every operation generated code applies to (parts of) the checked object is in the O(1) vocabulary, generated code is a single expression without loops / comprehensions / membership tests / aggregates, non-collections are never iterated, every loop of the explanation path over the object is one-element under O1 (or bounded by the hint), and only sampling code reads conf.strategy / conf.is_random. By induction over the hint tree the items read are bounded by the container levels of the hint.',
         GEN_NOTE + ' Cost of user __len__/__getitem__/isinstance hooks and of repr is not bounded.', 'DESIGN.md §4 C09'),
 'C10': ('effect-vocabulary analysis of generated terms + exhaustive sign-universe dispatch against a specification table of re-iterable / one-shot families + sign-set cross-check + guard dominance in the explanation path',
         'Generated code never stores through, mutates or consumes the object (next() only on a fresh iter()); items are touched only for signs whose family in the specification table is a re-iterable container and never for one-shot / non-container signs, exhaustively over all signs x subscription; mapping values are read through a key obtained from the mapping itself; the explanation path enumerates only Collections; arguments reach the callable untouched (C04.R3).',
         GEN_NOTE, 'DESIGN.md §4 C10'),
 'C12': ('abstract interpretation of the vale factories and operators + translation of is_valid lambdas/defs to terms (sibling agreement) + probe-category hygiene of {obj} + scope-closure check',
         'For every factory (Is, IsAttr, IsEqual, IsInstance, IsSubclass), operator (&, |, ~) and nesting in the catalogue, the is_valid callable and the is_valid_code string denote the same term; every scope name used by a code string is bound; the code stays correct for each syntactic category of pith expression the generator was observed to pass; the Annotated production is metahint AND every validator and the explanation path consults every validator.',
         GEN_NOTE + ' Defects F1, F2 found by C12.R3 were repaired in /repo (fix: dd6e4a7); the rule stays armed.', 'DESIGN.md §4 C12'),
 'C17': ('ast table cross-check (key/kwargs/slots/properties/validators) + must-pass-through dataflow + interprocedural mutation summary + lock-region check',
         'Necessary structural conditions of the property are decided on every run from the source: the option tables of BeartypeConf agree pairwise, every return of __new__ is dominated by validation, the memo key and the read-back kwargs are in one normal form, the first hashing of raw options is guarded, and the memo table is only touched inside one critical section. Behaviour beyond these conditions (e.g. the environment-variable override) is not decided.',
         'Trusted: CPython ast; name-based call resolution (unresolved callees fail closed); the recognised idioms listed in DESIGN-tables T6. Known findings F9, F12a, F12b are genuine defects recorded in known_findings.json.',
         'DESIGN.md §4 C17'),
}

AST_NOTE = "Trusted: CPython ast; name-based resolution of imports and calls (first-class callables are unresolved callees and fail closed where a rule quantifies over every caller); the recognised idioms of DESIGN-tables T6; the reasoned tables held in the rule module (one line of reason per entry). Necessary conditions only: behaviour over all histories / schedules is constrained, not proved."
CLAIMED.update({
 'C05': ('visitor return-shape analysis + mutation whitelist + may-dataflow typestate (constructed -> located) + abstract interpretation of visit_Module, visit_AnnAssign, the decorator-placement dispatch, the node factories of utilastmake, get_code and the route selection over exhaustive abstract domains (module bodies, target kinds x options x scopes, node kinds x positions x decorator lists, loader states) + reachability of original sub-expressions from injected statements',
         'The import-hook transformer only adds: every visit_* returns the visited node once plus fresh nodes, original nodes are only mutated by decorator insertion and the star-import slice, generated statements bind reserved names; all definition kinds are visited and recursed; every constructed node is located before it escapes; the star import goes after the docstring/__future__ prefix; annotated assignments get a check for every target kind (exhaustive 3x2x2x2); hook-time decoration failures are warnings; decorator placement is total and inserts exactly once on every path; the configuration a module is transformed with is the one its injected code looks up at run time. Decorators go where the option for that kind of definition says (async def included); node factories copy positions only onto nodes they create; no compound original sub-expression is evaluated a second time by the injected statement (known finding F22).',
         AST_NOTE + ' Known findings F4, F16.', 'DESIGN.md §4 C05'),
 'C06': ('lock-region analysis over a resolved call graph + abstract interpretation of get_package_conf_or_none, hook_packages and is_packages_trie over abstract registry shapes (whitelist chains, configurations per node, blacklist positions, prior exclusions x ordered skip lists) + may-dataflow (store before raise) with path enumeration of sibling callees + interprocedural write-set vs restore-set + value-provenance of the restore condition modulo the normaliser',
         'Registry and path-hook state are only touched under claw_lock (lexically or in every caller); blacklist dominates whitelist and the deepest registered prefix wins; no registry store precedes a conflict raise on any path; beartyping() restores every field it (transitively) writes and compares with the value it stored; path-hook add/remove are idempotent and paired with cache invalidation; registration descends to the node of the full dotted name; the registry-emptiness test sees registrations at every depth (abstract registry shapes); only the registration module stores configurations.',
         AST_NOTE + ' Known findings F6, F7; F5 repaired in /repo (fix: dc3e6e4).', 'DESIGN.md §4 C06'),
 'C11': ('raise-site typing over the resolved class hierarchy (327 sites) + exception_cls default/argument flow + sibling check of make_func routes + family layering + guard dominance of first-hash sites + wrapper try-body facts',
         'Every raise in the package is a BeartypeException subclass, a re-raise, a forwarded exception_cls parameter or one of 14 reviewed protocol-mandated builtin raises; exception_cls defaults and arguments are beartype classes; both routes into make_func pass a public class; each sub-package raises only its own family; the placeholder re-raise keeps the object; the first hash of raw user input in entry functions is guarded; generated wrappers never put the call-through in a try.',
         AST_NOTE + ' Implicit exceptions from arbitrary hint objects are out of scope. Known finding F9; F8 repaired in /repo (fix: 804fb18).', 'DESIGN.md §4 C11'),
 'C13': ('abstract interpretation (the analyser\'s own interpreter) of beartype_type over abstract classes, of the builtin-descriptor decorators over abstract classmethod/staticmethod/property objects, of beartype_object\'s route selection and of the type-attribute cache accessors over abstract classes + no-op branch analysis of beartype_func + writer/reader agreement of the function marker + marker-ownership scan',
         'beartype_type returns the class it was given, decorates exactly the beartypeable own members (cls.__dict__; classes only when lexically nested) with the extended class stack and the same configuration, replaces them on the class itself, marks the class under the key its idempotence guard reads and leaves an already marked class untouched; what set_type_attr_cached stores is what get_type_attr_cached_or_sentinel reads back, per class; every no-op condition of beartype_func returns the callable itself; classmethod/staticmethod/property are rebuilt as what they were around the decorated versions of their own parts (absent parts stay absent, docstring kept); wrappers carry the metadata of the decorated callable; members of a class take the same fatal/non-fatal route as module-level callables.',
         AST_NOTE + ' Known finding F18b; F20 repaired in /repo (fix: 19e5c58).', 'DESIGN.md §4 C13'),
 'C14': ('discovery of module-level tables written at run time + clear-list membership + key-derivation classification (lossy / id) + key-completeness of the explicit memo tables + call-graph effect summaries (impure reads under exception-memoising decorators) + must-dataflow typestate of pooled objects + positional-call scan',
         'Every run-time memo table is cleared by clear_caches or reasoned exempt; no memo key stands in lossily (repr / id without retention) for the memoised object; every parameter of the explicitly memoised computations is in the key or tracked by the cacheability flag that guards the store; functions whose exceptions are memoised do not depend on the environment; pooled scratch objects are released on every path and never escape; memoised functions are only called positionally.',
         AST_NOTE + ' Known findings F3, F13.', 'DESIGN.md §4 C14'),
 'C15': ('lockset consistency per shared table + critical-section analysis of singleton creation and cache classes (lock / state slots found by role) + pooled-object typestate + lock-order graph from with-nesting and callee lock summaries (cycle detection) + foreign-global patch scan with dataflow-recognised restores',
         'State accessed under a lock anywhere is accessed under it everywhere; lock-free tables only see atomic operations or reviewed benign check-then-act; singleton lookup/construct/store share one critical section; pooled objects follow acquired->released->dead; the lock order graph is acyclic; no process-global of a foreign module is patched from concurrently callable code.',
         AST_NOTE + ' "For all interleavings" is only constrained through these lock-set conditions; single dict operations are assumed atomic under the GIL. Known finding F10.', 'DESIGN.md §4 C15'),
 'C16': ('foreign-global patch scan + who-reads analysis of configuration options in the transformer vs inputs of the cache-path marker + abstract interpretation of get_code (try/finally and context managers modelled) over exclusion x registration x loader outcome + abstract interpretation of the beartype cache-path function as the import machinery calls it',
         'The cache-path patch is restored in finally on every exit and un-hooked paths run outside it; the marker is non-empty, version-bound and appended to the interpreter tag; every option that changes the transformed code must be an input of the marker; the patch itself is a process-global monkey-patch.',
         AST_NOTE + ' CPython\'s source-staleness check for .pyc files is trusted. Known findings F10, F11.', 'DESIGN.md §4 C16'),
 'C18': ('reducer-order check (reducer tuple and overrides reader found by role) + provenance of every child handed to the generator / explanation path + call-graph reachability of reduce_hint + who-may-read of the tower and violation options + abstract interpretation of the tower merge over override states',
         'User overrides are consulted first on every reduction iteration; every child hint comes from a sanifying producer that reaches reduce_hint; is_pep484_tower is data folded into hint_overrides under beartype/_conf only (float->float|int, complex->complex|float|int); the violation options are read only by the reporting layer.',
         AST_NOTE + ' Semantic equality with the hand-rewritten hint is not decided.', 'DESIGN.md §4 C18'),
 'C19': ('field-read analysis of the container protocol methods + contradiction rule on __eq__/__hash__ + short-circuit analysis of is_subhint + cache-call shape + sibling cross-check of subclass overrides',
         'len/iter/index/bool/contains/args of TypeHint are views of one tuple; __eq__ and __hash__ must use one key; no hint may be unconditionally both least and greatest; TypeHint(h) goes through the locked cache keyed by h with an unhashable fallback; subclasses overriding the wrapped children keep them in step with args. ',
         AST_NOTE + ' Known findings F14a, F14b, F14c.', 'DESIGN.md §4 C19'),
 'C20': ('dependence analysis of infer_hint returns + sibling deviance among state-machine nodes + seen-set threading of recursive calls + factory/sign table agreement incl. arity + abstract interpretation of the item inferer over abstract collections x strategies',
         'A result that does not depend on the object must accept everything; protocol nodes of the inference state machine yield abstract factories; the recursion guard comes first and every recursive call passes the extended seen-set; every builtin factory has a supported sign. The round trip for all objects is NOT decided. Under the On strategy the item hint is the union of the hints of every item (every key and value; every position of a short root tuple).',
         AST_NOTE + ' Known finding F15a; F15b repaired in /repo (fix: 4291237).', 'DESIGN.md §4 C20'),
})

# rules added after the first build (second round of seeded changes / neutral refactorings): appended to technique / level text
EXTRA = {
 'C01': (' + abstract interpretation of the union production on crafted unions',
         ' Union members: a user generic is deep-checked, no member is dropped or duplicated; the repr()-keyed coercion cache is never consulted for hints containing type variables; the names excluded from the **kwargs check are exactly the keywordable parameters.'),
 'C02': (' + abstract interpretation of the union production and of the child getter of the subclass production',
         ' type[T] tests issubclass against T itself for every kind of T (only an ignorable T elides the test); union members as for C01.'),
 'C04': (' + code-object kind classification + abstract interpretation of the standard-library wrapper decorators',
         ' The wrapper is the same kind of callable as the decorated one, decided from its own code object; functools.lru_cache and the other re-created standard wrappers keep their arguments (maxsize x typed).'),
 'C09': (' + guard-occurrence tracking of item reads in the term evaluator',
         ' No item read is evaluated at two places under one occurrence of its container\'s type test (at most one item per container node reached).'),
 'C10': (' + abstract interpretation of the container cause finders on non-collections + taint-following who-may-call analysis of beartype\'s own __instancecheck__ hooks',
         ' The explanation of a rejection does not iterate non-collections either; the __instancecheck__ hooks beartype itself defines (IO pseudo-protocols, caching protocol, forward-reference proxies) and the functions they hand the object to only read type, identity and attributes.'),
 'C11': (' + licensed-operation analysis of the explanation path + handler analysis around evaluation of user text and user callables + imported agreement obligations of C03 + sibling agreement of exception handlers around user metaclass probes + identity-only analysis of the raw annotation',
         ' User text is evaluated only inside a broad handler; user validator callables keep their exceptions; the agreement obligations of C03 hold (a disagreement would surface as a private underscore class); tester and raiser of the isinstance/issubclass probes catch the same classes, everything; before validation the raw annotation is only compared by identity (no rich comparison, truth test or display membership).'),
 'C12': (' + abstract interpretation of the Annotated cause finder with scripted validators',
         ' Nested Annotated shapes are conjunctions too; the explanation calls the user\'s validators exactly as the check does.'),
 'C14': (' + store-before-raise analysis of memo owners + repr-de-duplication scan with positive examples + ownership check of attributes stored on caller-supplied functions',
         ' A failure is not remembered (no memo store before a later raise on the same path); lazily evaluated user text counts as environment; the repr()-keyed coercion cache is never consulted for hints with type variables; nothing is de-duplicated by repr(); pooled objects are not used after hand-back inside the pool.'),
 'C15': (' + one-snapshot-per-operation analysis of registry reads',
         ' Between two suspension points an operation reads each registry field once under the lock; pooled objects are not touched after they were handed back.'),
 'C16': (' + abstract interpretation of the file finder\'s loader details and of the hooked source_to_code',
         ' get_code is called once, patches only while a hooked module compiles and restores the library\'s own function also under overlapping imports; the file finder keeps CPython\'s loader order and replaces only the source loader; the hooked source_to_code transforms under the module\'s configuration and lets transformer failures out.'),
 'C17': (' + call-graph fallibility analysis after publication + hash/equality agreement of the frozen dictionary + abstract interpretation of the tower merge',
         ' Publication into the memo table is the last fallible step; the memo key is lossless; the frozen-dictionary key component hashes order-insensitively like it compares; a tower / override conflict is rejected in every combination.'),
 'C18': (' + abstract interpretation of reduce_hint with a scripted second reducer + abstract interpretation of get_hint_object_violation',
         ' Overrides compose with other reducers at every depth; the explanation sanifies the root hint under the configuration the check ran under.'),
 'C19': (' + soundness obligation of every _is_subhint_branch override (guards normalised) + reasoned table of the arguments-ignorable flag + sign-dominance of _is_equal overrides + abstract interpretation of the base branch test and of the union wrapper\'s subhint test over abstract wrappers',
         ' Every _is_subhint_branch override establishes origin compatibility before it can hold (F23 repaired in /repo, fix: 8d67614); the base test holds exactly under origin compatibility and (ignorable arguments or same class, same arity, all children subhints); the union test is sound against the leaf expansion and reflexive also with union-like members (bounded type variables). Transitivity and soundness beyond these obligations are NOT decided.'),
 'C20': (' + construction and walk of the protocol state machine by abstract interpretation + repr-de-duplication scan',
         ' The protocol state machine, built and walked by interpretation, reaches the most specific node whose attributes are ALL present; nothing is de-duplicated by repr().'),
}

CLAIMED['C07'] = ('raise-site / exception_cls typing against the forward-reference exception family (found by role) + abstract interpretation (the analyser\'s own interpreter, scripted resolvers and frames) of the forward-reference proxy\'s resolution property, of the proxy\'s resolver, of the scope maker and of the scope\'s __missing__ + ordering / handler analysis of the routes that can be handed a string',
         'PARTIAL: the equality of verdicts between the string and the evaluated spelling of a program is NOT decided (it depends on frames, module tables and definition order at run time). Decided are structural clauses of the property, each a necessary condition: an unresolvable name can only surface as a forward-reference exception of beartype.roar; a failed resolution is not remembered and a successful one is (usable once defined, without re-decoration); the proxy resolves a name to the module attribute, else to the local of the still-running enclosing callable, else raises; a string is evaluated in a scope with Python\'s precedence (class body, enclosing locals, globals, builtins), built once per decorated callable, with the classes being decorated visible by name; an undefined name yields a stored proxy instead of failing the decoration; every route resolves a string before anything else looks at the hint and converts whatever the evaluation raises; a check against a proxy answers what isinstance / is_bearable answer for the referent and the very object.',
         AST_NOTE + ' The scripted resolvers, frames and expected outcomes are specification written from the property text.', 'DESIGN.md §4 C07, §5')

# third round
EXTRA2 = {'C03': ('', ' Each raise-or-warn flag is derived from the option of its own kind; the memo tables of is_bearable and die_if_unbearable are two distinct dictionaries.'), 'C05': (' + compiler-flag check of the hooked parse', ' The hooked module is parsed with PyCF_ONLY_AST and no other compiler flag.'), 'C08': ('', ' Generators annotated by the weaker iterator protocols get the same bidirectional wrapper (the protocol evaluator also runs `async for`).'), 'C09': ('', ' The explanation reads at most one item also when the wrapper made no random draw.'), 'C10': (' + name agreement of the sign-detection tables', ' The sign-detection tables map each module.Name prefix to the sign of the same name (reviewed aliases excepted).'), 'C11': (' + reviewed table of hint-keyed lookups (fail-closed)', ' Raw annotations reach the subscription factories of the typing module only inside a handler for TypeError (F24, F25 repaired in /repo, fix: 3ce2b04, a599b3a); dictionary lookups keyed by a hint in the conversion pipeline are guarded against unhashable hints or hashable by dispatch; beartype.door never hashes raw hint arguments unguarded.'), 'C12': (' + identity of the factory argument in the generated scope', ' The operand of a leaf validator is the argument as written (IsEqual[(3,)] compares with the tuple; classes are reached through the scope, never by a bare builtin name).'), 'C13': ('', ' The class-decoration domain includes class stacks two deep and the O0 strategy; the class is marked as decorated only after every member was decorated and replaced.'), 'C14': (' + alias scan of memo tables + hash/equality agreement of key classes', ' No memo table is an alias of another; reducers that resolve through the current call build uncacheable metadata; the __eq__ of a class with a stored hash compares every hashed component.'), 'C15': (' + publish-once analysis of lazily computed shared attributes', ' A lazily computed shared attribute is published by one plain assignment; a class is marked decorated last.'), 'C16': (' + abstract interpretation of is_python_optimized', " The interpreter's own optimisation state comes before the environment variable; the hooked parse uses PyCF_ONLY_AST only."), 'C17': ('', ' The singleton table is a plain unbounded dictionary; option values are validated by type, never by == / in.'), 'C18': ('', ' Each raise-or-warn flag is derived from the option of its own kind.'), 'C19': ('', ' A class that defines __eq__ defines __hash__.')}

NOT_YET = {}
NOT_APPLICABLE = {}      # C07 was listed here until its structural clauses were split off and claimed (DESIGN.md §5)

def main():
    props = [json.loads(l)['id'] for l in open(os.path.join(HERE, 'properties.jsonl'))]
    checks = []
    for pid in props:
        if pid in CLAIMED:
            tech, text, note, ref = CLAIMED[pid]
            if pid in EXTRA:
                tech, text = tech + EXTRA[pid][0], text + EXTRA[pid][1]
            if pid in EXTRA2:
                tech, text = tech + EXTRA2[pid][0], text + EXTRA2[pid][1]
            checks.append({
                'property_id': pid,
                'quick_cmd': f'./check {pid} --tier quick',
                'thorough_cmd': f'./check {pid} --tier thorough',
                'evidence_file': f'/verif/evidence/{pid}.json',
                'replay_cmd_template': f'./check {pid} --replay {{path}}',
                'engine': 'sa',
                'level_claimed': {'category': 'other', 'text': text, 'design_ref': ref},
                'level_note': note,
                'technique': 'static analysis: ' + tech,
            })
    na = []
    for pid in props:
        if pid in CLAIMED:
            continue
        if pid in NOT_APPLICABLE:
            na.append({'property_id': pid, 'reason': NOT_APPLICABLE[pid]})
        else:
            na.append({'property_id': pid, 'reason': NOT_YET.get(pid, 'check not built yet in this round (designed in DESIGN.md §4; will be claimed once its rules run clean on the unchanged tree)')})
    man = {
        'version': 1,
        'setup_cmd': '/venv/bin/python -c "import ast, json, sys; assert sys.version_info >= (3, 12)" && chmod +x /verif/check',
        'hooks': {
            'guard': 'BEARTYPE_VERIF',
            'enable': 'none needed: the checks read the source of /repo and never build or run it; no instrumentation was added to /repo',
            'baseline_off_cmd': 'cd /repo && /venv/bin/python -m pytest -ra -q -p no:cacheprovider --timeout=900 --continue-on-collection-errors',
            'source_commits': [],
            'add_only': True,
        },
        'engines': [{'name': 'sa', 'path': '/verif/sa', 'serves_properties': sorted(CLAIMED),
                     'kind_free_text': 'repository-specific static analysis over the ast of the working tree: folding of templates and dispatch tables, abstract interpretation of the code generators / validator factories / small predicates over finite domains of abstract hints, callables, AST nodes and registry shapes (the analyser\'s own interpreter; beartype is never imported or executed), term rewriting of generated code with definite-assignment analysis and comparison against reference semantics, structured path (must/may) dataflow, name-resolved call graph with effect summaries; pure stdlib'}],
        'checks': checks,
        'not_applicable': na,
        'notes': 'Every check: exit 0 = all obligations discharged (known findings printed as KNOWN-FINDING lines), exit 1 = VIOLATION line with a replay file, exit 2 = ANALYSIS-ERROR (anchor vanished / idiom not recognised / instance floor not met). See DESIGN.md.',
    }
    with open(os.path.join(HERE, 'MANIFEST.json'), 'w') as fh:
        json.dump(man, fh, indent=1)
    try:
        import jsonschema
        jsonschema.validate(man, json.load(open('/root/.vp/MANIFEST.schema.json')))
        print('MANIFEST.json valid;', len(checks), 'checks,', len(na), 'not_applicable')
    except ImportError:
        print('written (jsonschema unavailable)')

if __name__ == '__main__':
    main()
