#!/venv/bin/python
"""Regenerates /verif/MANIFEST.json from the table below (kept valid at all times)."""
import json, os, sys
HERE = os.path.dirname(os.path.dirname(os.path.abspath(__file__)))

# property -> (technique, level text, level note, design ref)
CLAIMED = {
 'C17': ('ast table cross-check (key/kwargs/slots/properties/validators) + must-pass-through dataflow + interprocedural mutation summary + lock-region check',
         'Necessary structural conditions of the property are decided on every run from the source: the option tables of BeartypeConf agree pairwise, every return of __new__ is dominated by validation, the memo key and the read-back kwargs are in one normal form, the first hashing of raw options is guarded, and the memo table is only touched inside one critical section. Behaviour beyond these conditions (e.g. the environment-variable override) is not decided.',
         'Trusted: CPython ast; name-based call resolution (unresolved callees fail closed); the recognised idioms listed in DESIGN-tables T6. Known findings F9, F12a, F12b are genuine defects recorded in known_findings.json.',
         'DESIGN.md §4 C17'),
}
NOT_YET = {}
NOT_APPLICABLE = {
 'C07': 'what a string / postponed annotation denotes is the result of eval against scopes assembled at run time from module globals, class stacks and live frames, and "usable once defined" quantifies over later states of those namespaces; no sound static argument in reach bounds either (DESIGN.md §5). Nearby shape facts are decided under C11 and C14.',
}

def main():
    props = [json.loads(l)['id'] for l in open(os.path.join(HERE, 'properties.jsonl'))]
    checks = []
    for pid in props:
        if pid in CLAIMED:
            tech, text, note, ref = CLAIMED[pid]
            checks.append({
                'property_id': pid,
                'quick_cmd': f'./check {pid} --tier quick',
                'thorough_cmd': f'./check {pid} --tier thorough',
                'evidence_file': f'/verif/evidence/{pid}.json',
                'replay_cmd_template': f'./check {pid} --replay {{path}}',
                'engine': 'sa',
                'level_claimed': {'category': 'other', 'text': text, 'design_ref': ref},
                'level_note': note,
                'technique': 'static analysis: ' + tech,
            })
    na = []
    for pid in props:
        if pid in CLAIMED:
            continue
        if pid in NOT_APPLICABLE:
            na.append({'property_id': pid, 'reason': NOT_APPLICABLE[pid]})
        else:
            na.append({'property_id': pid, 'reason': NOT_YET.get(pid, 'check not built yet in this round (designed in DESIGN.md §4; will be claimed once its rules run clean on the unchanged tree)')})
    man = {
        'version': 1,
        'setup_cmd': '/venv/bin/python -c "import ast, json, sys; assert sys.version_info >= (3, 12)" && chmod +x /verif/check',
        'hooks': {
            'guard': 'BEARTYPE_VERIF',
            'enable': 'none needed: the checks read the source of /repo and never build or run it; no instrumentation was added to /repo',
            'baseline_off_cmd': 'cd /repo && /venv/bin/python -m pytest -ra -q -p no:cacheprovider --timeout=900 --continue-on-collection-errors',
            'source_commits': [],
            'add_only': True,
        },
        'engines': [{'name': 'sa', 'path': '/verif/sa', 'serves_properties': sorted(CLAIMED),
                     'kind_free_text': 'repository-specific static analysis over the ast of the working tree: constant folding of templates and dispatch tables, string-shape analysis of the code generators, structured path (must/may) dataflow, name-resolved call graph with effect summaries; pure stdlib, beartype is never imported'}],
        'checks': checks,
        'not_applicable': na,
        'notes': 'Every check: exit 0 = all obligations discharged (known findings printed as KNOWN-FINDING lines), exit 1 = VIOLATION line with a replay file, exit 2 = ANALYSIS-ERROR (anchor vanished / idiom not recognised / instance floor not met). See DESIGN.md.',
    }
    with open(os.path.join(HERE, 'MANIFEST.json'), 'w') as fh:
        json.dump(man, fh, indent=1)
    try:
        import jsonschema
        jsonschema.validate(man, json.load(open('/root/.vp/MANIFEST.schema.json')))
        print('MANIFEST.json valid;', len(checks), 'checks,', len(na), 'not_applicable')
    except ImportError:
        print('written (jsonschema unavailable)')

if __name__ == '__main__':
    main()
