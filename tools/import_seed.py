#!/venv/bin/python
"""Import the seeded changes a sub-agent left in /tmp/seed_out/<PROP>/ into /verif/seeded/.

For each changeN.diff: confirm it in a scratch worktree of /repo (applies; package imports;
the demonstration exits 1 on the changed tree and 0 on the clean tree), run the quick checks
of every claimed property against the changed tree (evidence redirected), and record the
outcome in /verif/seeded/<PROP>-<N>/meta.json.  Nothing is ever written to /repo: the
changed tree is the scratch worktree, which the checks read through --repo.

usage: tools/import_seed.py C06 [--all-checks] [--suite]
"""
from __future__ import annotations

import json
import os
import re
import shutil
import subprocess
import sys

VERIF = os.path.dirname(os.path.dirname(os.path.abspath(__file__)))
PY = '/venv/bin/python'
PROPS = ['C01', 'C02', 'C03', 'C04', 'C05', 'C06', 'C07', 'C08', 'C09', 'C10', 'C11', 'C12', 'C13', 'C14', 'C15', 'C16', 'C17',
         'C18', 'C19', 'C20']


def sh(cmd, **kw):
    return subprocess.run(cmd, shell=isinstance(cmd, str), capture_output=True, text=True, **kw)


def demo(tree, script):
    env = dict(os.environ, PYTHONPATH=tree, PYTHONDONTWRITEBYTECODE='1')
    p = subprocess.run([PY, script], cwd='/tmp', env=env, capture_output=True, text=True, timeout=600)
    return p.returncode, (p.stdout + p.stderr)[-1500:]


def run_check(prop, tree, evdir):
    p = sh([os.path.join(VERIF, 'check'), prop, '--repo', tree, '--evidence-dir', evdir], cwd=VERIF)
    lines = [l for l in p.stdout.splitlines() if re.match(r'(FAILED|VIOLATION|ANALYSIS-ERROR|OK) ', l)]
    rules = sorted({m.group(1) for l in lines for m in [re.match(r'FAILED (\S+) at (\S+) \[(.*?)\]', l)] if m})
    keys = [f'{m.group(1)} [{m.group(3)}]' for l in lines for m in [re.match(r'FAILED (\S+) at (\S+) \[(.*?)\]', l)] if m]
    return p.returncode, rules, keys


def main():
    prop = sys.argv[1]
    all_checks = '--all-checks' in sys.argv
    # round 2: tools/import_seed.py C06 --round 2   reads /tmp/seed_out/R2C06/ and stores C06-11, C06-12, …
    rnd = int(sys.argv[sys.argv.index('--round') + 1]) if '--round' in sys.argv else 1
    src = f'/tmp/seed_out/{prop}' if rnd == 1 else f'/tmp/seed_out/R{rnd}{prop}'
    offset = 0 if rnd == 1 else 10 * (rnd - 1)
    ns = sorted(int(m.group(1)) for f in os.listdir(src) for m in [re.match(r'change(\d+)\.diff$', f)] if m)
    for n in ns:
        dst = os.path.join(VERIF, 'seeded', f'{prop}-{n + offset}')
        os.makedirs(dst, exist_ok=True)
        shutil.copy(f'{src}/change{n}.diff', f'{dst}/patch.diff')
        shutil.copy(f'{src}/demo{n}.py', f'{dst}/demo.py')
        try:
            meta = json.load(open(f'{src}/meta{n}.json'))
        except Exception:
            meta = {}
        wt = f'/tmp/confirm_{prop}_{n + offset}'
        sh(f'git -C /repo worktree remove --force {wt}')
        r = sh(f'git -C /repo worktree add -q --detach {wt} HEAD')
        assert r.returncode == 0, r.stderr
        try:
            r = sh(f'git -C {wt} apply {dst}/patch.diff')
            meta['applies'] = r.returncode == 0
            r = sh([PY, '-c', 'import beartype, beartype.door, beartype.claw, beartype.vale, beartype.bite'], cwd='/tmp',
                   env=dict(os.environ, PYTHONPATH=wt, PYTHONDONTWRITEBYTECODE='1'))
            meta['imports'] = r.returncode == 0
            rc1, out1 = demo(wt, f'{dst}/demo.py')
            rc0, out0 = demo('/repo', f'{dst}/demo.py')
            meta['demo_exit_changed_tree'] = rc1
            meta['demo_exit_clean_tree'] = rc0
            meta['demo_output_changed_tree'] = out1[-600:]
            meta['confirmed'] = bool(meta['applies'] and meta['imports'] and rc1 == 1 and rc0 == 0)
            evdir = f'/tmp/ev_seed_{prop}_{n + offset}'
            res = {}
            for p in (PROPS if all_checks else [prop]):
                rc, rules, keys = run_check(p, wt, evdir)
                if rc != 0:
                    res[p] = {'exit': rc, 'rules': rules, 'findings': keys[:6]}
            shutil.rmtree(evdir, ignore_errors=True)
            meta['property'] = prop
            meta['checks_run'] = PROPS if all_checks else [prop]
            meta['detected_by'] = res
            meta['detected'] = bool(res.get(prop, {}).get('exit') == 1)
            if '--suite' in sys.argv:
                r = sh(['/tmp/seed_out/run_suite.sh', wt])
                meta['suite'] = r.stdout.strip().splitlines()[0] if r.stdout.strip() else 'no output'
        finally:
            sh(f'git -C /repo worktree remove --force {wt}')
        json.dump(meta, open(f'{dst}/meta.json', 'w'), indent=1, ensure_ascii=False)
        print(f'{prop}-{n + offset}: confirmed={meta["confirmed"]} demo(changed)={rc1} demo(clean)={rc0} detected={meta["detected"]} '
              f'by={ {k: v["rules"] for k, v in res.items()} } :: {meta.get("title", "")[:90]}')


if __name__ == '__main__':
    main()
