#!/venv/bin/python
"""Re-run every quick check against every seeded change and every neutral refactoring under seeded/, with the machinery
as *committed* (a frozen copy of HEAD, so that editing /verif meanwhile cannot disturb the run), and refresh the
`detected_by` / `detected` (seeded) and `nonzero` (neutral) fields of their meta.json.

Each change is applied to its own scratch worktree of /repo under /tmp (never to /repo itself); the worktree and the
frozen copy are removed afterwards.  A patch that no longer applies to /repo's HEAD (the tree has since been repaired
where the patch edits) is recorded as `applies_now: false` and keeps its earlier record.

usage: tools/recheck_all.py [--jobs N] [--only seeded|neutral] [ID ...]
"""
from __future__ import annotations

import concurrent.futures as cf
import glob
import json
import os
import re
import shutil
import subprocess
import sys
import tempfile

VERIF = os.path.dirname(os.path.dirname(os.path.abspath(__file__)))
PROPS = ['C01', 'C02', 'C03', 'C04', 'C05', 'C06', 'C07', 'C08', 'C09', 'C10', 'C11', 'C12', 'C13', 'C14', 'C15', 'C16', 'C17',
         'C18', 'C19', 'C20']


def sh(cmd, **kw):
    return subprocess.run(cmd, shell=isinstance(cmd, str), capture_output=True, text=True, **kw)


def one(args):
    snap, d, kind = args
    sid = os.path.basename(d)
    tag = ('N' if kind == 'neutral' else 'S') + sid
    wt = f'/tmp/recheck_{tag}'
    ev = f'/tmp/recheck_ev_{tag}'
    sh(f'git -C /repo worktree remove --force {wt}')
    r = sh(f'git -C /repo worktree add -q --detach {wt} HEAD')
    if r.returncode != 0:
        return sid, kind, None, f'worktree: {r.stderr[:200]}'
    try:
        r = sh(f'git -C {wt} apply {d}/patch.diff')
        if r.returncode != 0:
            return sid, kind, None, 'patch does not apply'
        res = {}
        for p in PROPS:
            q = sh([os.path.join(snap, 'check'), p, '--repo', wt, '--evidence-dir', ev], cwd=snap)
            if q.returncode != 0:
                lines = q.stdout.splitlines()
                ms = [m for l in lines for m in [re.match(r'FAILED (\S+) at (\S+) \[(.*?)\]', l)] if m]
                res[p] = {'exit': q.returncode, 'rules': sorted({m.group(1) for m in ms}),
                          'findings': [f'{m.group(1)} [{m.group(3)}]' for m in ms][:6]}
                if q.returncode == 2:
                    res[p]['error'] = next((l[:300] for l in lines if l.startswith('ANALYSIS-ERROR')), '')
        return sid, kind, res, ''
    finally:
        sh(f'git -C /repo worktree remove --force {wt}')
        shutil.rmtree(ev, ignore_errors=True)


def main():
    argv = sys.argv[1:]
    jobs = int(argv[argv.index('--jobs') + 1]) if '--jobs' in argv else 8
    only = argv[argv.index('--only') + 1] if '--only' in argv else None
    ids = [a for a in argv if re.match(r'N?C\d\d-\d+$', a)]
    snap = tempfile.mkdtemp(prefix='verif_snap_', dir='/tmp')
    subprocess.run(f'git -C {VERIF} archive HEAD | tar -x -C {snap}', shell=True, check=True)
    os.chmod(os.path.join(snap, 'check'), 0o755)
    work = []
    if only in (None, 'seeded'):
        work += [(snap, d, 'seeded') for d in sorted(glob.glob(os.path.join(VERIF, 'seeded', 'C*-*')))]
    if only in (None, 'neutral'):
        work += [(snap, d, 'neutral') for d in sorted(glob.glob(os.path.join(VERIF, 'seeded', 'neutral', 'C*-*')))]
    if ids:
        work = [w for w in work if (('N' if w[2] == 'neutral' else '') + os.path.basename(w[1])) in ids]
    try:
        with cf.ThreadPoolExecutor(jobs) as ex:
            for sid, kind, res, err in ex.map(one, work):
                d = os.path.join(VERIF, 'seeded', *((['neutral'] if kind == 'neutral' else []) + [sid]))
                mp_ = os.path.join(d, 'meta.json')
                meta = json.load(open(mp_))
                if res is None:
                    meta['applies_now'] = False
                    meta['recheck_note'] = err
                    print(f'{kind} {sid}: NOT RE-RUN ({err})')
                else:
                    meta['applies_now'] = True
                    meta.pop('recheck_note', None)
                    if kind == 'seeded':
                        prop = sid.split('-')[0]
                        meta['detected_by'] = res
                        meta['detected'] = bool(res.get(prop, {}).get('exit') == 1)
                        meta['checks_run'] = PROPS
                        print(f'seeded {sid}: detected={meta["detected"]} by={ {k: v["rules"] or v["exit"] for k, v in res.items()} }')
                    else:
                        meta['nonzero'] = res
                        print(f'neutral {sid}: {"silent" if not res else {k: (v["exit"], v["rules"]) for k, v in res.items()} }')
                json.dump(meta, open(mp_, 'w'), indent=1, ensure_ascii=False)
                sys.stdout.flush()
    finally:
        shutil.rmtree(snap, ignore_errors=True)


if __name__ == '__main__':
    main()
