#!/venv/bin/python
"""Import behaviour-preserving refactorings a sub-agent left in /tmp/seed_out/N<PROP>/ into
/verif/seeded/neutral/<PROP>-<n>/ and run EVERY quick check against each (scratch worktree, --repo).
Expected: every check exits 0.  exit 1 = false alarm of the machinery, exit 2 = unrecognised idiom.

usage: tools/import_neutral.py C06 [--round 2]
"""
import json, os, re, shutil, subprocess, sys
VERIF = os.path.dirname(os.path.dirname(os.path.abspath(__file__)))
PROPS = [c['property_id'] for c in json.load(open(os.path.join(VERIF, 'MANIFEST.json')))['checks']]


def sh(cmd, **kw):
    return subprocess.run(cmd, shell=isinstance(cmd, str), capture_output=True, text=True, **kw)


def main():
    prop = sys.argv[1]
    # round 2: tools/import_neutral.py C06 --round 2   reads /tmp/seed_out/N2C06/ and stores C06-11, C06-12, …
    rnd = int(sys.argv[sys.argv.index('--round') + 1]) if '--round' in sys.argv else 1
    src = f'/tmp/seed_out/N{prop}' if rnd == 1 else f'/tmp/seed_out/N{rnd}{prop}'
    offset = 0 if rnd == 1 else 10 * (rnd - 1)
    ns = sorted(int(m.group(1)) for f in os.listdir(src) for m in [re.match(r'change(\d+)\.diff$', f)] if m)
    for n0 in ns:
        n = n0 + offset
        dst = os.path.join(VERIF, 'seeded', 'neutral', f'{prop}-{n}')
        os.makedirs(dst, exist_ok=True)
        shutil.copy(f'{src}/change{n0}.diff', f'{dst}/patch.diff')
        try:
            meta = json.load(open(f'{src}/meta{n0}.json'))
        except Exception:
            meta = {}
        wt = f'/tmp/confirm_N{prop}_{n}'
        sh(f'git -C /repo worktree remove --force {wt}')
        r = sh(f'git -C /repo worktree add -q --detach {wt} HEAD')
        assert r.returncode == 0, r.stderr
        try:
            r = sh(f'git -C {wt} apply {dst}/patch.diff')
            meta['applies'] = r.returncode == 0
            r = sh(['/venv/bin/python', '-c', 'import beartype, beartype.door, beartype.claw, beartype.vale, beartype.bite'], cwd='/tmp',
                   env=dict(os.environ, PYTHONPATH=wt, PYTHONDONTWRITEBYTECODE='1'))
            meta['imports'] = r.returncode == 0
            res = {}
            evdir = f'/tmp/ev_neut_{prop}_{n}'
            for p in PROPS:
                pr = sh([os.path.join(VERIF, 'check'), p, '--repo', wt, '--evidence-dir', evdir], cwd=VERIF)
                if pr.returncode != 0:
                    lines = [l for l in pr.stdout.splitlines() if re.match(r'(FAILED|ANALYSIS-ERROR) ', l)]
                    res[p] = {'exit': pr.returncode, 'lines': [l[:400] for l in lines[:4]]}
            shutil.rmtree(evdir, ignore_errors=True)
            meta['property'] = prop
            meta['nonzero'] = res
            meta['silent'] = not res
        finally:
            sh(f'git -C /repo worktree remove --force {wt}')
        json.dump(meta, open(f'{dst}/meta.json', 'w'), indent=1, ensure_ascii=False)
        print(f'N{prop}-{n}: applies={meta["applies"]} imports={meta["imports"]} silent={meta["silent"]} '
              f'{ {k: v["exit"] for k, v in res.items()} } :: {meta.get("kind", "")}: {meta.get("title", "")[:90]}')
        for k, v in res.items():
            for l in v['lines'][:2]:
                print('      ', k, l[:300])


if __name__ == '__main__':
    main()
