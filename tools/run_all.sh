#!/bin/bash
# usage: tools/run_all.sh quick|thorough   -- runs every claimed check on /repo's working tree
T="${1:-quick}"
cd /verif
rc=0
for p in $(/venv/bin/python -c "import json;print(' '.join(c['property_id'] for c in json.load(open('MANIFEST.json'))['checks']))"); do
  s=$(date +%s)
  out=$(./check "$p" --tier "$T" 2>&1); r=$?
  echo "$out" | grep -E "^(OK|VIOLATION|ANALYSIS-ERROR|FAILED|KNOWN-FINDING|  self-test)" | cut -c1-220
  echo "== $p exit=$r $(( $(date +%s) - s ))s"
  [ $r -ne 0 ] && rc=1
done
exit $rc
