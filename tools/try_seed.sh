#!/bin/bash
# usage: tools/try_seed.sh <diff> <prop> [<prop> ...]
# Applies a seeded change to /repo's working tree, runs the quick checks of the listed
# properties (evidence redirected to a scratch directory), and restores the tree.
D="$1"; shift
cd /repo || exit 2
git diff --quiet || { echo "/repo working tree is not clean"; exit 2; }
git apply "$D" || { echo "patch does not apply"; exit 2; }
trap 'git -C /repo checkout -- . ; rm -rf /tmp/ev_seed' EXIT
cd /verif
for p in "$@"; do
  ./check "$p" --evidence-dir /tmp/ev_seed 2>&1 | grep -E "^FAILED|^VIOLATION|^OK|^ANALYSIS-ERROR" | cut -c1-330
done
