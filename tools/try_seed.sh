#!/bin/bash
# usage: tools/try_seed.sh <diff> <prop> [<prop> ...]
# Applies a seeded change to a scratch worktree of /repo (never to /repo itself), runs the quick
# checks of the listed properties against it (evidence redirected), and removes the worktree.
D="$(readlink -f "$1")"; shift
W=$(mktemp -d /tmp/tryseed_XXXX); rmdir "$W"
git -C /repo worktree add -q --detach "$W" HEAD || exit 2
trap 'git -C /repo worktree remove --force "$W"; rm -rf /tmp/ev_seed_$$' EXIT
git -C "$W" apply "$D" || { echo "patch does not apply"; exit 2; }
cd /verif
for p in "$@"; do
  ./check "$p" --repo "$W" --evidence-dir /tmp/ev_seed_$$ 2>&1 | grep -E "^FAILED|^VIOLATION|^OK|^ANALYSIS-ERROR" | cut -c1-330
done
