"""Small AST helpers shared by the rule modules."""
from __future__ import annotations

import ast

from .flow import walk_shallow


def dotted(e: ast.AST) -> str | None:
    """``a.b.c`` for Name/Attribute chains, else None."""
    parts = []
    while isinstance(e, ast.Attribute):
        parts.append(e.attr)
        e = e.value
    if isinstance(e, ast.Name):
        parts.append(e.id)
        return '.'.join(reversed(parts))
    return None


def const_str(e: ast.AST) -> str | None:
    if isinstance(e, ast.Constant) and isinstance(e.value, str):
        return e.value
    return None


def str_subscripts(node: ast.AST, base: str):
    """``base['literal']`` subscripts inside ``node`` → [(literal, Subscript node)]."""
    out = []
    for n in ast.walk(node):
        if isinstance(n, ast.Subscript) and dotted(n.value) == base:
            s = const_str(n.slice)
            if s is not None:
                out.append((s, n))
    return out


def assigns_to(fn: ast.AST, target: str):
    """Assignments (Assign / AnnAssign / AugAssign / NamedExpr) whose target is the
    dotted name ``target`` inside ``fn`` (not descending into nested defs)."""
    out = []
    for n in walk_shallow(fn):
        if isinstance(n, ast.Assign):
            for t in n.targets:
                for tt in _flatten_targets(t):
                    if dotted(tt) == target:
                        out.append(n)
        elif isinstance(n, (ast.AnnAssign, ast.AugAssign)):
            if dotted(n.target) == target and getattr(n, 'value', None) is not None:
                out.append(n)
        elif isinstance(n, ast.NamedExpr):
            if dotted(n.target) == target:
                out.append(n)
    return out


def _flatten_targets(t):
    if isinstance(t, (ast.Tuple, ast.List)):
        for e in t.elts:
            yield from _flatten_targets(e)
    else:
        yield t


def names_loaded(node: ast.AST) -> set[str]:
    return {n.id for n in ast.walk(node) if isinstance(n, ast.Name) and isinstance(n.ctx, ast.Load)}


def names_stored(node: ast.AST) -> set[str]:
    return {n.id for n in ast.walk(node) if isinstance(n, ast.Name) and isinstance(n.ctx, (ast.Store, ast.Del))}


def params_of(fn) -> list[str]:
    a = fn.args
    out = [p.arg for p in a.posonlyargs + a.args]
    if a.vararg:
        out.append(a.vararg.arg)
    out += [p.arg for p in a.kwonlyargs]
    if a.kwarg:
        out.append(a.kwarg.arg)
    return out


def kwonly_defaults(fn) -> dict[str, ast.AST | None]:
    return {p.arg: d for p, d in zip(fn.args.kwonlyargs, fn.args.kw_defaults)}


def methods_of(cls: ast.ClassDef) -> dict[str, ast.AST]:
    return {n.name: n for n in cls.body if isinstance(n, (ast.FunctionDef, ast.AsyncFunctionDef))}


def decorator_names(fn) -> list[str]:
    out = []
    for d in fn.decorator_list:
        if isinstance(d, ast.Call):
            d = d.func
        out.append(dotted(d) or ast.unparse(d))
    return out


def returns_of(fn):
    return [n for n in walk_shallow(fn) if isinstance(n, ast.Return)]


def is_none(e: ast.AST | None) -> bool:
    return e is None or (isinstance(e, ast.Constant) and e.value is None)


def enclosing_stmt(node: ast.AST) -> ast.AST:
    from .repo import parent
    n = node
    while n is not None and not isinstance(n, ast.stmt):
        n = parent(n)
    return n


def ancestors(node: ast.AST):
    from .repo import parent
    p = parent(node)
    while p is not None:
        yield p
        p = parent(p)


def inside_with(node: ast.AST, lock_pred) -> bool:
    """Whether ``node`` is lexically inside ``with <lock>:`` for which ``lock_pred(expr)``."""
    for a in ancestors(node):
        if isinstance(a, (ast.With, ast.AsyncWith)):
            if any(lock_pred(it.context_expr) for it in a.items):
                return True
        if isinstance(a, (ast.FunctionDef, ast.AsyncFunctionDef, ast.Lambda)):
            return False
    return False


def inside_try_catching(node: ast.AST, exc_names: set[str], stop=None) -> bool:
    """Whether ``node`` is in the *body* of a ``try`` that has a handler for one of
    ``exc_names`` (or a bare / ``Exception`` / ``BaseException`` handler)."""
    from .repo import parent
    child = node
    p = parent(node)
    while p is not None and p is not stop:
        if isinstance(p, ast.Try) and any(child is s or _contains(s, child) for s in p.body):
            for h in p.handlers:
                if h.type is None:
                    return True
                tn = [dotted(t) for t in (h.type.elts if isinstance(h.type, ast.Tuple) else [h.type])]
                if any((t or '').split('.')[-1] in exc_names | {'Exception', 'BaseException'} for t in tn):
                    return True
        if isinstance(p, (ast.FunctionDef, ast.AsyncFunctionDef, ast.Lambda)):
            return False
        child = p
        p = parent(p)
    return False


def _contains(root: ast.AST, node: ast.AST) -> bool:
    return any(n is node for n in ast.walk(root))


def _norm(e):
    return ast.unparse(e)


def _leaves(body) -> bool:
    return bool(body) and isinstance(body[-1], (ast.Return, ast.Raise, ast.Continue))


def _chain(ifnode):
    """[(test, body)] of an if / elif chain and its final else body (or None)."""
    arms, cur = [], ifnode
    while True:
        arms.append((cur.test, cur.body))
        if len(cur.orelse) == 1 and isinstance(cur.orelse[0], ast.If):
            cur = cur.orelse[0]
            continue
        return arms, (cur.orelse or None)


def path_guards(node, fn):
    """Path condition of ``node``: tests of enclosing if / elif arms (negated for the arms skipped), plus, for every
    earlier sibling if / elif chain all of whose arms leave the function, the negation of each of its tests."""
    out = []
    child, p = node, getattr(node, '_parent', None)
    while p is not None:
        if isinstance(p, ast.If):
            if any(child is s_ for s_ in p.body):
                out.append(_norm(p.test))
            elif any(child is s_ for s_ in p.orelse):
                out.append(f'not ({_norm(p.test)})')
        for fld in ('body', 'orelse', 'finalbody'):
            blk = getattr(p, fld, None)
            if isinstance(blk, list) and any(child is s_ for s_ in blk):
                for s_ in blk:
                    if s_ is child:
                        break
                    if isinstance(s_, ast.If):
                        arms, els = _chain(s_)
                        if all(_leaves(b) for _, b in arms) and els is None:
                            out.extend(f'not ({_norm(t)})' for t, _ in arms)
        if p is fn:
            break
        child, p = p, getattr(p, '_parent', None)
    return out


