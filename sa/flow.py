"""Engine F: syntax-directed path analysis over structured statements.

Python has no ``goto``; every function body is a tree of ``if`` / ``for`` / ``while`` /
``try`` / ``with`` / ``match`` with ``return`` / ``raise`` / ``break`` / ``continue``
exits.  A forward dataflow over that tree with a set-valued state decides the path rules
used here without building an explicit graph:

* ``mode='must'``  the state is the set of *events that happened on every path* reaching
  a point (join = intersection; a loop body may run zero times).  Decides
  must-pass-through and A-before-B ("on every path to this ``return``, X was called").
* ``mode='may'``   the state is the set of events that happened on *some* path (join =
  union; loop bodies are iterated to a fixpoint so loop-carried events are seen).
  Decides "no X before Y on any path" (e.g. no registry store before a ``raise``).

Events are produced by a caller-supplied ``gen(node) -> iterable[str]`` that is applied to
every *simple* statement and to every expression evaluated by a compound statement's
header (``if`` tests, ``for`` iterables, ``with`` items), in evaluation order.
``kill(node)`` optionally removes events.  Exits are reported to ``on_exit(node, kind,
state)`` with kind in {'return', 'raise', 'fallthrough'}.

No path condition is collected or solved: an ``if`` contributes both arms.  The only
refinement is constant tests (``if True`` / ``while True``).
"""
from __future__ import annotations

import ast
from typing import Callable, Iterable

State = frozenset


class Flow:
    def __init__(self, gen: Callable[[ast.AST], Iterable[str]], *, mode: str = 'must',
                 kill: Callable[[ast.AST], Iterable[str]] | None = None,
                 on_exit: Callable[[ast.AST, str, State], None] | None = None,
                 on_stmt: Callable[[ast.AST, State], None] | None = None,
                 raise_from_calls: bool = False):
        assert mode in ('must', 'may')
        self.gen, self.kill, self.mode = gen, kill, mode
        self.on_exit, self.on_stmt = on_exit, on_stmt
        self.raise_from_calls = raise_from_calls

    # -- lattice --------------------------------------------------------
    def join(self, states: list[State | None]) -> State | None:
        live = [s for s in states if s is not None]
        if not live:
            return None
        out = live[0]
        for s in live[1:]:
            out = (out & s) if self.mode == 'must' else (out | s)
        return out

    def apply(self, node: ast.AST, s: State) -> State:
        if self.kill:
            k = set(self.kill(node))
            if k:
                s = s - k
        g = set(self.gen(node))
        return s | g if g else s

    # -- driver ---------------------------------------------------------
    def run(self, fn: ast.AST, init: Iterable[str] = ()) -> State | None:
        body = fn.body if not isinstance(fn, list) else fn
        self._loops: list[dict] = []
        out = self.block(body, frozenset(init))
        if out is not None and self.on_exit:
            self.on_exit(fn if not isinstance(fn, list) else None, 'fallthrough', out)
        return out

    def block(self, stmts, s: State | None) -> State | None:
        for st in stmts:
            if s is None:
                return None
            s = self.stmt(st, s)
        return s

    def stmt(self, st: ast.AST, s: State) -> State | None:
        if self.on_stmt:
            self.on_stmt(st, s)
        if isinstance(st, ast.Return):
            if st.value is not None:
                s = self.apply(st.value, s)
            if self.on_exit:
                self.on_exit(st, 'return', s)
            return None
        if isinstance(st, ast.Raise):
            if st.exc is not None:
                s = self.apply(st.exc, s)
            if self._try_stack:
                self._try_stack[-1].append(s)
            if self.on_exit:
                self.on_exit(st, 'raise', s)
            return None
        if isinstance(st, ast.If):
            s = self.apply(st.test, s)
            const = _const_truth(st.test)
            a = self.block(st.body, s) if const is not False else None
            b = self.block(st.orelse, s) if const is not True else None
            return self.join([a, b])
        if isinstance(st, (ast.For, ast.AsyncFor, ast.While)):
            return self.loop(st, s)
        if isinstance(st, (ast.With, ast.AsyncWith)):
            for it in st.items:
                s = self.apply(it.context_expr, s)
            return self.block(st.body, s)
        if isinstance(st, ast.Try) or st.__class__.__name__ == 'TryStar':
            return self.try_(st, s)
        if isinstance(st, ast.Match):
            s = self.apply(st.subject, s)
            outs = [self.block(c.body, s) for c in st.cases]
            exhaustive = any(isinstance(c.pattern, ast.MatchAs) and c.pattern.pattern is None and c.guard is None
                             for c in st.cases)
            if not exhaustive:
                outs.append(s)
            return self.join(outs)
        if isinstance(st, ast.Break):
            if self._loops:
                self._loops[-1]['breaks'].append(s)
            return None
        if isinstance(st, ast.Continue):
            if self._loops:
                self._loops[-1]['continues'].append(s)
            return None
        if isinstance(st, (ast.FunctionDef, ast.AsyncFunctionDef, ast.ClassDef)):
            return s  # nested definitions do not execute their bodies here
        # simple statement
        return self.apply(st, s)

    _try_stack: list = []

    def loop(self, st, s: State) -> State | None:
        head = st.iter if isinstance(st, (ast.For, ast.AsyncFor)) else st.test
        s = self.apply(head, s)
        infinite = isinstance(st, ast.While) and _const_truth(st.test) is True
        self._loops.append({'breaks': [], 'continues': []})
        body_in = s
        body_out = self.block(st.body, body_in)
        if self.mode == 'may':
            # iterate so that events of one iteration are visible at the top of the next
            for _ in range(3):
                rec = self._loops[-1]
                nxt = self.join([body_in, body_out] + rec['continues'])
                if nxt == body_in:
                    break
                body_in = nxt
                rec['continues'] = []
                saved_breaks = rec['breaks']
                rec['breaks'] = []
                body_out = self.block(st.body, body_in)
                rec['breaks'] = saved_breaks + rec['breaks']
        rec = self._loops.pop()
        if self.mode == 'must':
            normal = None if infinite else s          # zero iterations possible
            if not infinite and body_out is not None:
                normal = self.join([s, body_out] + rec['continues'])
        else:
            normal = None if infinite else self.join([body_in, body_out] + rec['continues'])
        if normal is not None and st.orelse:
            normal = self.block(st.orelse, normal)
        return self.join([normal] + rec['breaks'])

    def try_(self, st, s: State) -> State | None:
        self._try_stack = self._try_stack + [[]]
        body_out = self.block(st.body, s)
        raised = self._try_stack[-1]
        self._try_stack = self._try_stack[:-1]
        if body_out is not None and st.orelse:
            body_out = self.block(st.orelse, body_out)
        # state on entry of a handler: anything between "nothing of the body ran" and
        # "all of it ran"
        if self.mode == 'must':
            h_in = s
        else:
            ev = set(s)
            for n in st.body:
                for sub in ast.walk(n):
                    ev |= set(self.gen(sub)) if isinstance(sub, (ast.stmt, ast.expr)) else set()
            h_in = frozenset(ev)
        outs = [body_out]
        for h in st.handlers:
            outs.append(self.block(h.body, h_in))
        out = self.join(outs)
        if st.finalbody:
            if out is not None:
                out = self.block(st.finalbody, out)
            else:
                # still analyse the finally body for its exits / events
                self.block(st.finalbody, h_in)
        return out


def _const_truth(e: ast.AST):
    if isinstance(e, ast.Constant):
        return bool(e.value)
    return None


# ---------------------------------------------------------------------------
def calls_in(node: ast.AST):
    """Call nodes inside ``node`` in (approximate) evaluation order, not descending
    into nested function definitions or lambdas."""
    out = []

    def rec(n, root=False):
        if not root and isinstance(n, (ast.FunctionDef, ast.AsyncFunctionDef, ast.Lambda, ast.ClassDef)):
            return
        for c in ast.iter_child_nodes(n):
            rec(c)
        if isinstance(n, ast.Call):
            out.append(n)
    rec(node, True)
    return out


def call_name(call: ast.Call) -> str:
    f = call.func
    if isinstance(f, ast.Name):
        return f.id
    if isinstance(f, ast.Attribute):
        return f.attr
    return ''


def walk_shallow(node: ast.AST):
    """``ast.walk`` that does not enter nested function / class definitions."""
    stack = [node]
    first = True
    while stack:
        n = stack.pop()
        if not first and isinstance(n, (ast.FunctionDef, ast.AsyncFunctionDef, ast.Lambda, ast.ClassDef)):
            continue
        first = False
        yield n
        stack.extend(reversed(list(ast.iter_child_nodes(n))))


# ---------------------------------------------------------------------------
def enumerate_paths(body, events, max_paths: int = 4000):
    """All acyclic paths through a structured statement list (each loop body is taken zero
    times or once), as ``(list of events, exit kind)`` with exit kind in
    {'return', 'raise', 'fall'}.  ``events(node)`` lists the events of one simple statement
    or header expression.  Raises ``OverflowError`` beyond ``max_paths``."""
    def seq(stmts, prefixes):
        # prefixes: list of (events, status) with status None = still running
        for st in stmts:
            running = [(e, s) for e, s in prefixes if s is None]
            done = [(e, s) for e, s in prefixes if s is not None]
            if not running:
                return prefixes
            new = []
            for e, _ in running:
                new.extend(one(st, e))
            prefixes = done + new
            if len(prefixes) > max_paths:
                raise OverflowError('too many paths')
        return prefixes

    def one(st, e):
        if isinstance(st, ast.Return):
            return [(e + list(events(st)), 'return')]
        if isinstance(st, ast.Raise):
            return [(e + list(events(st)), 'raise')]
        if isinstance(st, ast.Break):
            return [(e, 'break')]
        if isinstance(st, ast.Continue):
            return [(e, 'continue')]
        if isinstance(st, ast.If):
            e2 = e + list(events(st.test))
            c = _const_truth(st.test)
            out = []
            if c is not False:
                out += seq(st.body, [(e2, None)])
            if c is not True:
                out += seq(st.orelse, [(e2, None)])
            return out
        if isinstance(st, (ast.For, ast.AsyncFor, ast.While)):
            head = st.iter if not isinstance(st, ast.While) else st.test
            e2 = e + list(events(head))
            out = []
            if not (isinstance(st, ast.While) and _const_truth(st.test) is True):
                out += seq(st.orelse, [(e2, None)])           # zero iterations
            for ev, s in seq(st.body, [(e2, None)]):          # one iteration
                if s in ('break',):
                    out.append((ev, None))
                elif s in ('continue', None):
                    out += seq(st.orelse, [(ev, None)])
                else:
                    out.append((ev, s))
            return out
        if isinstance(st, (ast.With, ast.AsyncWith)):
            e2 = list(e)
            for it in st.items:
                e2 += list(events(it.context_expr))
            return seq(st.body, [(e2, None)])
        if isinstance(st, ast.Try):
            out = []
            for ev, s in seq(st.body, [(e, None)]):
                if s is None:
                    out += seq(st.orelse, [(ev, None)])
                else:
                    out.append((ev, s))
            for h in st.handlers:
                out += seq(h.body, [(e, None)])
            if st.finalbody:
                fin = []
                for ev, s in out:
                    for ev2, s2 in seq(st.finalbody, [(ev, None)]):
                        fin.append((ev2, s2 if s2 is not None else s))
                out = fin
            return out
        if isinstance(st, (ast.FunctionDef, ast.AsyncFunctionDef, ast.ClassDef)):
            return [(e, None)]
        return [(e + list(events(st)), None)]

    res = seq(body, [([], None)])
    return [(e, s if s is not None else 'fall') for e, s in res]
