"""Static-analysis engines for the beartype verification checks (stdlib only).

Nothing in this package imports or executes ``beartype``: every fact is derived from
the source text of the repository's current working tree with ``ast``.
"""
