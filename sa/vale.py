"""Abstract interpretation of the ``beartype.vale`` validator factories.

Validators are built by interpreting the factories' ``__getitem__`` methods and the
``&`` / ``|`` / ``~`` constructors on abstract operands (opaque objects / types / a callable),
exactly as :mod:`sa.gen` interprets the code generator.  The result objects carry the
``_is_valid_code`` string and ``_is_valid_code_locals`` scope that the Annotated branch
of the generator embeds, plus the ``is_valid`` callable (a lambda / nested ``def`` of the
repository, kept as a function value for the sibling comparison of C12).
"""
from __future__ import annotations

from .fold import ClassVal, FuncVal, _Abort, _ObjVal, _Raise, _call_function
from .gen import ALiteral, AObj, AType, Generator
from .repo import AnalysisError

VALE = 'beartype.vale'
FACTORIES = {
    'Is': ('beartype.vale._is._valeis', '_IsFactory'),
    'IsAttr': ('beartype.vale._is._valeisobj', '_IsAttrFactory'),
    'IsEqual': ('beartype.vale._is._valeisoper', '_IsEqualFactory'),
    'IsInstance': ('beartype.vale._is._valeistype', '_IsInstanceFactory'),
    'IsSubclass': ('beartype.vale._is._valeistype', '_IsSubclassFactory'),
}
OPERATORS = {
    '&': ('beartype.vale._core._valecorebinary', 'BeartypeValidatorConjunction'),
    '|': ('beartype.vale._core._valecorebinary', 'BeartypeValidatorDisjunction'),
    '~': ('beartype.vale._core._valecoreunary', 'BeartypeValidatorNegation'),
}


class ACallable(AObj):
    """A user-supplied validator function (opaque)."""

    def __init__(self, name='user_func'):
        self.name = name

    def __repr__(self):
        return f'<callable {self.name}>'


VALTRACE: list = []     # (validator label, leaf factories, obj string) of every ``code.format`` call


class TracedStr(str):
    """Validator code string that records the ``obj`` it is formatted with — which is how
    the analysis learns what syntactic category of pith expression each validator receives
    from the generator, without re-deriving the generator's logic."""

    def __new__(cls, text, label, leaves):
        s = super().__new__(cls, text)
        s.label, s.leaves = label, tuple(sorted(leaves))
        return s

    def format(self, *args, **kwargs):
        if 'obj' in kwargs:
            VALTRACE.append((self.label, self.leaves, kwargs['obj']))
        return str.format(self, *args, **kwargs)


def pith_category(obj: str) -> str:
    if obj.isidentifier():
        return 'IDENT'
    if ':=' in obj:
        return 'WALRUS'
    return 'ATOM'


class Vale:
    def __init__(self, gen: Generator):
        self.G = gen
        F = gen.f
        F.interpret_classes |= {
            'beartype.vale._core._valecore.BeartypeValidator',
            'beartype.vale._core._valecorebinary.BeartypeValidatorConjunction',
            'beartype.vale._core._valecorebinary.BeartypeValidatorDisjunction',
            'beartype.vale._core._valecoreunary.BeartypeValidatorNegation',
        } | {f'{m}.{c}' for m, c in FACTORIES.values()}
        none = lambda e, a, k: None
        F.stubs.update({
            'beartype.vale._util._valeutilfunc.die_unless_validator_tester': none,
            'beartype._util.cls.pep.clspep3119.die_unless_object_isinstanceable': none,
            'beartype._util.cls.pep.clspep3119.die_unless_type_isinstanceable': none,
            'beartype._util.cls.pep.clspep3119.die_unless_object_issubclassable': none,
            'beartype._util.cls.pep.clspep3119.die_unless_type_issubclassable': none,
            'beartype._util.kind.maplike.utilmaptest.die_if_mappings_two_items_collide': none,
            'beartype._util.utilobjget.get_object_name': lambda e, a, k: 'T',
            'beartype._util.text.utiltextrepr.represent_func': lambda e, a, k: '<func>',
            'beartype._util.func.arg.utilfuncargtest.is_func_argless': lambda e, a, k: True,
        })
        self.factories = {}
        for name, (mod, cls) in FACTORIES.items():
            c = F.const(mod, cls)
            if not isinstance(c, ClassVal):
                raise AnalysisError(f'anchor vanished: {mod}.{cls}')
            self.factories[name] = self._new(c, basename=name)
        self.op_classes = {}
        for sym, (mod, cls) in OPERATORS.items():
            c = F.const(mod, cls)
            if not isinstance(c, ClassVal):
                raise AnalysisError(f'anchor vanished: {mod}.{cls}')
            self.op_classes[sym] = c

    def _new(self, cls: ClassVal, *args, **kwargs):
        F = self.G.f
        try:
            from .fold import _Env
            env = _Env(F, F.repo.mod(cls.module), F.module_env(cls.module), {}, 1)
            return env.apply(cls, list(args), dict(kwargs))
        except (_Abort, _Raise) as ex:
            raise AnalysisError(f'cannot interpret construction of {cls.qual}: {ex}')

    def make(self, factory: str, arg):
        """``Factory[arg]``"""
        fobj = self.factories[factory]
        getitem = fobj.cls.find('__getitem__')
        if not isinstance(getitem, FuncVal):
            raise AnalysisError(f'anchor vanished: {factory}.__getitem__')
        try:
            v = _call_function(self.G.f, getitem, [fobj, arg], {}, 1)
        except (_Abort, _Raise) as ex:
            raise AnalysisError(f'cannot interpret {factory}[{arg!r}]: {ex}')
        self._check(v, f'{factory}[{arg!r}]')
        v.attrs['label'] = f'{factory}[{getattr(arg, "name", arg)!r}]' if not isinstance(arg, tuple) else \
            f'{factory}[{arg[0]!r}, {arg[1].attrs.get("label")}]'
        # factories whose template receives the *outer* ``{obj}`` directly (IsAttr hands its
        # operand a fresh identifier, so the operand's factory is not among them)
        self._seal(v, {factory})
        return v

    @staticmethod
    def _seal(v, leaves):
        v.attrs['leaves'] = tuple(sorted(leaves))
        v.attrs['_is_valid_code'] = TracedStr(str(v.attrs['_is_valid_code']), v.attrs['label'], leaves)

    def op(self, sym: str, *operands):
        v = self._new(self.op_classes[sym], *operands)
        self._check(v, sym)
        v.attrs['label'] = (f'~{operands[0].attrs.get("label")}' if sym == '~' else
                            f'({operands[0].attrs.get("label")} {sym} {operands[1].attrs.get("label")})')
        leaves = set()
        for o in operands:
            leaves |= set(o.attrs.get('leaves', ()))
        self._seal(v, leaves)
        return v

    @staticmethod
    def _check(v, what):
        if not (isinstance(v, _ObjVal) and isinstance(v.attrs.get('_is_valid_code'), str)
                and isinstance(v.attrs.get('_is_valid_code_locals'), dict)):
            raise AnalysisError(f'{what}: interpretation did not yield a validator with code and scope: {v!r}')

    # convenience -----------------------------------------------------------
    def catalogue(self) -> dict:
        """Representative validators of every factory and operator (depth ≤ 2)."""
        lit, lit2 = ALiteral('five'), ALiteral('six')
        T = AType('V')
        base = {
            'IsEqual': self.make('IsEqual', lit),
            'IsInstance': self.make('IsInstance', T),
            'IsSubclass': self.make('IsSubclass', T),
            'Is': self.make('Is', ACallable()),
        }
        base['IsAttr(IsEqual)'] = self.make('IsAttr', ('real', self.make('IsEqual', lit2)))
        base['IsAttr(IsInstance)'] = self.make('IsAttr', ('real', self.make('IsInstance', T)))
        base['IsAttr(IsAttr)'] = self.make('IsAttr', ('real', self.make('IsAttr', ('imag', self.make('IsEqual', lit2)))))
        # the same attribute at two nesting levels with a sibling read after the nested validator (the outer
        # temporary must survive the inner one)
        base['IsAttr(IsAttr-same&IsInstance)'] = self.make('IsAttr', ('real', self.op(
            '&', self.make('IsAttr', ('real', self.make('IsEqual', lit2))), self.make('IsInstance', T))))
        out = dict(base)
        out['IsEqual&IsInstance'] = self.op('&', self.make('IsEqual', lit), self.make('IsInstance', T))
        out['IsEqual|Is'] = self.op('|', self.make('IsEqual', lit), self.make('Is', ACallable('g')))
        out['~IsEqual'] = self.op('~', self.make('IsEqual', lit))
        out['~(IsInstance&IsAttr)'] = self.op('~', self.op('&', self.make('IsInstance', T),
                                                        self.make('IsAttr', ('real', self.make('IsEqual', lit2)))))
        out['IsAttr(IsEqual|IsInstance)'] = self.make('IsAttr', ('real', self.op('|', self.make('IsEqual', lit2),
                                                                                    self.make('IsInstance', T))))
        return out
