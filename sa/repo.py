"""Engine A (part 1): module facts of the repository's current working tree.

Parses every ``*.py`` under ``<root>/beartype`` (pure ``ast``), records per module its
imports (module level and function level), top-level definitions and assignments, and
resolves names to their defining module through import chains.  An optional *overlay*
(``{relative path: source text}``) replaces files in memory; the self-test uses it to
analyse mutated variants without writing a scratch copy to disk.
"""
from __future__ import annotations

import ast
import builtins
import hashlib
import os
from dataclasses import dataclass, field

PKG = 'beartype'
_BUILTINS = frozenset(dir(builtins))


class AnalysisError(Exception):
    """The analysis cannot be carried out (vanished anchor, unrecognised idiom, …).

    Reported as ``ANALYSIS-ERROR`` with exit status 2 — never a pass, never a violation.
    """


@dataclass(frozen=True)
class Ref:
    """What a name resolves to."""
    kind: str            # 'def' | 'class' | 'var' | 'module' | 'external' | 'builtin' | 'unknown'
    module: str | None   # defining module (dotted) for repository symbols / external module name
    name: str | None     # symbol name inside that module (qualname for nested)
    node: ast.AST | None = field(default=None, compare=False, hash=False)

    @property
    def qual(self) -> str:
        if self.module and self.name:
            return f'{self.module}.{self.name}'
        return self.module or self.name or '?'


class Module:
    """One source file.  Parsing and indexing are lazy: a check only pays for the modules
    it actually consults."""

    def __init__(self, name: str, relpath: str, src: str, is_pkg: bool):
        self.name = name
        self.relpath = relpath
        self.src = src
        self.is_pkg = is_pkg
        self._tree = None
        self._lines = None
        self._imports = None
        self._defs = None
        self._assigns = None

    @property
    def raw_tree(self) -> ast.Module:
        """Parsed module without parent links (enough for the constant folder)."""
        if self._tree is None:
            try:
                self._tree = ast.parse(self.src, filename=self.relpath)
            except SyntaxError as ex:  # a variant that does not compile is not analysed
                raise AnalysisError(f'{self.relpath}: does not parse: {ex}') from ex
        return self._tree

    @property
    def tree(self) -> ast.Module:
        """Parsed and indexed module (every node has a ``_parent`` link)."""
        if self._imports is None:
            self._index()
        return self._tree

    @property
    def imports(self) -> dict:
        if self._imports is None:
            self._index()
        return self._imports

    @property
    def defs(self) -> dict:
        if self._defs is None:
            self._index()
        return self._defs

    @property
    def assigns(self) -> dict:
        if self._assigns is None:
            self._index()
        return self._assigns

    # ------------------------------------------------------------------
    def _abs_module(self, node: ast.ImportFrom) -> str | None:
        if node.level == 0:
            return node.module
        base = self.name.split('.')
        if not self.is_pkg:
            base = base[:-1]
        if node.level > 1:
            base = base[:-(node.level - 1)]
        return '.'.join(base + ([node.module] if node.module else []))

    def import_bindings(self, node: ast.AST) -> dict[str, tuple[str, str | None]]:
        """Names bound by one ``import`` / ``from … import`` statement."""
        out: dict[str, tuple[str, str | None]] = {}
        if isinstance(node, ast.ImportFrom):
            m = self._abs_module(node)
            if m is None:
                return out
            for a in node.names:
                if a.name == '*':
                    out['*' + m] = (m, '*')
                else:
                    out[a.asname or a.name] = (m, a.name)
        elif isinstance(node, ast.Import):
            for a in node.names:
                if a.asname:
                    out[a.asname] = (a.name, None)
                else:
                    out[a.name.split('.')[0]] = (a.name.split('.')[0], None)
        return out

    def _index(self) -> None:
        self._imports, self._defs, self._assigns = {}, {}, {}
        for n in ast.walk(self.raw_tree):
            for c in ast.iter_child_nodes(n):
                c._parent = n  # type: ignore[attr-defined]
        self._tree._parent = None  # type: ignore[attr-defined]

        def top(stmts):
            for n in stmts:
                if isinstance(n, (ast.Import, ast.ImportFrom)):
                    self.imports.update(self.import_bindings(n))
                elif isinstance(n, (ast.FunctionDef, ast.AsyncFunctionDef, ast.ClassDef)):
                    self.defs[n.name] = n
                elif isinstance(n, ast.Assign):
                    for t in n.targets:
                        for nm in _target_names(t):
                            self.assigns.setdefault(nm, []).append(n)
                elif isinstance(n, (ast.AnnAssign, ast.AugAssign)):
                    for nm in _target_names(n.target):
                        self.assigns.setdefault(nm, []).append(n)
                elif isinstance(n, (ast.If, ast.Try, ast.With)):
                    for fld in ('body', 'orelse', 'finalbody'):
                        top(getattr(n, fld, []) or [])
                    for h in getattr(n, 'handlers', []) or []:
                        top(h.body)
        top(self._tree.body)

    # ------------------------------------------------------------------
    @property
    def lines(self) -> list[str]:
        if self._lines is None:
            self._lines = self.src.splitlines()
        return self._lines

    def seg(self, node: ast.AST) -> str:
        return ast.get_source_segment(self.src, node) or ''

    def where(self, node: ast.AST | None) -> str:
        return f'{self.relpath}:{getattr(node, "lineno", 0)}'


def _target_names(t: ast.AST):
    if isinstance(t, ast.Name):
        yield t.id
    elif isinstance(t, (ast.Tuple, ast.List)):
        for e in t.elts:
            yield from _target_names(e)
    elif isinstance(t, ast.Starred):
        yield from _target_names(t.value)


def parent(node: ast.AST) -> ast.AST | None:
    return getattr(node, '_parent', None)


def enclosing_function(node: ast.AST):
    p = parent(node)
    while p is not None and not isinstance(p, (ast.FunctionDef, ast.AsyncFunctionDef, ast.Lambda)):
        p = parent(p)
    return p


def enclosing_def_chain(node: ast.AST) -> list[ast.AST]:
    """Enclosing defs / classes from outermost to innermost."""
    chain = []
    p = parent(node)
    while p is not None:
        if isinstance(p, (ast.FunctionDef, ast.AsyncFunctionDef, ast.ClassDef)):
            chain.append(p)
        p = parent(p)
    return chain[::-1]


def qualname_of(node: ast.AST) -> str:
    chain = enclosing_def_chain(node)
    names = [c.name for c in chain]
    if isinstance(node, (ast.FunctionDef, ast.AsyncFunctionDef, ast.ClassDef)):
        names.append(node.name)
    return '.'.join(names)


def norm(node: ast.AST | str) -> str:
    """Normalised text of a construct (used as a finding key): ``ast.unparse`` removes
    comments, layout and quote style; positions are not part of it."""
    if isinstance(node, str):
        return ' '.join(node.split())
    return ' '.join(ast.unparse(node).split())


class Repo:
    def __init__(self, root: str = '/repo', overlay: dict[str, str] | None = None):
        self.root = os.path.abspath(root)
        self.overlay = dict(overlay or {})
        self.modules: dict[str, Module] = {}
        self.by_relpath: dict[str, Module] = {}
        self._load()

    def _load(self) -> None:
        pkgdir = os.path.join(self.root, PKG)
        if not os.path.isdir(pkgdir):
            raise AnalysisError(f'no package directory {pkgdir}')
        for dp, dns, fns in os.walk(pkgdir):
            dns[:] = sorted(d for d in dns if d != '__pycache__')
            for fn in sorted(fns):
                if not fn.endswith('.py'):
                    continue
                path = os.path.join(dp, fn)
                rel = os.path.relpath(path, self.root)
                if rel in self.overlay:
                    src = self.overlay[rel]
                else:
                    with open(path, encoding='utf-8') as fh:
                        src = fh.read()
                name = rel[:-3].replace(os.sep, '.')
                is_pkg = name.endswith('.__init__')
                if is_pkg:
                    name = name[:-9]
                m = Module(name, rel, src, is_pkg)
                self.modules[name] = m
                self.by_relpath[rel] = m
        for rel in self.overlay:
            if rel not in self.by_relpath:
                raise AnalysisError(f'overlay names a file that does not exist: {rel}')

    # ------------------------------------------------------------------
    def digest(self, relpaths=None) -> str:
        h = hashlib.sha256()
        for rel in sorted(relpaths or self.by_relpath):
            h.update(rel.encode())
            h.update(self.by_relpath[rel].src.encode())
        return h.hexdigest()[:16]

    def mod(self, name: str) -> Module:
        m = self.modules.get(name)
        if m is None:
            raise AnalysisError(f'anchor vanished: module {name} not found')
        return m

    def modfile(self, relpath: str) -> Module:
        m = self.by_relpath.get(relpath)
        if m is None:
            raise AnalysisError(f'anchor vanished: file {relpath} not found')
        return m

    def find_def(self, modname: str, qualname: str, *, required: bool = True):
        """Definition node for ``Class.method`` / ``func`` / ``func.inner`` in a module."""
        m = self.mod(modname)
        parts = qualname.split('.')
        node = m.defs.get(parts[0])
        for p in parts[1:]:
            if node is None:
                break
            nxt = None
            for c in ast.walk(node):
                if c is not node and isinstance(c, (ast.FunctionDef, ast.AsyncFunctionDef, ast.ClassDef)) \
                        and c.name == p and _nearest_def(c) is node:
                    nxt = c
            node = nxt
        if node is None and required:
            raise AnalysisError(f'anchor vanished: {modname}.{qualname} not found')
        return node

    def func(self, dotted: str):
        """``beartype.x.y.func`` or ``beartype.x.y.Class.method`` → (Module, node)."""
        parts = dotted.split('.')
        for i in range(len(parts) - 1, 0, -1):
            mn = '.'.join(parts[:i])
            if mn in self.modules:
                return self.modules[mn], self.find_def(mn, '.'.join(parts[i:]))
        raise AnalysisError(f'anchor vanished: {dotted} not found')

    # ------------------------------------------------------------------
    def scope_bindings(self, m: Module, fn: ast.AST) -> dict[str, tuple[str, str | None]]:
        """Import bindings made anywhere inside a function (beartype defers most imports
        into function bodies)."""
        cache = getattr(fn, '_imports', None)
        if cache is None:
            cache = {}
            for n in ast.walk(fn):
                if isinstance(n, (ast.Import, ast.ImportFrom)):
                    cache.update(m.import_bindings(n))
            fn._imports = cache  # type: ignore[attr-defined]
        return cache

    def resolve_global(self, modname: str, name: str, _depth: int = 0) -> Ref:
        """Resolve a module-level name to its definition, following re-exports."""
        if _depth > 25:
            return Ref('unknown', modname, name)
        m = self.modules.get(modname)
        if m is None:
            return Ref('external', modname, name)
        if name in m.defs:
            n = m.defs[name]
            return Ref('class' if isinstance(n, ast.ClassDef) else 'def', modname, name, n)
        if name in m.imports:
            sm, sn = m.imports[name]
            if sn is None:
                return Ref('module', sm, None)
            if sm in self.modules:
                sub = f'{sm}.{sn}'
                if sub in self.modules and sn not in self.modules[sm].defs \
                        and sn not in self.modules[sm].assigns and sn not in self.modules[sm].imports:
                    return Ref('module', sub, None)
                return self.resolve_global(sm, sn, _depth + 1)
            return Ref('external', sm, sn)
        if name in m.assigns:
            # alias of another name?  ``X = Y`` / ``X_format = X.format`` stay 'var'
            return Ref('var', modname, name, m.assigns[name][-1])
        if name in _BUILTINS:
            return Ref('builtin', None, name)
        return Ref('unknown', modname, name)

    def resolve_name(self, m: Module, at: ast.AST, name: str) -> Ref:
        """Resolve ``name`` as seen from the position of node ``at``."""
        chain = enclosing_def_chain(at)
        if isinstance(at, (ast.FunctionDef, ast.AsyncFunctionDef)):
            chain = chain + [at]
        for sc in reversed(chain):
            if isinstance(sc, ast.ClassDef):
                continue
            b = self.scope_bindings(m, sc)
            if name in b:
                sm, sn = b[name]
                if sn is None:
                    return Ref('module', sm, None)
                if sm in self.modules:
                    return self.resolve_global(sm, sn)
                return Ref('external', sm, sn)
            # nested def / local variable / parameter
            for c in ast.walk(sc):
                if c is not sc and isinstance(c, (ast.FunctionDef, ast.AsyncFunctionDef, ast.ClassDef)) \
                        and c.name == name and _nearest_def(c) is sc:
                    return Ref('class' if isinstance(c, ast.ClassDef) else 'def', m.name, qualname_of(c), c)
            if _is_local(sc, name):
                return Ref('local', m.name, name)
        return self.resolve_global(m.name, name)

    def resolve_expr(self, m: Module, e: ast.AST) -> Ref:
        """Resolve a ``Name`` or dotted ``Attribute`` expression."""
        if isinstance(e, ast.Name):
            return self.resolve_name(m, e, e.id)
        if isinstance(e, ast.Attribute):
            base = self.resolve_expr(m, e.value)
            if base.kind == 'module':
                if base.module in self.modules:
                    sub = f'{base.module}.{e.attr}'
                    mm = self.modules[base.module]
                    if e.attr in mm.defs or e.attr in mm.assigns or e.attr in mm.imports:
                        return self.resolve_global(base.module, e.attr)
                    if sub in self.modules:
                        return Ref('module', sub, None)
                    return Ref('unknown', base.module, e.attr)
                return Ref('external', base.module, e.attr)
            if base.kind == 'external':
                return Ref('external', base.module, f'{base.name}.{e.attr}')
            if base.kind == 'class' and isinstance(base.node, ast.ClassDef):
                for c in base.node.body:
                    if isinstance(c, (ast.FunctionDef, ast.AsyncFunctionDef)) and c.name == e.attr:
                        return Ref('def', base.module, f'{base.name}.{e.attr}', c)
                return Ref('classattr', base.module, f'{base.name}.{e.attr}')
            return Ref('attr', None, e.attr)
        return Ref('unknown', None, None)

    # ------------------------------------------------------------------
    def iter_functions(self, prefix: str = PKG):
        for mn, m in self.modules.items():
            if not (mn == prefix or mn.startswith(prefix + '.')):
                continue
            for n in ast.walk(m.tree):
                if isinstance(n, (ast.FunctionDef, ast.AsyncFunctionDef)):
                    yield m, n

    def class_bases(self, modname: str, clsname: str) -> list[Ref]:
        m = self.mod(modname)
        n = m.defs.get(clsname)
        if not isinstance(n, ast.ClassDef):
            return []
        return [self.resolve_expr(m, b) for b in n.bases]

    def is_subclass(self, ref: Ref, target: tuple[str, str], _seen=None) -> bool | None:
        """Whether repository class ``ref`` derives from class ``target``
        (module, name).  ``None`` = cannot tell (external base)."""
        _seen = _seen or set()
        if ref.kind != 'class':
            return None
        if (ref.module, ref.name) == target:
            return True
        if (ref.module, ref.name) in _seen:
            return False
        _seen.add((ref.module, ref.name))
        unknown = False
        for b in self.class_bases(ref.module, ref.name):
            r = self.is_subclass(b, target, _seen)
            if r:
                return True
            if r is None and b.kind not in ('builtin', 'external'):
                unknown = True
        return None if unknown else False


def _nearest_def(node: ast.AST):
    p = parent(node)
    while p is not None and not isinstance(p, (ast.FunctionDef, ast.AsyncFunctionDef, ast.ClassDef)):
        p = parent(p)
    return p


def _is_local(fn: ast.AST, name: str) -> bool:
    cache = getattr(fn, '_locals', None)
    if cache is None:
        cache = set()
        a = fn.args
        for x in a.posonlyargs + a.args + a.kwonlyargs:
            cache.add(x.arg)
        if a.vararg:
            cache.add(a.vararg.arg)
        if a.kwarg:
            cache.add(a.kwarg.arg)
        globs = set()
        for n in ast.walk(fn):
            if isinstance(n, (ast.Global, ast.Nonlocal)):
                globs.update(n.names)
            elif isinstance(n, ast.Name) and isinstance(n.ctx, (ast.Store, ast.Del)):
                if _nearest_def(n) is fn or isinstance(_nearest_def(n), ast.ClassDef) is False and enclosing_function(n) is fn:
                    cache.add(n.id)
            elif isinstance(n, ast.ExceptHandler) and n.name:
                cache.add(n.name)
        cache -= globs
        fn._locals = cache  # type: ignore[attr-defined]
    return name in cache
