"""Parallel, cached sweep of abstract hint shapes through the generator analysis."""
from __future__ import annotations

import hashlib
import json
import multiprocessing as mp
import os
import time

from .gen import AConf, Generator
from .gencheck import GenCheck, repeated_item_reads, vocabulary
from .repo import AnalysisError, Repo
from .shapes import Shapes
from .terms import show
from .vale import VALTRACE, Vale, pith_category

HERE = os.path.dirname(os.path.abspath(__file__))
CACHE_DIR = os.path.join(os.path.dirname(HERE), '.cache')


def _shapes(S: Shapes, tier: str, seed: int):
    if tier == 'selftest':
        return S.mini()
    hs = S.quick()
    if tier == 'thorough':
        hs = hs + S.depth(2)[len(S.leaves()):] + S.sample_depth3(3000, seed)
    return hs


def _summarise(r, trace) -> dict:
    if r.raised is not None:
        status = 'raised'
    elif r.code is None:
        status = 'nocode'
    elif r.parse_error:
        status = 'parse'
    elif r.spec_error:
        status = 'specerr'
    else:
        status = 'ok'
    d = {
        'shape': r.shape, 'root': r.hint.label, 'is_random': bool(r.conf.is_random), 'status': status,
        'raised': str(r.raised) if r.raised is not None else None, 'raised_where': r.raised_where,
        'parse_error': r.parse_error, 'spec_error': r.spec_error,
        'accept_ok': r.accept_ok, 'accept_detail': r.accept_detail,
        'detect_ok': r.detect_ok, 'detect_detail': r.detect_detail,
        'problems': r.problems, 'safety': r.safety, 'unresolved': r.unresolved_names,
        'placeholder_left': r.leftover_placeholder,
        'uses_random': r.uses_random, 'has_getrandbits': r.scope_has_getrandbits,
        'valtrace': [[lab, list(leaves), pith_category(obj), obj] for lab, leaves, obj in trace],
        'vocab': [],
    }
    if r.term is not None:
        # item reads (subscription of / next() on a part of the checked object), counted per syntactic occurrence: the same
        # read evaluated twice is two items read at one nesting level
        n_reads, rep = repeated_item_reads(r)
        d['item_reads'] = n_reads
        d['item_reads_repeated'] = [k for k, _ in rep][:4]
        seen = set()
        for op, operands in vocabulary(r):
            opn = op if isinstance(op, str) else ':'.join(map(str, op))
            key = (opn, tuple(show(o)[:80] for o in operands))
            if key in seen:
                continue
            seen.add(key)
            d['vocab'].append([opn, [show(o)[:120] for o in operands]])
    if status != 'ok' or not (r.accept_ok and r.detect_ok) or r.problems or r.safety or r.unresolved_names:
        d['code'] = (r.code or '')[:1500]
    return d


def _worker(args):
    root, overlay, tier, seed, part, nparts = args
    _t = [time.time()]
    repo = Repo(root, overlay)
    G = Generator(repo)
    V = Vale(G)
    cat = V.catalogue()
    S = Shapes(G, cat)
    GC = GenCheck(G)
    hs = _shapes(S, tier, seed)
    _t.append(time.time())
    out = []
    idx = 0
    t_an = t_su = 0.0
    for is_random in (True, False):
        conf = AConf(is_random=is_random)
        for h in hs:
            idx += 1
            if idx % nparts != part:
                continue
            del VALTRACE[:]
            _a = time.time()
            try:
                r = GC.analyse(h, conf)
            except AnalysisError as ex:
                out.append({'shape': h.shape(), 'root': h.label, 'is_random': is_random,
                            'status': 'analysis-error', 'error': str(ex)})
                continue
            _b = time.time()
            out.append(_summarise(r, list(VALTRACE)))
            t_an += _b - _a
            t_su += time.time() - _b
    if os.environ.get('VERIF_TIMING'):
        import sys
        print(f'worker {part}: setup {_t[1]-_t[0]:.2f}s analyse {t_an:.2f}s summarise {t_su:.2f}s n={len(out)}', file=sys.stderr)
    return out


def _run_workers(repo: Repo, tier: str, seed: int, jobs: int) -> list:
    """Workers are separate interpreter processes (``python -m sa.genrun``): forking a
    parent that already holds 466 parsed modules costs more in copy-on-write page faults
    than re-parsing them, and a plain subprocess needs no ``__main__`` guard discipline."""
    import subprocess
    import sys
    import tempfile
    verif = os.path.dirname(HERE)
    with tempfile.TemporaryDirectory(prefix='verif-sweep-') as td:
        spec = os.path.join(td, 'job.json')
        with open(spec, 'w') as fh:
            json.dump({'root': repo.root, 'overlay': repo.overlay, 'tier': tier, 'seed': seed, 'jobs': jobs}, fh)
        procs = []
        for i in range(jobs):
            outp = os.path.join(td, f'part{i}.json')
            env = dict(os.environ, PYTHONPATH=verif, PYTHONDONTWRITEBYTECODE='1')
            procs.append((subprocess.Popen([sys.executable, '-m', 'sa.genrun', spec, str(i), outp],
                                           cwd=verif, env=env, stdout=subprocess.PIPE, stderr=subprocess.STDOUT),
                          outp))
        parts = []
        for p, outp in procs:
            log = p.communicate()[0].decode(errors='replace')
            if p.returncode != 0 or not os.path.exists(outp):
                raise AnalysisError(f'sweep worker failed (exit {p.returncode}): {log[-600:]}')
            with open(outp) as fh:
                parts.append(json.load(fh))
    return parts


def sweep(repo: Repo, tier: str = 'quick', seed: int = 0, jobs: int | None = None) -> list[dict]:
    """Summaries for every enumerated shape × configuration (cached by source digest)."""
    h = hashlib.sha256()
    h.update(repo.digest().encode())
    for fn in sorted(os.listdir(HERE)):
        if fn.endswith('.py'):
            with open(os.path.join(HERE, fn), 'rb') as fh:
                h.update(fh.read())
    h.update(f'{tier}:{seed}'.encode())
    key = h.hexdigest()[:24]
    path = os.path.join(CACHE_DIR, f'sweep-{key}.json')
    if tier != 'selftest' and os.path.exists(path) and not os.environ.get('VERIF_NO_CACHE'):
        try:
            with open(path) as fh:
                return json.load(fh)
        except Exception:
            pass
    if tier == 'selftest':
        parts = [_worker((repo.root, repo.overlay, tier, seed, 0, 1))]   # in-process: the self-test is parallel already
    else:
        jobs = jobs or min(8, os.cpu_count() or 4)
        parts = _run_workers(repo, tier, seed, jobs)
    out = [d for p in parts for d in p]
    out.sort(key=lambda d: (d['shape'], d['is_random']))
    if tier == 'selftest':
        return out
    try:
        os.makedirs(CACHE_DIR, exist_ok=True)
        tmp = path + f'.{os.getpid()}.tmp'
        with open(tmp, 'w') as fh:
            json.dump(out, fh)
        os.replace(tmp, path)
        # keep the cache small
        files = sorted((os.path.getmtime(os.path.join(CACHE_DIR, f)), f) for f in os.listdir(CACHE_DIR))
        for _, f in files[:-12]:
            os.remove(os.path.join(CACHE_DIR, f))
    except OSError:
        pass
    return out


if __name__ == '__main__':
    import sys
    with open(sys.argv[1]) as _fh:
        _job = json.load(_fh)
    _res = _worker((_job['root'], _job['overlay'], _job['tier'], _job['seed'], int(sys.argv[2]), _job['jobs']))
    with open(sys.argv[3], 'w') as _fh:
        json.dump(_res, _fh)
