"""Protocol interpreter for the hand-written ``async yield from`` of generated async-generator wrappers.

The generated wrapper (an ``ast.AsyncFunctionDef`` obtained by interpreting the wrapper generator of the
repository; nothing of beartype is imported or run) is interpreted by this module's own small evaluator
over *abstract* values: the inner asynchronous generator is a scripted object that logs every operation
performed on it (``anext`` / ``asend(v)`` / ``athrow(e)`` / ``aclose()``) and answers from a script
(yield a token, finish, raise); the caller is a script of operations on the outer generator.  Suspension
at ``yield`` is implemented by writing the evaluator itself as a Python generator.

The reference semantics is PEP 380 transposed to asynchronous generators: every caller operation is
forwarded to the inner generator as the same operation, and whatever the inner generator answers is what
the caller observes.  ``explore()`` enumerates every caller script × inner script up to a bound and
returns the scenarios whose observable trace differs from the reference.
"""
from __future__ import annotations

import ast
import itertools


class ProtoAbort(Exception):
    """The wrapper uses a construct this evaluator does not model (never a verdict)."""


class _PyExc(Exception):
    def __init__(self, token):
        super().__init__(token)
        self.token = token


class _Return(Exception):
    def __init__(self, value=None):
        self.value = value


class _Break(Exception):
    pass


class _Continue(Exception):
    pass


# exception tokens and their ancestry (what an ``except <Name>`` clause catches)
ANCESTRY = {
    'GeneratorExit': ('GeneratorExit', 'BaseException'),
    'StopAsyncIteration': ('StopAsyncIteration', 'Exception', 'BaseException'),
    'UserError': ('UserError', 'Exception', 'BaseException'),
    'InnerError': ('InnerError', 'Exception', 'BaseException'),
    'KeyboardInterrupt': ('KeyboardInterrupt', 'BaseException'),
    'RuntimeError': ('RuntimeError', 'Exception', 'BaseException'),
}


class Unknown:
    def __init__(self, why):
        self.why = why

    def __repr__(self):
        return f'<unknown {self.why}>'


class Inner:
    """The scripted inner asynchronous generator."""

    def __init__(self, script):
        self.script = list(script)
        self.log = []
        self.finished = False

    def op(self, kind, arg=None):
        if kind == 'asend' and arg is None:
            kind = 'anext'                       # asend(None) is anext
        self.log.append((kind, arg) if kind in ('asend', 'athrow') else (kind,))
        if kind == 'aclose':
            self.finished = True
            return None
        if self.finished or not self.script:
            raise _PyExc('StopAsyncIteration')
        r = self.script.pop(0)
        if r[0] == 'yield':
            return r[1]
        self.finished = True
        raise _PyExc('StopAsyncIteration' if r[0] == 'stop' else r[1])


class _Bound:
    def __init__(self, inner, name):
        self.inner, self.name = inner, name


class _Awaitable:
    def __init__(self, thunk):
        self.thunk = thunk


class Machine:
    def __init__(self, fn: ast.AsyncFunctionDef, inner_name: str, inner: Inner, start: int):
        self.fn, self.inner_name, self.inner, self.start = fn, inner_name, inner, start
        self.env = {inner_name: inner}
        self.handling = []
        self.steps = 0

    # -- the program, as a Python generator: yields ('yield', value), is sent ('send', v) / ('throw', token)
    def run(self):
        try:
            yield from self.block(self.fn.body[self.start:])
        except _Return:
            return

    def block(self, stmts):
        for st in stmts:
            yield from self.stmt(st)

    def tick(self):
        self.steps += 1
        if self.steps > 2000:
            raise ProtoAbort('step bound exceeded (non-terminating forwarding loop)')

    def stmt(self, st):
        self.tick()
        if isinstance(st, ast.Assign):
            v = yield from self.ev(st.value)
            for t in st.targets:
                self.bind(t, v)
        elif isinstance(st, ast.AnnAssign):
            if st.value is not None:
                v = yield from self.ev(st.value)
                self.bind(st.target, v)
        elif isinstance(st, ast.Expr):
            yield from self.ev(st.value)
        elif isinstance(st, ast.Return):
            v = None
            if st.value is not None:
                v = yield from self.ev(st.value)
            raise _Return(v)
        elif isinstance(st, ast.Pass):
            pass
        elif isinstance(st, ast.Break):
            raise _Break()
        elif isinstance(st, ast.Continue):
            raise _Continue()
        elif isinstance(st, ast.Raise):
            if st.exc is None:
                if not self.handling:
                    raise ProtoAbort('bare raise outside a handler')
                raise _PyExc(self.handling[-1])
            v = yield from self.ev(st.exc)
            if isinstance(v, str) and v in ANCESTRY:
                raise _PyExc(v)
            if isinstance(v, Unknown):
                raise _PyExc('UserError:' + v.why)          # e.g. the violation of the return-value check
            raise ProtoAbort(f'raise of {v!r}')
        elif isinstance(st, ast.If):
            c = yield from self.ev(st.test)
            if isinstance(c, Unknown):
                # the return-value check between the call-through and the forwarding: assume it passes
                if st.body and isinstance(st.body[-1], ast.Raise) and not st.orelse:
                    return
                raise ProtoAbort(f'branch on {c!r}: {ast.unparse(st.test)[:80]}')
            yield from self.block(st.body if c else st.orelse)
        elif isinstance(st, ast.While):
            while True:
                self.tick()
                c = yield from self.ev(st.test)
                if isinstance(c, Unknown):
                    raise ProtoAbort(f'loop on {c!r}')
                if not c:
                    yield from self.block(st.orelse)
                    break
                try:
                    yield from self.block(st.body)
                except _Break:
                    break
                except _Continue:
                    continue
        elif isinstance(st, ast.AsyncFor):
            # ``async for x in g``: anext() on the iterated generator until StopAsyncIteration (one-way: nothing the caller
            # sends or throws at the suspended ``yield`` of the body reaches g)
            it = yield from self.ev(st.iter)
            if not isinstance(it, Inner):
                raise ProtoAbort(f'async for over {it!r}')
            while True:
                self.tick()
                try:
                    v = it.op('anext')
                except _PyExc as ex:
                    if ex.token.split(':')[0] == 'StopAsyncIteration':
                        yield from self.block(st.orelse)
                        break
                    raise
                self.bind(st.target, v)
                try:
                    yield from self.block(st.body)
                except _Break:
                    break
                except _Continue:
                    continue
        elif isinstance(st, ast.Try):
            yield from self.try_(st)
        elif isinstance(st, (ast.Import, ast.ImportFrom, ast.Global, ast.Nonlocal)):
            pass
        else:
            raise ProtoAbort(f'statement {type(st).__name__}')

    def try_(self, st):
        try:
            try:
                yield from self.block(st.body)
            except _PyExc as ex:
                h = self.match(st.handlers, ex.token)
                if h is None:
                    raise
                if h.name:
                    self.env[h.name] = ex.token
                self.handling.append(ex.token)
                try:
                    yield from self.block(h.body)
                finally:
                    self.handling.pop()
            else:
                yield from self.block(st.orelse)
        finally:
            if st.finalbody:
                # (a generator cannot ``yield from`` in a finally that runs during GeneratorExit of the *evaluator*;
                # the wrappers have no finally clauses; fail closed if one appears)
                raise ProtoAbort('finally clause in the forwarding code')

    def match(self, handlers, token):
        anc = ANCESTRY.get(token.split(':')[0], ('Exception', 'BaseException'))
        for h in handlers:
            if h.type is None:
                return h
            names = [h.type] if not isinstance(h.type, ast.Tuple) else list(h.type.elts)
            for n in names:
                nm = n.id if isinstance(n, ast.Name) else ast.unparse(n)
                if nm in anc:
                    return h
        return None

    def bind(self, t, v):
        if isinstance(t, ast.Name):
            self.env[t.id] = v
        elif isinstance(t, (ast.Tuple, ast.List)) and isinstance(v, (tuple, list)) and len(v) == len(t.elts):
            for a, b in zip(t.elts, v):
                self.bind(a, b)
        else:
            raise ProtoAbort(f'assignment target {ast.unparse(t)[:60]}')

    # -- expressions (generators too: a ``yield`` may occur anywhere)
    def ev(self, e):
        self.tick()
        if isinstance(e, ast.Constant):
            return e.value
        if isinstance(e, ast.Name):
            if e.id in self.env:
                return self.env[e.id]
            if e.id in ANCESTRY:
                return e.id
            if e.id in ('anext', 'aiter'):
                return e.id
            if e.id in ('NotImplemented', 'Ellipsis'):
                return f'<{e.id}>'
            return Unknown(f'name {e.id}')
        if isinstance(e, ast.Yield):
            v = None
            if e.value is not None:
                v = yield from self.ev(e.value)
            action = yield ('yield', v)
            if action[0] == 'throw':
                raise _PyExc(action[1])
            return action[1]
        if isinstance(e, ast.Await):
            v = yield from self.ev(e.value)
            if isinstance(v, _Awaitable):
                return v.thunk()
            if isinstance(v, Unknown):
                return v
            raise ProtoAbort(f'await of {v!r}')
        if isinstance(e, ast.Attribute):
            o = yield from self.ev(e.value)
            if isinstance(o, Inner) and e.attr in ('asend', 'athrow', 'aclose', '__anext__', '__aiter__'):
                return _Bound(o, e.attr)
            return Unknown(f'attribute {e.attr}')
        if isinstance(e, ast.Call):
            f = yield from self.ev(e.func)
            args = []
            for a in e.args:
                v = yield from self.ev(a)
                args.append(v)
            if e.keywords:
                for k in e.keywords:
                    yield from self.ev(k.value)
            if f == 'anext' and len(args) == 1 and isinstance(args[0], Inner):
                inner = args[0]
                return _Awaitable(lambda: inner.op('anext'))
            if f == 'aiter' and len(args) == 1 and isinstance(args[0], Inner):
                return args[0]
            if isinstance(f, _Bound):
                inner, name = f.inner, f.name
                if name == '__aiter__':
                    return inner
                if name == '__anext__' and not args:
                    return _Awaitable(lambda: inner.op('anext'))
                if name == 'aclose' and not args:
                    return _Awaitable(lambda: inner.op('aclose'))
                if name in ('asend', 'athrow') and len(args) == 1:
                    a0 = args[0]
                    if isinstance(a0, Unknown):
                        raise ProtoAbort(f'{name}() of {a0!r}')
                    return _Awaitable(lambda: inner.op(name, a0))
                raise ProtoAbort(f'{name}() with {len(args)} arguments')
            return Unknown(f'call of {ast.unparse(e.func)[:40]}')
        if isinstance(e, ast.Compare) and len(e.ops) == 1:
            l = yield from self.ev(e.left)
            r = yield from self.ev(e.comparators[0])
            if isinstance(l, Unknown) or isinstance(r, Unknown):
                return Unknown('comparison')
            op = e.ops[0]
            if isinstance(op, ast.Is):
                return l is r or (l == r and isinstance(l, (str, type(None), bool)))
            if isinstance(op, ast.IsNot):
                return not (l is r or (l == r and isinstance(l, (str, type(None), bool))))
            if isinstance(op, ast.Eq):
                return l == r
            if isinstance(op, ast.NotEq):
                return l != r
            return Unknown('comparison operator')
        if isinstance(e, ast.UnaryOp) and isinstance(e.op, ast.Not):
            v = yield from self.ev(e.operand)
            return v if isinstance(v, Unknown) else (not self.truth(v))
        if isinstance(e, ast.BoolOp):
            v = None
            for x in e.values:
                v = yield from self.ev(x)
                if isinstance(v, Unknown):
                    return v
                if isinstance(e.op, ast.And) and not self.truth(v):
                    return v
                if isinstance(e.op, ast.Or) and self.truth(v):
                    return v
            return v
        if isinstance(e, ast.IfExp):
            c = yield from self.ev(e.test)
            if isinstance(c, Unknown):
                raise ProtoAbort(f'conditional expression on {c!r}')
            v = yield from self.ev(e.body if self.truth(c) else e.orelse)
            return v
        if isinstance(e, ast.NamedExpr):
            v = yield from self.ev(e.value)
            self.bind(e.target, v)
            return v
        if isinstance(e, ast.Tuple):
            out = []
            for x in e.elts:
                v = yield from self.ev(x)
                out.append(v)
            return tuple(out)
        return Unknown(type(e).__name__)

    @staticmethod
    def truth(v):
        if isinstance(v, (Inner, _Bound, _Awaitable)):
            return True
        return bool(v)


def observe(fn, inner_name, start, caller_ops, inner_script):
    """Run one scenario.  Returns (outer results, inner log)."""
    inner = Inner(inner_script)
    m = Machine(fn, inner_name, inner, start)
    g = m.run()
    results = []
    started = False
    for op in caller_ops:
        try:
            if not started:
                started = True
                ev = next(g)
            elif op[0] == 'anext':
                ev = g.send(('send', None))
            elif op[0] == 'asend':
                ev = g.send(('send', op[1]))
            elif op[0] == 'athrow':
                ev = g.send(('throw', op[1]))
            elif op[0] == 'aclose':
                ev = g.send(('throw', 'GeneratorExit'))
            results.append(('yields', ev[1]) if op[0] != 'aclose' else ('yields-after-close', ev[1]))
            if op[0] == 'aclose':
                break
        except StopIteration:
            results.append(('finishes',))
            break
        except _PyExc as ex:
            results.append(('raises', ex.token.split(':')[0]))
            break
    return results, inner.log


CALLER_OPS = [('anext',), ('asend', 'SENT'), ('asend', 0), ('athrow', 'UserError'), ('athrow', 'StopAsyncIteration'),
              ('athrow', 'KeyboardInterrupt'), ('athrow', 'GeneratorExit'), ('aclose',)]
INNER_ANSWERS = [('yield', None), ('stop',), ('raise', 'InnerError')]


def scenarios(depth: int):
    """Every caller script (first operation: anext) × inner script up to ``depth`` operations."""
    for n in range(1, depth + 1):
        for ops in itertools.product(CALLER_OPS, repeat=n - 1):
            ops = (('anext',),) + ops
            # a script ends at the first aclose
            if any(o[0] == 'aclose' for o in ops[:-1]):
                continue
            for answers in itertools.product(INNER_ANSWERS, repeat=n):
                # only the last answer may be terminal; aclose consumes no answer
                if any(a[0] != 'yield' for a in answers[:-1]):
                    continue
                script = [('yield', f'Y{i}') if a[0] == 'yield' else a for i, a in enumerate(answers)]
                yield ops, script


def explore(fn, inner_name, start, depth=4):
    """[(caller ops, inner script, observed, expected)] for every scenario that deviates from the reference."""
    bad = []
    n = 0
    for ops, script in scenarios(depth):
        n += 1
        exp = _reference(ops, script)
        got = observe(fn, inner_name, start, ops, script)
        if got != exp:
            bad.append((ops, script, got, exp))
    return n, bad


def _reference(ops, script):
    """PEP 380 transposed: what a native ``async yield from inner`` would do."""
    inner = Inner(script)
    results = []
    for op in ops:
        if op[0] == 'aclose' or (op[0] == 'athrow' and op[1] == 'GeneratorExit'):
            # closure (aclose() throws GeneratorExit in): the inner generator is closed, GeneratorExit propagates
            inner.op('aclose')
            results.append(('raises', 'GeneratorExit'))
            break
        answer = inner.script[0] if inner.script and not inner.finished else ('stop',)
        try:
            v = inner.op(op[0], op[1] if len(op) > 1 else None)
            results.append(('yields', v))
        except _PyExc as ex:
            results.append(('finishes',) if answer[0] == 'stop' else ('raises', ex.token))
            break
    return results, inner.log
