"""Shared analysis of generated check expressions (serves C01, C02, C09, C10, C12).

For every abstract hint shape × configuration the generator is interpreted (sa.gen), the
generated expression is rewritten into a term (sa.terms) and compared with the reference
semantics (sa.spec).  One :class:`ShapeResult` records everything the per-property rule
modules need; nothing here produces a verdict by itself.
"""
from __future__ import annotations

import ast
import itertools
import re
from dataclasses import dataclass, field

from .fold import Sym
from .gen import AConf, AHint, Generator
from .repo import AnalysisError
from .spec import Spec, SpecError, first_difference, match, objkey
from .terms import TermError, Terms, derives_from_root, show

MAX_ATOMS = 16


@dataclass
class ShapeResult:
    hint: AHint
    conf: AConf
    shape: str = ''
    code: str | None = None
    raised: object = None
    raised_where: str = ''
    parse_error: str | None = None
    term: tuple | None = None
    problems: list = field(default_factory=list)      # def-use / walrus problems
    ops: list = field(default_factory=list)           # operations applied, with operand terms
    reads: list = field(default_factory=list)         # item reads with the test occurrences dominating them
    unresolved_names: list = field(default_factory=list)
    leftover_placeholder: bool = False
    spec_error: str | None = None
    accept_ok: bool | None = None
    accept_detail: str = ''
    detect_ok: bool | None = None
    detect_detail: str = ''
    safety: list = field(default_factory=list)
    uses_random: bool = False
    scope_has_getrandbits: bool = False
    scope: dict = field(default_factory=dict)


class GenCheck:
    def __init__(self, gen: Generator):
        self.G = gen
        F = gen.f
        self.random_var = F.const('beartype._data.check.code.datacodename', 'VAR_NAME_RANDOM_INT')
        self.getrandbits_name = F.const('beartype._data.check.code.datacodename', 'ARG_NAME_GETRANDBITS')
        self.pith_prefix = F.const('beartype._data.check.code.datacodename', 'VAR_NAME_PITH_PREFIX')
        self.pith_root = F.const('beartype._data.check.code.datacodename', 'VAR_NAME_PITH_ROOT')
        self.name_prefix = F.const('beartype._data.check.code.datacodename', 'NAME_PREFIX')
        for v in (self.random_var, self.getrandbits_name, self.pith_prefix, self.pith_root, self.name_prefix):
            if not isinstance(v, str):
                raise AnalysisError('datacodename constants did not fold to strings')
        gen.cls_int = gen.builtin_cls('int')

    # ------------------------------------------------------------------
    def analyse(self, hint: AHint, conf: AConf) -> ShapeResult:
        res = self.G.run(hint, conf)
        out = ShapeResult(hint, conf, shape=hint.shape(), code=res.code, raised=res.raised,
                          raised_where=res.raised_where, scope=res.scope)
        if res.code is None:
            return out
        code = res.code
        out.leftover_placeholder = '@[' in code
        scope = res.scope
        T = Terms(scope_key=lambda n: (objkey(scope[n]) if n in scope else None),
                  pith_prefix=self.pith_prefix, root=self.pith_root)
        try:
            out.term = T.of(code)
        except TermError as ex:
            out.parse_error = str(ex)
            return out
        out.problems = list(T.problems)
        out.ops = list(T.ops)
        out.reads = list(T.reads)
        # names
        from .terms import parse_expr
        tree = parse_expr(code)
        for n in ast.walk(tree):
            if isinstance(n, ast.Name) and n.id.startswith(self.name_prefix) and isinstance(n.ctx, ast.Load):
                if n.id.startswith(self.pith_prefix) or n.id == self.random_var:
                    if n.id == self.random_var:
                        out.uses_random = True
                    continue
                if n.id not in scope and n.id not in T.local_names:
                    out.unresolved_names.append(n.id)
        out.scope_has_getrandbits = self.getrandbits_name in scope
        # reference semantics
        for mode in ('accept', 'detect'):
            sp = Spec(self.G, conf, self.random_var, mode=mode)
            try:
                alts = sp.of(hint, ('root',))
            except SpecError as ex:
                out.spec_error = str(ex)
                return out
            # `(v := E) is v` is true whenever it is evaluated: as a conjunct it only binds (the binding is already
            # resolved in every later read by the term evaluator), so both sides are compared modulo such conjuncts
            got_n = drop_binds(out.term)
            alts = [drop_binds(a) for a in alts]
            ok = any(match(a, got_n) for a in alts)
            detail = ''
            if not ok:
                # logical fallback: the generated term may be weaker (accept) / stronger (detect)
                exact = Spec(self.G, conf, self.random_var, mode='detect').of(hint, ('root',))
                imp = None
                for a in exact:
                    imp = implies(a, out.term) if mode == 'accept' else implies(out.term, a)
                    if imp:
                        break
                if imp:
                    ok = True
                    detail = 'not structurally equal to the reference, but ' + \
                             ('accepts at least what the reference accepts' if mode == 'accept'
                              else 'rejects at least what the reference rejects')
                else:
                    detail = first_difference(alts[0], got_n)
            if mode == 'accept':
                out.accept_ok, out.accept_detail = ok, detail
            else:
                out.detect_ok, out.detect_detail = ok, detail
        # a term that equals the reference structurally has the reference's guards; only a term
        # accepted through the logical fallback needs its own guard analysis
        out.safety = [] if (out.accept_ok and not out.accept_detail) else safety_problems(out.term)
        return out


# ---------------------------------------------------------------------------
def drop_binds(t):
    """Remove always-true binding conjuncts ``('bind', E)`` from conjunctions (only there: as an
    operand of ``or`` a binding selects which alternative feeds a later phi and is kept)."""
    if not isinstance(t, tuple) or not t:
        return t
    if t[0] in ('and', 'or', 'or_any', 'not', 'phi'):
        kids = [drop_binds(x) for x in t[1:]]
        if t[0] == 'and':
            kept = [x for x in kids if not (isinstance(x, tuple) and x[:1] == ('bind',))]
            if not kept:
                return ('const', True)
            if len(kept) == 1:
                return kept[0]
            flat = []
            for x in kept:
                if isinstance(x, tuple) and x[:1] == ('and',):
                    flat.extend(x[1:])
                else:
                    flat.append(x)
            return ('and',) + tuple(flat)
        if t[0] == 'or':
            # a conjunction that collapsed to a disjunction is absorbed by the enclosing disjunction
            flat = []
            for x in kids:
                if isinstance(x, tuple) and x[:1] == ('or',):
                    flat.extend(x[1:])
                else:
                    flat.append(x)
            kids = flat
        return (t[0],) + tuple(kids)
    return t


def atoms_of(t, acc: list):
    if isinstance(t, tuple) and t and t[0] in ('and', 'or', 'or_any'):
        for x in t[1:]:
            atoms_of(x, acc)
    elif isinstance(t, tuple) and t and t[0] == 'not':
        atoms_of(t[1], acc)
    elif isinstance(t, tuple) and t and t[0] == 'bind':
        pass
    elif isinstance(t, tuple) and t and t[0] == 'const':
        pass
    else:
        if t not in acc:
            acc.append(t)


def truth(t, val: dict) -> bool:
    if isinstance(t, tuple) and t:
        if t[0] == 'and':
            return all(truth(x, val) for x in t[1:])
        if t[0] in ('or', 'or_any'):
            return any(truth(x, val) for x in t[1:])
        if t[0] == 'not':
            return not truth(t[1], val)
        if t[0] == 'bind':
            return True
        if t[0] == 'const':
            return bool(t[1])
    return val[t]


def implies(a, b) -> bool | None:
    """Whether a ⇒ b when every non-boolean subterm is an independent boolean atom
    (None when there are too many atoms to enumerate)."""
    acc: list = []
    atoms_of(a, acc)
    atoms_of(b, acc)
    if len(acc) > MAX_ATOMS:
        return None
    for bits in itertools.product((False, True), repeat=len(acc)):
        val = dict(zip(acc, bits))
        if truth(a, val) and not truth(b, val):
            return False
    return True


# ---------------------------------------------------------------------------
def _item_base(t):
    """If term ``t`` reads an item of a container ``p`` → (p, required fact)."""
    if not isinstance(t, tuple) or not t:
        return None
    if t[0] == 'sub':
        p, i = t[1], t[2]
        if isinstance(i, tuple) and i[0] == 'const' and isinstance(i[1], int):
            return (p, ('index', i[1]))
        return (p, ('nonempty',))
    if t[0] == 'call' and t[1] == 'next' and len(t) == 3:
        it = t[2]
        if isinstance(it, tuple) and it[:2] == ('call', 'iter') and len(it) == 3:
            src = it[2]
            if isinstance(src, tuple) and src[0] == 'call' and isinstance(src[1], tuple) and src[1][0] == 'attr':
                return (src[1][1], ('nonempty',))      # next(iter(p.values()))
            return (src, ('nonempty',))
    return None


def safety_problems(term) -> list[str]:
    """Every read of an item must be evaluated only where the container is known to be
    non-empty (``not len(p) or …``) or long enough (``len(p) == n and …``), following
    short-circuit order — otherwise a conforming empty container raises instead of being
    accepted."""
    problems: list[str] = []
    tuple_paths = set()

    def collect_tuple_tests(t):
        if isinstance(t, tuple):
            if t[:2] == ('call', 'isinstance') and len(t) == 4 and t[3] == ('name', 'tuple'):
                tuple_paths.add(t[2])
            for x in t[1:]:
                collect_tuple_tests(x)
    collect_tuple_tests(term)

    def subterms(t):
        if isinstance(t, tuple):
            yield t
            for x in t[1:]:
                yield from subterms(x)

    def check_atom(t, facts):
        for s in subterms(t):
            ib = _item_base(s)
            if ib is None:
                continue
            p, need = ib
            if not derives_from_root(p) and p != ('root',):
                continue
            if need[0] == 'index' and p in tuple_paths:
                # position of a fixed-length tuple: an object of another length does not conform,
                # so an IndexError there is not a false alarm (detection is C02's business)
                continue
            ok = False
            for f in facts:
                if f[0] == 'nonempty' and f[1] == p and need in (('nonempty',), ('index', 0)):
                    ok = True
                if f[0] == 'len' and f[1] == p and need[0] == 'index' and 0 <= need[1] < f[2]:
                    ok = True
                if f[0] == 'len' and f[1] == p and need == ('nonempty',) and f[2] > 0:
                    ok = True
            if not ok:
                problems.append(f'{show(s)[:100]} is evaluated where {show(p)[:60]} is not known to be '
                                f'non-empty / long enough')

    def walk(t, facts: frozenset):
        """returns (facts when true, facts when false)"""
        if isinstance(t, tuple) and t and t[0] == 'and':
            cur = facts
            for x in t[1:]:
                tt, _ = walk(x, cur)
                cur = tt
            return cur, facts
        if isinstance(t, tuple) and t and t[0] == 'or':
            cur = facts
            for x in t[1:]:
                _, ff = walk(x, cur)
                cur = ff
            return facts, cur
        if isinstance(t, tuple) and t and t[0] == 'not':
            a, b = walk(t[1], facts)
            return b, a
        if isinstance(t, tuple) and t and t[0] == 'bind':
            check_atom(t[1], facts)
            return facts, facts
        check_atom(t, facts)
        # facts established by this atom
        if isinstance(t, tuple) and t[:2] == ('call', 'len') and len(t) == 3:
            return facts | {('nonempty', t[2])}, facts          # truthy len ⇒ non-empty
        if isinstance(t, tuple) and t[0] == 'cmp' and t[1] == '==' and isinstance(t[2], tuple) \
                and t[2][:2] == ('call', 'len') and isinstance(t[3], tuple) and t[3][0] == 'const' \
                and isinstance(t[3][1], int):
            return facts | {('len', t[2][2], t[3][1])}, facts
        return facts, facts

    walk(term, frozenset())
    # de-duplicate, keep order
    out = []
    for p in problems:
        if p not in out:
            out.append(p)
    return out


# ---------------------------------------------------------------------------
READ_ONLY_CALLS = {'isinstance', 'issubclass', 'len', 'next', 'iter', 'getattr', 'type', 'id'}
MUTATING_METHODS = {'pop', 'popitem', 'setdefault', 'append', 'appendleft', 'add', 'remove', 'discard', 'clear',
                    'update', 'sort', 'reverse', 'insert', 'extend', 'send', 'throw', 'close', '__next__',
                    '__setitem__', '__delitem__', 'rotate', 'popleft'}
LINEAR_CALLS = {'all', 'any', 'sum', 'min', 'max', 'sorted', 'list', 'tuple', 'set', 'frozenset', 'dict',
                'enumerate', 'zip', 'map', 'filter', 'reversed', 'iter_all', 'repr', 'str', 'hash'}


def vocabulary(res: ShapeResult):
    """[(kind, description)] of operations applied to (parts of) the checked object."""
    out = []
    for op, operands in res.ops:
        touched = [o for o in operands if derives_from_root(o) or o == ('root',)]
        if not touched:
            continue
        out.append((op, operands))
    return out


def _container_of_read(op, operands):
    """The part of the checked object an item read takes its item from."""
    x = operands[0]
    if op != 'subscript':
        # next(iter(X)) / next(iter(X.values())): strip the iter() call, then one view-method call
        if isinstance(x, tuple) and len(x) > 2 and x[0] == 'call' and x[1] == 'iter':
            x = x[2]
        if isinstance(x, tuple) and len(x) >= 2 and x[0] == 'call' and isinstance(x[1], tuple) and x[1] and x[1][0] == 'attr':
            x = x[1][1]
    return x


def repeated_item_reads(res: ShapeResult):
    """Item reads evaluated at two places under the same occurrence of the container's type test, i.e. by one container node
    of the hint: [(rendered read, times)]."""
    seen = {}
    for op, operands, guards in getattr(res, 'reads', []):
        if not any(derives_from_root(o) or o == ('root',) for o in operands):
            continue
        X = _container_of_read(op, operands)
        ctx_ = frozenset(gid for gid, t in guards
                         if isinstance(t, tuple) and len(t) >= 3 and t[0] == 'call' and t[1] == 'isinstance' and t[2] == X)
        key = (op, operands, ctx_)
        seen[key] = seen.get(key, 0) + 1
    from .terms import show
    opn = lambda op: op if isinstance(op, str) else ':'.join(map(str, op))
    return len(seen), sorted((f'{opn(op)}({", ".join(show(o)[:160] for o in operands)})', n) for (op, operands, _), n in seen.items() if n > 1)
