"""Engine G (part): call resolution and small interprocedural effect summaries."""
from __future__ import annotations

import ast

from .astutil import dotted, params_of
from .flow import walk_shallow
from .repo import Module, Ref, Repo

_MUTATORS = {'update', 'pop', 'popitem', 'setdefault', 'clear', '__setitem__', '__delitem__',
             'append', 'extend', 'insert', 'remove', 'add', 'discard', 'sort', 'reverse'}


def resolve_call(repo: Repo, m: Module, call: ast.Call) -> Ref:
    return repo.resolve_expr(m, call.func)


def callee_def(repo: Repo, m: Module, call: ast.Call):
    """(Module, FunctionDef) of a call resolved by name, or None."""
    r = resolve_call(repo, m, call)
    if r.kind == 'def' and r.module in repo.modules and r.node is not None:
        return repo.modules[r.module], r.node
    return None


def arg_binding(fn, call: ast.Call) -> dict[str, ast.AST]:
    """Parameter name → argument expression for a resolved call (best effort)."""
    a = fn.args
    pos = [p.arg for p in a.posonlyargs + a.args]
    out = {}
    for p, v in zip(pos, call.args):
        if not isinstance(v, ast.Starred):
            out[p] = v
    names = set(params_of(fn))
    for k in call.keywords:
        if k.arg is not None and k.arg in names:
            out[k.arg] = k.value
    return out


def mutates_param(repo: Repo, m: Module, fn, param: str, depth: int = 4, _seen=None) -> list[str]:
    """Reasons why ``fn`` (transitively) mutates the object bound to its parameter
    ``param`` (subscript store / mutating method / passing it on to a mutating callee).
    Empty list = no mutation found within ``depth`` resolved calls."""
    _seen = _seen if _seen is not None else set()
    key = (m.name, id(fn), param)
    if key in _seen or depth < 0:
        return []
    _seen.add(key)
    why = []
    for n in walk_shallow(fn):
        if isinstance(n, (ast.Assign, ast.AugAssign, ast.AnnAssign, ast.Delete)):
            tgts = n.targets if isinstance(n, (ast.Assign, ast.Delete)) else [n.target]
            for t in tgts:
                if isinstance(t, ast.Subscript) and dotted(t.value) == param:
                    why.append(f'{m.relpath}:{n.lineno}: {ast.unparse(t)} is stored')
        elif isinstance(n, ast.Call):
            f = n.func
            if isinstance(f, ast.Attribute) and dotted(f.value) == param and f.attr in _MUTATORS:
                why.append(f'{m.relpath}:{n.lineno}: {param}.{f.attr}() is called')
            cd = callee_def(repo, m, n)
            if cd is not None:
                cm, cfn = cd
                for p, v in arg_binding(cfn, n).items():
                    if dotted(v) == param:
                        sub = mutates_param(repo, cm, cfn, p, depth - 1, _seen)
                        if sub:
                            why.append(f'{m.relpath}:{n.lineno}: passed to {cfn.name}() which mutates it '
                                       f'({sub[0]})')
    return why
