"""Translation of small pure predicates of the repository (``lambda pith: …`` / nested
``def is_valid(pith)`` / ``is_type_subclass``) into the term language of :mod:`sa.terms`.

Used to compare the two representations of a beartype validator — the ``is_valid``
callable (used by the explanation path and ``is_bearable`` fallbacks) and the
``is_valid_code`` string (embedded in generated wrappers) — as siblings that must agree.
A predicate that is not of the translatable shape (anything but a docstring, ``assert``\\ s,
simple assignments and one ``return``) is an *opaque* function: it translates to a call of
the function object itself, which is exactly what the code string of ``Is[...]`` does.
"""
from __future__ import annotations

import ast

from .fold import AObj, FuncVal, ClassVal, Inst, Sym, Unknown, _ObjVal
from .spec import objkey
from .terms import _CMP


class Opaque(Exception):
    pass


def funckey(fn: FuncVal):
    return ('func', fn.qual)


def valkey(v):
    if isinstance(v, FuncVal):
        return funckey(v)
    return objkey(v)


def pred_term(folder, fn: FuncVal, args: list, depth: int = 0):
    """Term of ``fn(*args)`` where ``args`` are terms."""
    if depth > 12:
        raise Opaque('depth')
    try:
        return _translate(folder, fn, args, depth)
    except Opaque:
        return ('call', ('obj', funckey(fn)), *args)


def _translate(folder, fn: FuncVal, args, depth):
    node = fn.node
    a = node.args
    params = [p.arg for p in a.posonlyargs + a.args]
    if len(params) != len(args) or a.vararg or a.kwarg or a.kwonlyargs:
        raise Opaque('signature')
    env = dict(zip(params, args))
    closure = fn.closure or {}
    genv = folder.module_env(fn.module)

    def lookup(name):
        if name in env:
            return ('term', env[name])
        if name in closure:
            return ('val', closure[name])
        if name in genv:
            return ('val', genv[name])
        return ('name', name)

    def tr(e):
        if isinstance(e, ast.Constant):
            return ('const', e.value)
        if isinstance(e, ast.Name):
            k, v = lookup(e.id)
            if k == 'term':
                return v
            if k == 'val':
                if isinstance(v, Unknown):
                    raise Opaque(f'unknown value {e.id}')
                if isinstance(v, (str, int, float, bool, type(None))):
                    return ('const', v)
                if isinstance(v, Sym) and v.kind == 'builtin':
                    return ('name', v.name)
                return ('obj', valkey(v))
            return ('name', v)
        if isinstance(e, ast.BoolOp):
            op = 'and' if isinstance(e.op, ast.And) else 'or'
            flat = []
            for x in e.values:
                t = tr(x)
                if isinstance(t, tuple) and t and t[0] == op:
                    flat.extend(t[1:])
                else:
                    flat.append(t)
            return (op, *flat)
        if isinstance(e, ast.UnaryOp) and isinstance(e.op, ast.Not):
            return ('not', tr(e.operand))
        if isinstance(e, ast.Compare):
            l = tr(e.left)
            out = None
            for op, r_ in zip(e.ops, e.comparators):
                r = tr(r_)
                c = ('cmp', _CMP[type(op)], l, r)
                out = c if out is None else ('and', out, c)
                l = r
            return out
        if isinstance(e, ast.Call):
            if e.keywords:
                raise Opaque('keyword call')
            targs = [tr(x) for x in e.args]
            f = e.func
            if isinstance(f, ast.Name):
                k, v = lookup(f.id)
                if k == 'val':
                    if isinstance(v, FuncVal):
                        return pred_term(folder, v, targs, depth + 1)
                    if isinstance(v, Sym) and v.kind == 'builtin':
                        return ('call', v.name, *targs)
                    if isinstance(v, AObj):            # user-supplied callable
                        return ('call', ('obj', objkey(v)), *targs)
                    raise Opaque(f'call of {v!r}')
                if k == 'name':
                    return ('call', v, *targs)
                raise Opaque('call of a term')
            if isinstance(f, ast.Attribute) and isinstance(f.value, ast.Name):
                k, v = lookup(f.value.id)
                if k == 'val' and isinstance(v, _ObjVal):
                    # ``validator.is_valid(x)``: the operand's own predicate
                    if f.attr == 'is_valid':
                        inner = v.attrs.get('_is_valid')
                        if isinstance(inner, FuncVal):
                            return pred_term(folder, inner, targs, depth + 1)
                    raise Opaque(f'method {f.attr} of {v!r}')
            raise Opaque('call shape')
        if isinstance(e, ast.Attribute):
            return ('attr', tr(e.value), e.attr)
        raise Opaque(type(e).__name__)

    if isinstance(node, ast.Lambda):
        return tr(node.body)
    ret = None
    for st in node.body:
        if isinstance(st, ast.Expr) and isinstance(st.value, (ast.Constant, ast.JoinedStr)):
            continue
        if isinstance(st, ast.Assert):
            continue
        if isinstance(st, ast.Assign) and len(st.targets) == 1 and isinstance(st.targets[0], ast.Name):
            env[st.targets[0].id] = tr(st.value)
            continue
        if isinstance(st, ast.AnnAssign) and isinstance(st.target, ast.Name) and st.value is not None:
            env[st.target.id] = tr(st.value)
            continue
        if isinstance(st, ast.Return) and st.value is not None and ret is None:
            ret = tr(st.value)
            continue
        raise Opaque(f'statement {type(st).__name__}')
    if ret is None:
        raise Opaque('no return')
    return ret
