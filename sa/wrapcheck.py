"""Facts about a generated wrapper function (syntax tree queries over the text produced by
:mod:`sa.wrapgen`).  Nothing here is a verdict; the rule modules of C03, C04, C08 and C10
turn these facts into obligations."""
from __future__ import annotations

import ast
from dataclasses import dataclass, field

from .astutil import dotted
from .flow import walk_shallow
from .repo import norm


@dataclass
class CheckSite:
    pith_name: str                  # value of the ``pith_name=`` keyword ('return' for the return value)
    call: ast.Call                  # the get_violation(...) call
    localise: ast.AST | None        # statement that bound the root pith for this check
    guards: list                    # enclosing ``if`` tests between the localisation and the check (outermost first)
    handler: ast.AST | None         # statement following the violation assignment (raise / warn)
    order: int                      # position in source order
    kwargs: dict = field(default_factory=dict)


@dataclass
class WrapperFacts:
    ok: bool
    error: str = ''
    fn: ast.AST | None = None
    is_async: bool = False
    has_yield: bool = False
    has_yield_from: bool = False
    kind: str = ''
    compiles: bool = True
    compile_error: str = ''
    sites: list = field(default_factory=list)
    calls_through: list = field(default_factory=list)     # Call nodes of the wrappee
    call_order: int = -1
    stores_args: list = field(default_factory=list)
    returns: list = field(default_factory=list)
    signature_ok: bool = True
    signature_detail: str = ''
    random_inits: list = field(default_factory=list)


def analyse(code: str, names: dict) -> WrapperFacts:
    """``names``: PITH_ROOT, FUNC, GET_VIOLATION, VIOLATION, ARGS_LEN, RANDOM_INT, GETRANDBITS, WARN."""
    try:
        tree = ast.parse(code)
    except SyntaxError as ex:
        return WrapperFacts(False, f'wrapper does not parse: {ex.msg} line {ex.lineno}: {(ex.text or "").strip()[:80]}')
    fns = [n for n in tree.body if isinstance(n, (ast.FunctionDef, ast.AsyncFunctionDef))]
    if len(fns) != 1 or len(tree.body) != 1:
        return WrapperFacts(False, f'wrapper source is not exactly one function definition ({len(tree.body)} statements)')
    fn = fns[0]
    for n in ast.walk(fn):
        for c in ast.iter_child_nodes(n):
            c._parent = n
    F = WrapperFacts(True, fn=fn)
    F.is_async = isinstance(fn, ast.AsyncFunctionDef)
    F.has_yield = any(isinstance(n, ast.Yield) for n in walk_shallow(fn))
    F.has_yield_from = any(isinstance(n, ast.YieldFrom) for n in walk_shallow(fn))
    F.kind = ('agen' if (F.has_yield or F.has_yield_from) else 'coro') if F.is_async else \
             ('gen' if (F.has_yield or F.has_yield_from) else 'sync')
    try:
        compile(code, '<wrapper>', 'exec', dont_inherit=True)
    except SyntaxError as ex:
        F.compiles, F.compile_error = False, f'{ex.msg} (line {ex.lineno})'
    # signature: (*args, <keyword-only hidden defaults name=name>, **kwargs)
    a = fn.args
    sig_problems = []
    if a.posonlyargs or a.args:
        sig_problems.append('wrapper declares named positional parameters')
    if a.vararg is None or a.vararg.arg != 'args':
        sig_problems.append('no *args')
    if a.kwarg is None or a.kwarg.arg != 'kwargs':
        sig_problems.append('no **kwargs')
    for p, d in zip(a.kwonlyargs, a.kw_defaults):
        if not (isinstance(d, ast.Name) and d.id == p.arg):
            sig_problems.append(f'hidden parameter {p.arg} does not default to the scope attribute of the same name')
    F.signature_ok, F.signature_detail = not sig_problems, '; '.join(sig_problems)

    PITH, FUNC, GETV, VIOL = names['PITH_ROOT'], names['FUNC'], names['GET_VIOLATION'], names['VIOLATION']
    order = 0
    current = None

    def stmts_in_order(body):
        for st in body:
            yield st
            for fld in ('body', 'orelse', 'finalbody'):
                sub = getattr(st, fld, None)
                if isinstance(sub, list) and sub and isinstance(sub[0], ast.stmt):
                    yield from stmts_in_order(sub)
            for h in getattr(st, 'handlers', []) or []:
                yield from stmts_in_order(h.body)

    all_stmts = list(stmts_in_order(fn.body))
    pos = {id(s): i for i, s in enumerate(all_stmts)}

    def binds_pith(st):
        if isinstance(st, ast.Assign):
            return any(isinstance(t, ast.Name) and t.id == PITH for t in st.targets)
        if isinstance(st, (ast.For, ast.AsyncFor)):
            return isinstance(st.target, ast.Name) and st.target.id == PITH
        return False

    for st in all_stmts:
        if binds_pith(st):
            current = st
        # stores to args / kwargs
        for n in ([st] if not isinstance(st, (ast.If, ast.For, ast.While, ast.Try, ast.With, ast.AsyncFor)) else []):
            for x in ast.walk(n):
                if isinstance(x, ast.Name) and x.id in ('args', 'kwargs') and isinstance(x.ctx, (ast.Store, ast.Del)):
                    F.stores_args.append(norm(n))
                if isinstance(x, ast.Call) and isinstance(x.func, ast.Attribute) and dotted(x.func.value) in ('args', 'kwargs') \
                        and x.func.attr in ('pop', 'popitem', 'clear', 'update', 'setdefault', '__setitem__', '__delitem__'):
                    F.stores_args.append(norm(n))
                if isinstance(x, ast.Subscript) and dotted(x.value) in ('args', 'kwargs') and isinstance(x.ctx, (ast.Store, ast.Del)):
                    F.stores_args.append(norm(n))
        if isinstance(st, ast.Assign) and isinstance(st.value, ast.Call) and dotted(st.value.func) == GETV:
            kw = {k.arg: k.value for k in st.value.keywords if k.arg}
            pn = kw.get('pith_name')
            name = pn.value if isinstance(pn, ast.Constant) else (norm(pn) if pn is not None else None)
            guards = []
            p = getattr(st, '_parent', None)
            child = st
            while p is not None and p is not fn:
                if isinstance(p, ast.If) and any(child is s for s in p.body):
                    guards.append(p.test)
                if current is not None and p is current:
                    break
                child = p
                p = getattr(p, '_parent', None)
            # statement after the assignment in the same block
            blk = getattr(st._parent, 'body', [])
            handler = None
            for fld in ('body', 'orelse'):
                b = getattr(st._parent, fld, None)
                if isinstance(b, list) and st in b:
                    i = b.index(st)
                    handler = b[i + 1] if i + 1 < len(b) else None
            F.sites.append(CheckSite(name, st.value, current, guards[::-1], handler, pos[id(st)], kw))
        if isinstance(st, ast.Return):
            F.returns.append(st)
        if isinstance(st, ast.Assign) and len(st.targets) == 1 and dotted(st.targets[0]) == names['RANDOM_INT']:
            F.random_inits.append(st)
    for n in ast.walk(fn):
        if isinstance(n, ast.Call) and dotted(n.func) == FUNC:
            F.calls_through.append(n)
    if F.calls_through:
        st = F.calls_through[0]
        while st is not None and not isinstance(st, ast.stmt):
            st = getattr(st, '_parent', None)
        F.call_order = pos.get(id(st), -1)
    return F


def call_is_passthrough(call: ast.Call) -> bool:
    """``f(*args, **kwargs)`` and nothing else."""
    return (len(call.args) == 1 and isinstance(call.args[0], ast.Starred) and dotted(call.args[0].value) == 'args'
            and len(call.keywords) == 1 and call.keywords[0].arg is None and dotted(call.keywords[0].value) == 'kwargs')


def in_try_body(node: ast.AST, fn: ast.AST) -> bool:
    child = node
    p = getattr(node, '_parent', None)
    while p is not None and p is not fn:
        if isinstance(p, ast.Try) and any(child is s for s in p.body):
            return True
        child = p
        p = getattr(p, '_parent', None)
    return False
