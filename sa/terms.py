"""Engine D: normalising term evaluator for generated check expressions.

A generated check is one Python expression.  ``Terms.of(code, scope)`` parses it and
rewrites it into a variable-free *term*: every pith variable introduced by an assignment
expression is replaced by the term of the value it was bound to, so that the term says
*which operations are applied to which part of the checked object* and how the tests are
connected.  Evaluation follows Python's short-circuit order, which at the same time gives
a definite-assignment analysis: a pith variable that is read where it is not bound on
every path reaching the read is reported (``problems``).

Term language (nested tuples):

  ('root',)                               the checked object
  ('obj', key)                            an object placed in the wrapper scope
  ('const', v) / ('name', id)             literal / any other free name (builtins …)
  ('call', f, a1, …) ('sub', b, i) ('attr', b, n) ('cmp', op, l, r) ('binop', op, l, r)
  ('not', t)
  ('and', t1, …) / ('or', t1, …)          flattened, order preserved
  ('bind', t)                             ``(v := E) is v`` — always true, binds v to t
  ('phi', t1, t2, …)                      value of a variable bound differently on the
                                          alternative branches that reach the use

``('call', 'isinstance', ('walrus value'), T)`` keeps no trace of the variable name: two
generated expressions that differ only in pith-variable numbering or in whether a value
is localised have the same term.
"""
from __future__ import annotations

import ast

PITH_PREFIX_DEFAULT = '__beartype_pith_'

_CMP = {ast.Eq: '==', ast.NotEq: '!=', ast.Lt: '<', ast.LtE: '<=', ast.Gt: '>', ast.GtE: '>=',
        ast.Is: 'is', ast.IsNot: 'is not', ast.In: 'in', ast.NotIn: 'not in'}
_BIN = {ast.Add: '+', ast.Sub: '-', ast.Mult: '*', ast.Mod: '%', ast.FloorDiv: '//', ast.Div: '/',
        ast.BitOr: '|', ast.BitAnd: '&', ast.BitXor: '^', ast.LShift: '<<', ast.RShift: '>>', ast.Pow: '**'}


class TermError(Exception):
    pass


_PARSE_CACHE: dict = {}


def parse_expr(code: str) -> ast.Expression:
    """Parsed (and cached: the trees are never mutated) generated expression."""
    src = code.strip()
    hit = _PARSE_CACHE.get(src)
    if hit is None:
        try:
            hit = ast.parse('(\n' + src + '\n)', mode='eval')
        except SyntaxError as ex:
            hit = TermError(f'generated code is not an expression: {ex.msg} (line {ex.lineno}): '
                            f'{(ex.text or "").strip()[:80]}')
        if len(_PARSE_CACHE) > 20000:
            _PARSE_CACHE.clear()
        _PARSE_CACHE[src] = hit
    if isinstance(hit, TermError):
        raise hit
    return hit


class Terms:
    def __init__(self, scope_key=None, pith_prefix: str = PITH_PREFIX_DEFAULT, root: str | None = None,
                 extra_bound: dict | None = None):
        self.scope_key = scope_key or (lambda name: None)
        self.prefix = pith_prefix
        self.root = root or f'{pith_prefix}0'
        self.problems: list[str] = []
        self.ops: list[tuple] = []          # (operation, operand term) applied to pith-derived terms
        self.stores: list[str] = []
        # item reads with the occurrences of the tests known to hold where they are evaluated (conjuncts to their left):
        # (operation, operands, ((occurrence id, term), …))
        self.reads: list[tuple] = []
        self._guards: list[tuple] = []
        self._guard_id = 0
        self.extra_bound = dict(extra_bound or {})

    # ------------------------------------------------------------------
    def of(self, code: str):
        tree = parse_expr(code)
        # every name some assignment expression of this code binds is a local of the generated code, whatever
        # it is called (pith variables, validator temporaries): reads resolve through the environment
        self.local_names = {n.target.id for n in ast.walk(tree) if isinstance(n, ast.NamedExpr) and isinstance(n.target, ast.Name)}
        env = {self.root: ('root',)}
        env.update(self.extra_bound)
        t, self.final_env = self.ev(tree.body, env)
        return t

    # ------------------------------------------------------------------
    local_names: frozenset = frozenset()

    def is_pith(self, name: str) -> bool:
        return name.startswith(self.prefix) or name in self.local_names

    @staticmethod
    def merge(a: dict | None, b: dict | None) -> dict | None:
        """Join of two environments (``None`` = unreachable)."""
        if a is None:
            return b
        if b is None:
            return a
        out = {}
        for k in a:
            if k in b:
                if a[k] == b[k]:
                    out[k] = a[k]
                else:
                    parts = []
                    for t in (a[k], b[k]):
                        for x in (t[1:] if isinstance(t, tuple) and t and t[0] == 'phi' else (t,)):
                            if x not in parts:
                                parts.append(x)
                    out[k] = ('phi', *parts)
        return out

    def ev(self, e: ast.AST, env: dict):
        """(term, env after) for value contexts."""
        t, eT, eF = self.evb(e, env)
        return t, self.merge(eT, eF)

    def evb(self, e: ast.AST, env: dict):
        """(term, env when truthy, env when falsy) following short-circuit evaluation: the
        definite-assignment analysis of assignment expressions inside ``and`` / ``or`` / ``not``."""
        if isinstance(e, ast.BoolOp):
            is_and = isinstance(e.op, ast.And)
            terms = []
            cur = env
            stop = None       # env in which evaluation stops early
            pushed = 0
            for v in e.values:
                if cur is None:
                    # statically unreachable operand: still term-evaluate it for the record
                    t, _, _ = self.evb(v, env)
                    terms.append(t)
                    continue
                t, vT, vF = self.evb(v, cur)
                terms.append(t)
                if is_and:
                    self._guard_id += 1
                    self._guards.append((self._guard_id, t))
                    pushed += 1
                if is_and:
                    stop = self.merge(stop, vF)
                    cur = vT
                else:
                    stop = self.merge(stop, vT)
                    cur = vF
            if pushed:
                del self._guards[-pushed:]
            op = 'and' if is_and else 'or'
            flat = []
            for t in terms:
                if isinstance(t, tuple) and t and t[0] == op:
                    flat.extend(t[1:])
                else:
                    flat.append(t)
            return ((op, *flat), cur, stop) if is_and else ((op, *flat), stop, cur)
        if isinstance(e, ast.UnaryOp) and isinstance(e.op, ast.Not):
            t, eT, eF = self.evb(e.operand, env)
            return ('not', t), eF, eT
        if isinstance(e, ast.Compare) and len(e.ops) == 1 and isinstance(e.ops[0], ast.Is) \
                and isinstance(e.left, ast.NamedExpr) and isinstance(e.comparators[0], ast.Name) \
                and isinstance(e.left.target, ast.Name) and e.comparators[0].id == e.left.target.id:
            # ``(v := E) is v``: always true, binds v
            t, env2 = self.ev_value(e.left, env)
            return ('bind', t), env2, None
        t, env2 = self.ev_value(e, env)
        return t, env2, env2

    def ev_value(self, e: ast.AST, env: dict):
        m = getattr(self, 'ev_' + type(e).__name__, None)
        if m is None:
            raise TermError(f'unsupported construct in generated code: {type(e).__name__}: {ast.unparse(e)[:60]}')
        return m(e, env)

    def ev_Constant(self, e, env):
        return ('const', e.value), env

    def ev_Name(self, e, env):
        if self.is_pith(e.id):
            if env is None or e.id not in env:
                self.problems.append(f'pith variable {e.id} is read where it is not bound on every path')
                return ('unbound', e.id), env
            return env[e.id], env
        k = self.scope_key(e.id)
        if k is not None:
            return ('obj', k), env
        return ('name', e.id), env

    def ev_NamedExpr(self, e, env):
        t, env = self.ev(e.value, env)
        if not isinstance(e.target, ast.Name):
            raise TermError('assignment expression to a non-name')
        if not e.target.id.startswith('__beartype_'):
            self.problems.append(f'assignment expression targets the unreserved name {e.target.id}')
        if e.target.id == self.root:
            self.problems.append(f'assignment expression overwrites the root pith {self.root}')
        self.stores.append(e.target.id)
        env = dict(env or {})
        env[e.target.id] = t
        return t, env

    def ev_BoolOp(self, e, env):
        return self.ev(e, env)

    def ev_UnaryOp(self, e, env):
        t, env = self.ev(e.operand, env)
        return ('unary', type(e.op).__name__, t), env

    def ev_Compare(self, e, env):
        l, env = self.ev(e.left, env)
        out = None
        for op, r_ in zip(e.ops, e.comparators):
            r, env = self.ev(r_, env)
            c = ('cmp', _CMP[type(op)], l, r)
            self._op(_CMP[type(op)], l, r)
            out = c if out is None else ('and', out, c)
            l = r
        return out, env

    def ev_BinOp(self, e, env):
        l, env = self.ev(e.left, env)
        r, env = self.ev(e.right, env)
        self._op(_BIN.get(type(e.op), '?'), l, r)
        return ('binop', _BIN.get(type(e.op), '?'), l, r), env

    def ev_Call(self, e, env):
        if e.keywords:
            raise TermError(f'keyword call in generated code: {ast.unparse(e)[:60]}')
        if isinstance(e.func, ast.Name):
            f = e.func.id
            k = self.scope_key(f)
            fterm = ('obj', k) if k is not None else f
        else:
            fterm, env = self.ev(e.func, env)
        args = []
        for a in e.args:
            if isinstance(a, ast.Starred):
                raise TermError('starred call argument in generated code')
            t, env = self.ev(a, env)
            args.append(t)
        if isinstance(fterm, str):
            opname = ('call', fterm)
        elif fterm[0] == 'obj':
            opname = ('call', 'scope-callable')
        elif fterm[0] == 'attr':
            opname = ('call', 'method:' + fterm[2])
            args = [fterm[1]] + args if False else args
        else:
            opname = ('call', '?')
        self._op(opname, *(([fterm[1]] if (not isinstance(fterm, str) and fterm[0] == 'attr') else []) + args))
        return ('call', fterm, *args), env

    def ev_Subscript(self, e, env):
        b, env = self.ev(e.value, env)
        if isinstance(e.slice, ast.Slice):
            raise TermError('slice in generated code')
        i, env = self.ev(e.slice, env)
        self._op('subscript', b, i)
        return ('sub', b, i), env

    def ev_Attribute(self, e, env):
        b, env = self.ev(e.value, env)
        self._op('attr:' + e.attr, b)
        return ('attr', b, e.attr), env

    def ev_IfExp(self, e, env):
        c, cT, cF = self.evb(e.test, env)
        a, ea = self.ev(e.body, cT)
        b, eb = self.ev(e.orelse, cF)
        return ('ifexp', c, a, b), self.merge(ea, eb)

    def ev_Tuple(self, e, env):
        ts = []
        for x in e.elts:
            t, env = self.ev(x, env)
            ts.append(t)
        return ('tuple', *ts), env

    def _op(self, op, *operands):
        self.ops.append((op, operands))
        if op == 'subscript' or op == ('call', 'next'):
            self.reads.append((op, operands, tuple(self._guards)))


# ---------------------------------------------------------------------------
def derives_from_root(t) -> bool:
    """Whether a term is (part of) the checked object."""
    if not isinstance(t, tuple) or not t:
        return False
    if t[0] == 'root':
        return True
    if t[0] in ('sub', 'attr'):
        return derives_from_root(t[1])
    if t[0] == 'call':
        # the result of a method of (a part of) the object — x.values(), x.items() — is a view of it
        return any(derives_from_root(a) for a in t[2:]) or (isinstance(t[1], tuple) and derives_from_root(t[1]))
    if t[0] == 'phi':
        return any(derives_from_root(a) for a in t[1:])
    if t[0] == 'binop':
        return False
    return False


def show(t, depth=0) -> str:
    """Compact rendering of a term for reports."""
    if not isinstance(t, tuple):
        return str(t)
    h = t[0]
    if h == 'root':
        return 'x'
    if h == 'obj':
        return f'<{t[1]}>' if not isinstance(t[1], tuple) else '<' + ':'.join(map(str, t[1][:2])) + '>'
    if h == 'const':
        return repr(t[1])
    if h == 'name':
        return t[1]
    if h in ('and', 'or'):
        return '(' + f' {h} '.join(show(x) for x in t[1:]) + ')'
    if h == 'not':
        return f'not {show(t[1])}'
    if h == 'call':
        f = t[1] if isinstance(t[1], str) else show(t[1])
        return f'{f}(' + ', '.join(show(x) for x in t[2:]) + ')'
    if h == 'sub':
        return f'{show(t[1])}[{show(t[2])}]'
    if h == 'attr':
        return f'{show(t[1])}.{t[2]}'
    if h == 'cmp':
        return f'{show(t[2])} {t[1]} {show(t[3])}'
    if h == 'binop':
        return f'{show(t[2])} {t[1]} {show(t[3])}'
    if h == 'bind':
        return f'bind({show(t[1])})'
    if h == 'phi':
        return 'phi(' + ' | '.join(show(x) for x in t[1:]) + ')'
    return str(t)
