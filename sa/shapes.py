"""Enumeration of abstract hint shapes (trace partitioning of the generator's input).

``Shapes.leaves()``                 hints without child slots (class, shallow PEP hint, empty
                                    tuple, ``type[C]``, literals, Annotated over an ignorable
                                    metahint with each catalogue validator);
``Shapes.wrap(child)``              every production that has a child slot, instantiated with
                                    ``child`` in that slot (and a plain class / the ignorable
                                    hint in the other slots);
``Shapes.depth(k)``                 all hints obtained by ``k`` rounds of wrapping.

Every (parent production, slot, child production) pair occurs at depth 1, every triple at
depth 2: a production that is only wrong in one syntactic context of one parent (an
operand of ``==``, a prefix of an identifier, an argument of a call) is exercised there.
"""
from __future__ import annotations

import random

from .gen import AHint, Generator
from .fold import Sym


class Shapes:
    def __init__(self, gen: Generator, validators: dict | None = None):
        self.G = gen
        self.validators = validators or {}

    # ------------------------------------------------------------------
    def leaves(self) -> list[AHint]:
        G = self.G
        out = [
            G.cls('C'),
            G.shallow('HintSignList'),
            G.shallow('HintSignCallable'),
            G.tuple_fixed(),
            G.type_of(G.cls('S')),
            G.type_of(Sym('builtin', 'object')),
            G.literal('a'),
            G.literal('a', 'b'),
        ]
        vs = list(self.validators.items())
        for name, v in vs:
            h = G.annotated(G.ignorable(), v)
            h.label = f'Annotated<{name}>'
            out.append(h)
        if vs:
            # two validators: the second and later ones read the localised variable
            for (n1, v1), (n2, v2) in zip(vs, vs[1:] + vs[:1]):
                h = G.annotated(G.ignorable(), v1, v2)
                h.label = f'Annotated<{n1},{n2}>'
                out.append(h)
        return out

    def representatives(self) -> list[AHint]:
        """One hint per production (used as children in the quick tier)."""
        G = self.G
        vs = list(self.validators.values())
        C = G.cls
        reps = [
            C('C'),
            G.shallow('HintSignList'),
            G.union(C('A'), G.subscripted('HintSignList', C('B'))),
            # a union with more members than the unions wrap() nests it in (what a TypeVar with constraints,
            # an override or an alias reduces to *after* the enclosing union was built)
            G.union(C('P'), C('Q'), G.subscripted('HintSignSet', C('R')), C('T')),
            G.subscripted('HintSignList', C('I')),
            G.subscripted('HintSignSet', C('I')),
            G.subscripted('HintSignIterable', C('I')),
            G.tuple_fixed(C('A'), C('B')),
            G.tuple_fixed(),
            G.mapping(C('K'), C('V')),
            G.type_of(C('S')),
            G.generic(G.subscripted('HintSignSequence', C('I'))),
            G.literal('a', 'b'),
        ]
        for v in vs[:]:
            reps.append(G.annotated(G.ignorable(), v))
        if len(vs) >= 2:
            reps.append(G.annotated(G.ignorable(), vs[0], vs[1]))
            reps.append(G.annotated(C('M'), vs[0]))
        return reps

    def wrap(self, child: AHint) -> list[AHint]:
        """Every production with ``child`` in one of its slots."""
        G = self.G
        C = G.cls
        ign = G.ignorable
        out = []
        for s in ('HintSignList', 'HintSignSequence', 'HintSignSet', 'HintSignDeque', 'HintSignIterable',
                  'HintSignCollection', 'HintSignKeysView'):
            out.append(G.subscripted(s, child))
        out.append(G.subscripted('HintSignTuple', child, G.cls('...')))       # variadic tuple[T, ...]
        out.append(G.tuple_fixed(child))
        out.append(G.tuple_fixed(C('A'), child))
        out.append(G.tuple_fixed(child, C('B')))
        out.append(G.tuple_fixed(ign(), child))
        out.append(G.tuple_fixed(child, child_copy(child, G)))
        out.append(G.mapping(child, C('V')))
        out.append(G.mapping(C('K'), child))
        out.append(G.mapping(child, ign()))
        out.append(G.mapping(ign(), child))
        out.append(G.mapping(child, C('V'), sign='HintSignDefaultDict'))
        out.append(G.subscripted('HintSignCounter', child))
        if not child.ignorable:
            out.append(G.union(C('A'), child))
            out.append(G.union(child, C('A'), C('B')))
            if child.is_pep:
                out.append(G.union(child, G.subscripted('HintSignSet', C('Z'))))
                out.append(G.union(G.subscripted('HintSignSet', C('Z')), child))
                out.append(G.generic(child))
                out.append(G.generic(G.subscripted('HintSignSequence', C('Q')), child))
        vs = list(self.validators.values())
        if vs:
            out.append(G.annotated(child, vs[0]))
            out.append(G.annotated(child, vs[0], vs[1 % len(vs)]))
        return out

    def depth(self, k: int, children: list[AHint] | None = None) -> list[AHint]:
        cur = self.leaves() if children is None else children
        allh = list(cur)
        for _ in range(k):
            nxt = []
            for c in cur + [self.G.ignorable()]:
                nxt.extend(self.wrap(c))
            allh.extend(nxt)
            cur = nxt
        return allh

    def quick(self) -> list[AHint]:
        """Depth 2 over one representative per production."""
        reps = self.representatives()
        level1 = []
        for c in self.leaves() + [self.G.ignorable()]:
            level1.extend(self.wrap(c))
        level2 = []
        for c in reps:
            for w in self.wrap(c):
                level2.append(w)
        # one more wrapping of a reduced set: each production around each (production around a class)
        level3 = []
        for c in reps[2:13]:
            for w in self.wrap(c)[:8]:
                for w2 in self.wrap(w)[:3] + self.wrap(w)[8:10] + self.wrap(w)[13:15]:
                    level3.append(w2)
        return self.leaves() + level1 + level2 + level3

    def mini(self) -> list[AHint]:
        """Reduced set for the self-test: every production around every leaf and around one
        representative of every production."""
        out = list(self.leaves())
        for c in self.leaves() + [self.G.ignorable()]:
            out.extend(self.wrap(c))
        for c in self.representatives()[2:13]:
            out.extend(self.wrap(c))
        return out

    def sample_depth3(self, n: int, seed: int) -> list[AHint]:
        rnd = random.Random(seed)
        leaves = self.leaves() + [self.G.ignorable()]
        out = []
        for _ in range(n):
            h = rnd.choice(leaves)
            for _d in range(3):
                ws = self.wrap(h)
                h = rnd.choice(ws)
            out.append(h)
        return out


def child_copy(h: AHint, G: Generator) -> AHint:
    """A structurally equal but distinct abstract hint (second slot of the same production)."""
    c = AHint(h.label, h.sign, h.args, is_pep=h.is_pep, ignorable=h.ignorable, is_type=h.is_type, **h.extra)
    c.origin = h.origin
    return c
