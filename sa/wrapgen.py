"""Engine C′: abstract interpretation of the *wrapper* generator.

``BeartypeCallDecorFuncData.reinit`` and ``generate_code`` (with ``code_check_args``,
``code_check_return``, ``make_func_signature``, ``iter_func_args``, the checkmake helpers
and, underneath, ``make_check_expr``) are interpreted by the analyser for an *abstract
callable*: a signature (parameter kinds / names / which are annotated), a return
annotation kind and a callable kind (plain, coroutine, generator, async generator) encoded
in an abstract code object.  The result is the complete source text of the wrapper
function beartype would generate for every concrete callable of that shape, which the
rules of C03/C04/C08/C10 then inspect as a syntax tree.
"""
from __future__ import annotations

import ast
from dataclasses import dataclass, field

from .fold import (AObj, ClassVal, FuncVal, Inst, Sym, Unknown, _Abort, _ObjVal, _Raise, _WithValue,
                   _call_function)
from .gen import AConf, AHint, ASane, Generator
from .repo import AnalysisError

CO = {'varargs': 0x04, 'varkw': 0x08, 'gen': 0x20, 'coro': 0x80, 'agen': 0x200}
KINDS = ('sync', 'coro', 'gen', 'agen')


class ACode(AObj):
    """Abstract code object: exactly the attributes beartype reads."""

    def __init__(self, name, posonly, flex, kwonly, vararg, varkw, kind):
        names = list(posonly) + list(flex) + list(kwonly)
        if vararg:
            names.append(vararg)
        if varkw:
            names.append(varkw)
        self.co_name = name
        self.co_varnames = tuple(names) + ('local_a', 'local_b')
        self.co_posonlyargcount = len(posonly)
        self.co_argcount = len(posonly) + len(flex)
        self.co_kwonlyargcount = len(kwonly)
        flags = 0x03
        if vararg:
            flags |= CO['varargs']
        if varkw:
            flags |= CO['varkw']
        flags |= {'sync': 0, 'coro': CO['coro'], 'gen': CO['gen'], 'agen': CO['agen']}[kind]
        self.co_flags = flags
        self.co_freevars = ()

    def __repr__(self):
        return f'<code {self.co_name}>'


class AFunc(AObj):
    """Abstract pure-Python callable."""

    def __init__(self, name='f', posonly=(), flex=(), vararg=None, kwonly=(), varkw=None, kind='sync',
                 annotations=None, n_defaults=0, kwdefaults=()):
        self.__name__ = name
        self.__qualname__ = name
        self.__module__ = 'user_module'
        self.kind = kind
        self.posonly, self.flex, self.vararg, self.kwonly, self.varkw = \
            tuple(posonly), tuple(flex), vararg, tuple(kwonly), varkw
        self.__code__ = ACode(name, posonly, flex, kwonly, vararg, varkw, kind)
        self.__defaults__ = tuple(Sym('default', f'd{i}') for i in range(n_defaults)) or None
        self.__kwdefaults__ = {k: Sym('default', f'kd_{k}') for k in kwdefaults} or None
        self.__annotations__ = dict(annotations or {})
        self.__closure__ = None
        self.__globals__ = {}

    def positions(self) -> dict:
        """parameter name -> index among positional parameters"""
        return {n: i for i, n in enumerate(self.posonly + self.flex)}

    def __repr__(self):
        return f'<function {self.__name__} [{self.kind}]>'

    def describe(self) -> str:
        parts = list(self.posonly) + (['/'] if self.posonly else []) + list(self.flex)
        if self.vararg:
            parts.append('*' + self.vararg)
        elif self.kwonly:
            parts.append('*')
        parts += list(self.kwonly)
        if self.varkw:
            parts.append('**' + self.varkw)
        ann = {k: getattr(v, 'label', str(v)) for k, v in self.__annotations__.items()}
        return f'{self.kind} def {self.__name__}({", ".join(parts)}) annotations={ann}'


class AScope(dict, AObj):
    """Abstract ``BeartypeCheckExprScope`` (a frozen dict with two extra attributes)."""

    def __init__(self, mapping=(), is_check_expr_cacheable=True):
        dict.__init__(self, mapping)
        self.is_check_expr_cacheable = is_check_expr_cacheable
        self.beartype_ref_proxies = ()

    def refreeze(self, func_scope):
        return AScope(func_scope, self.is_check_expr_cacheable)


NORETURN = Sym('ext', 'typing.NoReturn')


@dataclass
class WrapResult:
    func: AFunc
    conf: AConf
    code: str | None = None
    scope: dict = field(default_factory=dict)
    raised: object = None
    raised_where: str = ''
    decor_attrs: dict = field(default_factory=dict)


class WrapperGenerator:
    def __init__(self, gen: Generator):
        self.G = gen
        F = gen.f
        self.F = F
        F.interpret_classes |= {
            'beartype._check.cls.call.calldatadecorfunc.BeartypeCallDecorFuncData',
            'beartype._check.cls.call.calldatadecorfuncmin.BeartypeCallDecorFuncMinimalData',
            'beartype._check.cls.call.calldatadecorabc.BeartypeCallDecorABC',
            'beartype._check.cls.call.calldataabc.BeartypeCallDataABC',
        }
        self.DecorFunc = F.const('beartype._check.cls.call.calldatadecorfunc', 'BeartypeCallDecorFuncData')
        self.generate_code = F.const('beartype._decor._nontype._wrap.wrapmain', 'generate_code')
        if not isinstance(self.DecorFunc, ClassVal) or not isinstance(self.generate_code, FuncVal):
            raise AnalysisError('anchor vanished: BeartypeCallDecorFuncData / generate_code')
        F.patch_global('beartype._data.kind.datakindmap', 'FROZENDICT_EMPTY', AScope())
        self._install()

    # ------------------------------------------------------------------
    def _install(self):
        S, F, G = self.F.stubs, self.F, self.G

        def arg(a, k, i, name):
            return k[name] if name in k else a[i]

        def codeobj(e, a, k):
            f = arg(a, k, 0, 'func')
            if isinstance(f, ACode):
                return f
            if isinstance(f, AFunc):
                # get_func_codeobject[_or_none](func, is_unwrap=False): with is_unwrap the code object of the
                # innermost wrapped callable is returned (functools.wraps chain), otherwise the callable's own
                unwrap = k.get('is_unwrap', a[1] if len(a) > 1 and isinstance(a[1], bool) else False)
                while unwrap is True and getattr(f, '__wrapped__', None) is not None:
                    f = f.__wrapped__
                return f.__code__
            return None

        def sanify_root(e, a, k):
            h = k.get('hint', a[1] if len(a) > 1 else None)
            if h == NORETURN:
                s = ASane.__new__(ASane)
                s.hint = NORETURN
                s.is_check_expr_cacheable = True
                return s
            if isinstance(h, AHint):
                return G.IGNORABLE if h.ignorable else ASane(h)
            raise _Abort(f'sanify_hint_root_func on non-abstract hint {h!r}')

        def scope_cls(e, a, k):
            sc = AScope(a[0] if a and isinstance(a[0], dict) else {},
                        k.get('is_check_expr_cacheable', True))
            if G._cur is not None and a and isinstance(a[0], dict):
                G._cur.scope = dict(a[0])
            return sc

        S.update({
            'beartype._util.func.utilfunccodeobj.get_func_codeobject': codeobj,
            'beartype._util.func.utilfunccodeobj.get_func_codeobject_or_none': codeobj,
            'beartype._util.func.utilfunctest.is_func_codeobjable': lambda e, a, k: isinstance(arg(a, k, 0, 'func'), (AFunc, ACode)),
            'beartype._util.func.utilfunctest.is_func_boundmethod': lambda e, a, k: False,
            # a pure-Python *function* object (as opposed to the bound __call__ of a pseudo-callable, which has a code
            # object but is no FunctionType)
            'beartype._util.func.utilfunctest.is_func_python': lambda e, a, k: bool(getattr(arg(a, k, 0, 'func'), 'is_function', True)),
            'beartype._util.hint.pep.proposal.pep749.pep649749annotate.get_hintable_pep649749_annotations':
                lambda e, a, k: dict(arg(a, k, 0, 'hintable').__annotations__),
            'beartype._check.convert.convmain.sanify_hint_root_func': sanify_root,
            'beartype._check.cls.scope.checkexprscope.BeartypeCheckExprScope': scope_cls,
            'beartype._util.hint.utilhintget.get_hint_repr': lambda e, a, k: repr(arg(a, k, 0, 'hint')),
            'beartype._check.forward.reference.fwdrefset.set_beartype_ref_proxies_exception_prefix': lambda e, a, k: None,
            'beartype._util.kind.maplike.utilmaptest.die_if_mappings_two_items_collide': lambda e, a, k: None,
            'beartype._util.kind.maplike.utilmapfrozen.FrozenDict': lambda e, a, k: AScope(a[0] if a else {}),
        })
        self.F.ext_stubs['warnings.catch_warnings'] = lambda e, a, k: _WithValue([])
        prev_builtin = self.F.builtin_hook

        def builtin(name, args, kwargs):
            if name == 'callable' and len(args) == 1:
                if isinstance(args[0], AFunc):
                    return True
                if isinstance(args[0], AObj):
                    return False
            if name == 'getattr' and len(args) in (2, 3) and isinstance(args[0], AObj) and isinstance(args[1], str):
                if hasattr(args[0], args[1]):
                    return getattr(args[0], args[1])
                if len(args) == 3:
                    return args[2]
            if name == 'hasattr' and len(args) == 2 and isinstance(args[0], AObj) and isinstance(args[1], str):
                return hasattr(args[0], args[1])
            if name == 'bool' and len(args) == 1 and isinstance(args[0], int):
                return bool(args[0])
            return prev_builtin(name, args, kwargs) if prev_builtin else NotImplemented
        self.F.builtin_hook = builtin
        prev_inst = self.F.isinstance_hook

        def inst(obj, cls):
            if isinstance(obj, AConf) and isinstance(cls, ClassVal) and cls.name == 'BeartypeConf':
                return True
            if isinstance(obj, ACode):
                return 'CodeType' in repr(cls)
            if isinstance(obj, AFunc) and isinstance(cls, Sym) and cls.kind == 'ext':
                return 'FunctionType' in cls.name
            if isinstance(obj, AScope) and isinstance(cls, Sym) and cls.kind == 'builtin' and cls.name == 'dict':
                return True
            return prev_inst(obj, cls) if prev_inst else None
        self.F.isinstance_hook = inst

    # ------------------------------------------------------------------
    def run(self, func: AFunc, conf: AConf | None = None) -> WrapResult:
        conf = conf or AConf()
        for attr, default in (('_is_violation_door_warn', False), ('_is_violation_param_warn', False),
                              ('_is_violation_return_warn', False), ('is_color', None), ('is_debug', False)):
            if not hasattr(conf, attr):
                setattr(conf, attr, default)
        res = WrapResult(func, conf)
        F = self.F
        try:
            from .fold import _Env
            env = _Env(F, F.repo.mod(self.DecorFunc.module), F.module_env(self.DecorFunc.module), {}, 1)
            decor = env.apply(self.DecorFunc, [], {})
            reinit = self.DecorFunc.find('reinit')
            _call_function(F, reinit, [decor], {'func_wrappee': func, 'conf': conf}, 1)
            res.decor_attrs = {k: decor.attrs.get(k) for k in (
                'func_wrapper_code_call_prefix', 'func_wrapper_code_return_checked',
                'func_wrapper_code_return_unchecked', 'func_wrapper_code_signature_prefix', 'func_wrapper_name')}
            out = _call_function(F, self.generate_code, [decor], {}, 1)
            if isinstance(out, str):
                res.code = out
                sc = decor.attrs.get('func_wrapper_locals')
                res.scope = dict(sc) if isinstance(sc, dict) else {}
            else:
                raise AnalysisError(f'generate_code({func.describe()}) returned {out!r}')
        except _Raise as r:
            res.raised, res.raised_where = r.what, r.where
        except _Abort as a:
            raise AnalysisError(f'abstract interpretation of generate_code({func.describe()}) stopped: {a}')
        return res
