"""Engine G: name-resolved call graph of the repository (or a sub-package).

Callees are resolved through imports (module level and function level), nested
definitions, ``self.method()`` / ``cls.method()`` inside classes (including repository
base classes) and ``Class.method`` references.  First-class callables (parameters,
dictionary values) are *unresolved*; rules that quantify over "every caller" treat an
unresolved possible caller as unknown and fail closed where it matters.
"""
from __future__ import annotations

import ast
from collections import defaultdict

from .astutil import dotted
from .flow import walk_shallow
from .repo import Module, Repo, enclosing_def_chain, qualname_of


class CallGraph:
    def __init__(self, repo: Repo, prefixes=('beartype',)):
        self.repo = repo
        self.funcs: dict[str, tuple[Module, ast.AST]] = {}
        self.calls: dict[str, list] = defaultdict(list)       # caller -> [(call node, callee qual | None)]
        self.callers: dict[str, list] = defaultdict(list)     # callee -> [(caller qual, call node)]
        self.module_level_calls: list = []                    # (module, call node, callee qual | None)
        mods = [m for mn, m in repo.modules.items() if any(mn == p or mn.startswith(p + '.') for p in prefixes)]
        for m in mods:
            for n in ast.walk(m.tree):
                if isinstance(n, (ast.FunctionDef, ast.AsyncFunctionDef)):
                    self.funcs[f'{m.name}.{qualname_of(n)}'] = (m, n)
        for q, (m, fn) in list(self.funcs.items()):
            for c in walk_shallow(fn):
                if isinstance(c, ast.Call):
                    callee = self.resolve(m, fn, c)
                    self.calls[q].append((c, callee))
                    if callee:
                        self.callers[callee].append((q, c))
        for m in mods:
            for st in m.tree.body:
                if isinstance(st, (ast.FunctionDef, ast.AsyncFunctionDef, ast.ClassDef)):
                    continue
                for c in ast.walk(st):
                    if isinstance(c, ast.Call):
                        callee = self.resolve(m, None, c)
                        self.module_level_calls.append((m, c, callee))
                        if callee:
                            self.callers[callee].append((f'{m.name}.<module>', c))

    # ------------------------------------------------------------------
    def _class_method(self, modname: str, clsname: str, meth: str, _seen=None) -> str | None:
        _seen = _seen or set()
        if (modname, clsname) in _seen:
            return None
        _seen.add((modname, clsname))
        m = self.repo.modules.get(modname)
        if m is None:
            return None
        c = m.defs.get(clsname.split('.')[0])
        if not isinstance(c, ast.ClassDef):
            return None
        for st in c.body:
            if isinstance(st, (ast.FunctionDef, ast.AsyncFunctionDef)) and st.name == meth:
                return f'{modname}.{clsname}.{meth}'
            if isinstance(st, ast.Assign) and isinstance(st.targets[0], ast.Name) and st.targets[0].id == meth \
                    and isinstance(st.value, ast.Name):
                return self._class_method(modname, clsname, st.value.id, _seen)
        for b in c.bases:
            r = self.repo.resolve_expr(m, b)
            if r.kind == 'class' and r.module in self.repo.modules:
                got = self._class_method(r.module, r.name, meth, _seen)
                if got:
                    return got
        return None

    def resolve(self, m: Module, fn, call: ast.Call) -> str | None:
        f = call.func
        if isinstance(f, ast.Attribute) and isinstance(f.value, ast.Name) and f.value.id in ('self', 'cls') and fn is not None:
            chain = enclosing_def_chain(fn)
            classes = [c for c in chain if isinstance(c, ast.ClassDef)]
            if classes:
                return self._class_method(m.name, classes[-1].name, f.attr)
        if isinstance(f, ast.Attribute) and isinstance(f.value, ast.Call) and dotted(f.value.func) == 'super' and fn is not None:
            chain = enclosing_def_chain(fn)
            classes = [c for c in chain if isinstance(c, ast.ClassDef)]
            if classes:
                for b in classes[-1].bases:
                    r = self.repo.resolve_expr(m, b)
                    if r.kind == 'class' and r.module in self.repo.modules:
                        got = self._class_method(r.module, r.name, f.attr)
                        if got:
                            return got
            return None
        r = self.repo.resolve_expr(m, f)
        if r.kind == 'def' and r.module in self.repo.modules:
            return f'{r.module}.{r.name}'
        if r.kind == 'class' and r.module in self.repo.modules:
            return self._class_method(r.module, r.name, '__init__') or self._class_method(r.module, r.name, '__new__')
        if r.kind == 'var' and r.module in self.repo.modules and isinstance(r.node, ast.Assign):
            # alias: ``X_get = X.get`` / ``f = g``
            v = r.node.value
            if isinstance(v, ast.Name):
                r2 = self.repo.resolve_global(r.module, v.id)
                if r2.kind == 'def':
                    return f'{r2.module}.{r2.name}'
        return None

    # ------------------------------------------------------------------
    def reachable(self, roots, max_depth: int = 50) -> set[str]:
        seen = set()
        todo = [(r, 0) for r in roots]
        while todo:
            q, d = todo.pop()
            if q in seen or d > max_depth:
                continue
            seen.add(q)
            for _, callee in self.calls.get(q, ()):
                if callee and callee not in seen:
                    todo.append((callee, d + 1))
        return seen

    def transitive(self, q: str, pred, depth: int = 6, _seen=None) -> list[str]:
        """Witness chain(s) q → … → f with pred(f module, f node) true."""
        _seen = _seen if _seen is not None else set()
        if q in _seen or depth < 0 or q not in self.funcs:
            return []
        _seen.add(q)
        m, fn = self.funcs[q]
        hit = pred(m, fn)
        if hit:
            return [f'{q}: {hit}']
        for _, callee in self.calls.get(q, ()):
            if callee:
                sub = self.transitive(callee, pred, depth - 1, _seen)
                if sub:
                    return [q] + sub
        return []
