"""Engine A (part 2): constant folding / abstract evaluation of module-level code.

A small abstract interpreter over the module-level assignment graph.  It evaluates the
analyser's *own* values (strings, ints, tuples, frozensets, dicts built from literals,
symbolic atoms standing for repository objects) — it never imports or runs beartype.
Repository objects are symbolic:

* ``FuncVal`` / ``ClassVal``   a function / class definition (module, qualname, node);
* ``Inst``                     an instance of a repository class, identified by its
                               constructor arguments (``HintSign('List')``);
* ``Sym('enum', 'ArgKind.POSITIONAL_ONLY')``  an enumeration member;
* ``Sym('ext', 'collections.abc.Set')``       anything defined outside the repository;
* ``Unknown(reason)``          anything the folder does not understand.  Unknown values
                               propagate; a rule that needs a definite value calls
                               :func:`need`, which raises ``AnalysisError``.

Table-builder idioms (``for s in SET: D[s] = f`` inside ``_init()``, ``D.update({…})``)
are handled by abstractly executing the function body against the module environment.
"""
from __future__ import annotations

import ast
import operator
import sys
from dataclasses import dataclass

from .repo import AnalysisError, Module, Repo

TARGET_VERSION = tuple(sys.version_info[:3]) + ('final', 0)


# ---------------------------------------------------------------------------
class Unknown:
    __slots__ = ('reason',)

    def __init__(self, reason: str = ''):
        self.reason = reason

    def __repr__(self):
        return f'Unknown({self.reason})'

    def __bool__(self):
        raise _Abort(f'truth value of unknown ({self.reason})')


@dataclass(frozen=True)
class Sym:
    kind: str
    name: str

    def __repr__(self):
        return f'<{self.kind}:{self.name}>'


@dataclass(frozen=True)
class Inst:
    cls: str
    args: tuple
    kwargs: tuple = ()
    site: str = ''      # creation site: two instances built with equal arguments at different
                        # places are different objects (``is``), e.g. the two HintSane sentinels

    def __repr__(self):
        a = ', '.join([repr(x) for x in self.args] + [f'{k}={v!r}' for k, v in self.kwargs])
        return f'{self.cls.rsplit(".", 1)[-1]}({a})'

    def get(self, name, default=None):
        for k, v in self.kwargs:
            if k == name:
                return v
        return default


class FuncVal:
    def __init__(self, module: str, qualname: str, node: ast.AST, closure: dict | None = None,
                 owner: 'ClassVal | None' = None):
        self.module, self.qualname, self.node, self.closure = module, qualname, node, closure
        self.owner = owner

    def decorators(self) -> list[str]:
        out = []
        for d in getattr(self.node, 'decorator_list', []):
            if isinstance(d, ast.Call):
                d = d.func
            out.append(ast.unparse(d))
        return out

    @property
    def qual(self):
        return f'{self.module}.{self.qualname}'

    def __repr__(self):
        return f'<func {self.qual}>'

    def __hash__(self):
        return hash((self.module, self.qualname))

    def __eq__(self, o):
        return isinstance(o, FuncVal) and (o.module, o.qualname) == (self.module, self.qualname)


class ClassVal:
    def __init__(self, module: str, name: str, node: ast.ClassDef, folder: 'Folder'):
        self.module, self.name, self.node, self._folder = module, name, node, folder
        self._attrs = None

    @property
    def qual(self):
        return f'{self.module}.{self.name}'

    def __repr__(self):
        return f'<class {self.qual}>'

    def __hash__(self):
        return hash((self.module, self.name))

    def __eq__(self, o):
        return isinstance(o, ClassVal) and (o.module, o.name) == (self.module, self.name)

    @property
    def attrs(self) -> dict:
        if self._attrs is None:
            self._attrs = {}
            env = _Env(self._folder, self._folder.repo.mod(self.module),
                       self._folder.module_env(self.module), self._attrs, depth=1)
            env.qualprefix = self.name + '.'
            env.is_class_body = True
            for st in self.node.body:
                try:
                    env.exec_stmt(st)
                except (_Abort, _Return, _Raise):
                    pass
            for v in self._attrs.values():
                if isinstance(v, FuncVal) and v.owner is None:
                    v.owner = self
        return self._attrs

    def bases(self) -> list:
        out = []
        m = self._folder.repo.mod(self.module)
        for b in self.node.bases:
            v = self._folder.eval_in(m, b)
            out.append(v)
        return out

    def mro(self) -> list['ClassVal']:
        out, seen = [], set()

        def rec(c):
            if c in seen:
                return
            seen.add(c)
            out.append(c)
            for b in c.bases():
                if isinstance(b, ClassVal):
                    rec(b)
        rec(self)
        return out

    def find(self, attr: str, after: 'ClassVal | None' = None):
        """Attribute through the (linearised depth-first) class hierarchy."""
        mro = self.mro()
        if after is not None and after in mro:
            mro = mro[mro.index(after) + 1:]
        for c in mro:
            if attr in c.attrs:
                return c.attrs[attr]
        return _MISSING

    def derives_from(self, other: 'ClassVal') -> bool:
        return other in self.mro()

    def base_names(self) -> list[str]:
        return [ast.unparse(b) for b in self.node.bases]

    def is_enum(self) -> bool:
        return any(b.split('.')[-1] in ('Enum', 'IntEnum', 'Flag', 'StrEnum') for b in self.base_names())


class ModuleVal:
    def __init__(self, name: str, internal: bool):
        self.name, self.internal = name, internal

    def __repr__(self):
        return f'<module {self.name}>'


class BoundMethod:
    def __init__(self, obj, name):
        self.obj, self.name = obj, name

    def __repr__(self):
        return f'<bound {self.name} of {type(self.obj).__name__}>'


class _Abort(Exception):
    pass


class _Raise(Exception):
    """An interpreted ``raise`` statement was reached (class name if resolvable)."""

    def __init__(self, what, where=''):
        super().__init__(f'raise {what} at {where}')
        self.what, self.where = what, where


class _BodyExit(Exception):
    def __init__(self, leave):
        self.leave = leave


class _Return(Exception):
    def __init__(self, value):
        self.value = value


class _Break(Exception):
    pass


class _Continue(Exception):
    pass


def need(v, what: str):
    """Definite value or ANALYSIS-ERROR."""
    if isinstance(v, Unknown):
        raise AnalysisError(f'cannot fold {what}: {v.reason}')
    return v


def is_known(v, _d=0) -> bool:
    if isinstance(v, Unknown):
        return False
    if _d < 4 and isinstance(v, (tuple, list, set, frozenset)):
        return all(is_known(x, _d + 1) for x in v)
    if _d < 4 and isinstance(v, dict):
        return all(is_known(k, _d + 1) and is_known(x, _d + 1) for k, x in v.items())
    return True


_BINOPS = {
    ast.Add: operator.add, ast.Sub: operator.sub, ast.Mult: operator.mul,
    ast.BitOr: operator.or_, ast.BitAnd: operator.and_, ast.BitXor: operator.xor,
    ast.Mod: operator.mod, ast.FloorDiv: operator.floordiv, ast.LShift: operator.lshift,
    ast.RShift: operator.rshift, ast.Pow: operator.pow, ast.Div: operator.truediv,
}
_CMPOPS = {
    ast.Eq: operator.eq, ast.NotEq: operator.ne, ast.Lt: operator.lt, ast.LtE: operator.le,
    ast.Gt: operator.gt, ast.GtE: operator.ge,
    ast.Is: lambda a, b: a is b or (type(a) is type(b) and isinstance(a, (Sym, Inst, FuncVal, ClassVal)) and a == b),
    ast.IsNot: lambda a, b: not (a is b or (type(a) is type(b) and isinstance(a, (Sym, Inst, FuncVal, ClassVal)) and a == b)),
    ast.In: lambda a, b: a in b, ast.NotIn: lambda a, b: a not in b,
}
_SAFE_BUILTINS = {
    'len': len, 'tuple': tuple, 'frozenset': frozenset, 'set': set, 'list': list, 'dict': dict,
    'str': str, 'int': int, 'bool': bool, 'repr': repr, 'sorted': sorted, 'min': min, 'max': max,
    'range': range, 'enumerate': enumerate, 'zip': zip, 'reversed': reversed, 'abs': abs,
    'sum': sum, 'any': any, 'all': all, 'isinstance': None, 'format': format, 'chr': chr, 'ord': ord,
}
_CONCRETE = (str, bytes, int, float, bool, type(None), tuple, frozenset, dict, list, set, range)
# Language-level constants of the standard library that repository code imports by name.
EXT_CONSTS = {
    'inspect.CO_VARARGS': 0x04, 'inspect.CO_VARKEYWORDS': 0x08, 'inspect.CO_GENERATOR': 0x20,
    'inspect.CO_COROUTINE': 0x80, 'inspect.CO_ITERABLE_COROUTINE': 0x100, 'inspect.CO_ASYNC_GENERATOR': 0x200,
    # compiler flags of the ast module
    'ast.PyCF_ONLY_AST': 0x400, 'ast.PyCF_TYPE_COMMENTS': 0x1000, 'ast.PyCF_ALLOW_TOP_LEVEL_AWAIT': 0x2000,
    'ast.PyCF_OPTIMIZED_AST': 0x8400,
}


class Folder:
    def __init__(self, repo: Repo, max_depth: int = 12):
        self.repo = repo
        self.max_depth = max_depth
        self._envs: dict[str, dict] = {}
        self._done: set[str] = set()
        self.strict = False                      # abstract interpretation mode: do not swallow aborts
        self.interpret_classes: set[str] = set()  # class quals whose __init__ is interpreted
        self.stubs: dict[str, object] = {}        # function qual -> python callable(env, args, kwargs)
        self.isinstance_hook = None
        self.builtin_hook = None
        self.ext_consts: dict[str, object] = dict(EXT_CONSTS)   # values of external names (language constants)
        self.ext_stubs: dict[str, object] = {}    # external callable name -> python callable(env, args, kwargs)

    # ------------------------------------------------------------------
    def module_env(self, modname: str) -> dict:
        if modname in self._envs:
            return self._envs[modname]
        m = self.repo.modules.get(modname)
        env: dict = {}
        self._envs[modname] = env
        if m is None:
            return env
        env['__name__'] = modname
        ex = _Env(self, m, env, env, depth=0)
        for st in m.raw_tree.body:
            try:
                ex.exec_stmt(st)
            except (_Abort, _Raise) as a:
                for nm in _assigned_names(st):
                    env[nm] = Unknown(f'{m.relpath}:{st.lineno}: {a}')
            except (_Return, _Break, _Continue):
                pass
        self._done.add(modname)
        return env

    def patch_global(self, modname: str, name: str, value):
        """Replace a module-level object by an abstract stand-in, in the defining module and in
        every module that already imported it."""
        env = self.module_env(modname)
        if name not in env:
            raise AnalysisError(f'anchor vanished: {modname}.{name}')
        old = env[name]
        env[name] = value
        if not isinstance(old, Unknown):
            for e in self._envs.values():
                for k, v in list(e.items()):
                    if v is old:
                        e[k] = value
        return old

    def value(self, modname: str, name: str):
        env = self.module_env(modname)
        if name not in env:
            return Unknown(f'{modname}.{name} is not defined at module level')
        return env[name]

    def const(self, modname: str, name: str):
        """Definite module-level value or ANALYSIS-ERROR (anchor vanished / unfoldable)."""
        self.repo.mod(modname)
        env = self.module_env(modname)
        if name not in env:
            raise AnalysisError(f'anchor vanished: {modname}.{name} is not defined')
        return need(env[name], f'{modname}.{name}')

    def eval_in(self, m: Module, expr: ast.AST, local: dict | None = None):
        env = _Env(self, m, self.module_env(m.name), dict(local or {}), depth=1)
        try:
            return env.ev(expr)
        except (_Abort, _Raise) as a:
            return Unknown(str(a))

    def call(self, fn: FuncVal, args=(), kwargs=None, depth=1):
        try:
            return _call_function(self, fn, list(args), dict(kwargs or {}), depth)
        except (_Abort, _Raise) as a:
            return Unknown(str(a))


def _assigned_names(st: ast.AST):
    out = []
    for n in ast.walk(st):
        if isinstance(n, ast.Name) and isinstance(n.ctx, ast.Store):
            out.append(n.id)
        elif isinstance(n, (ast.FunctionDef, ast.AsyncFunctionDef, ast.ClassDef)):
            out.append(n.name)
    return out


class _Env:
    def __init__(self, folder: Folder, module: Module, globs: dict, local: dict, depth: int,
                 qualprefix: str = ''):
        self.f, self.m, self.g, self.l, self.depth = folder, module, globs, local, depth
        self.qualprefix = qualprefix
        self.global_names: set[str] = set()
        self.is_class_body = False
        self.yields = None       # list collecting yielded values when a generator function is interpreted
        self.on_yield = None     # callback(value) run at `yield` when a context-manager generator is inlined
        self.owner = None        # ClassVal owning the method being interpreted (for super())
        self.self_name = None

    # -- names --------------------------------------------------------
    def lookup(self, name: str):
        if name in self.l and name not in self.global_names:
            return self.l[name]
        if name in self.g:
            return self.g[name]
        if name in _SAFE_BUILTINS or name in ('True', 'False', 'None'):
            return Sym('builtin', name)
        import builtins
        if hasattr(builtins, name):
            return Sym('builtin', name)
        if self.g.get('__star_ext__'):
            sm = self.g['__star_ext__'][-1]
            if (sm, name) == ('typing', 'TYPE_CHECKING'):
                return False
            return Sym('ext', f'{sm}.{name}')
        raise _Abort(f'name {name!r} is not bound')

    def store(self, name: str, v):
        if name in self.global_names:
            self.g[name] = v
        else:
            self.l[name] = v

    # -- statements ---------------------------------------------------
    def exec_block(self, stmts):
        for st in stmts:
            self.exec_stmt(st)

    def exec_stmt(self, st: ast.AST):
        if isinstance(st, ast.Expr):
            if isinstance(st.value, ast.Constant):
                return
            if isinstance(st.value, ast.Yield) and self.on_yield is not None:
                self.on_yield(self.ev(st.value.value) if st.value.value is not None else None)
                return
            if isinstance(st.value, ast.Yield) and self.yields is not None:
                self.yields.append(self.ev(st.value.value) if st.value.value is not None else None)
                return
            if isinstance(st.value, ast.YieldFrom) and self.yields is not None:
                v = self.ev(st.value.value)
                if isinstance(v, Unknown):
                    raise _Abort(f'yield from unknown: {v.reason}')
                self.yields.extend(v)
                return
            try:
                self.ev(st.value)
            except (_Abort, _Raise):
                if self.depth == 0:
                    return
                raise
        elif isinstance(st, ast.Assign):
            v = self._ev_or_unknown(st.value, st)
            for t in st.targets:
                self.assign(t, v)
        elif isinstance(st, ast.AnnAssign):
            if st.value is not None:
                self.assign(st.target, self._ev_or_unknown(st.value, st))
        elif isinstance(st, ast.AugAssign):
            cur = self.ev(_as_load(st.target))
            rhs = self.ev(st.value)
            if isinstance(cur, Unknown) or isinstance(rhs, Unknown):
                self.assign(st.target, Unknown('augmented assignment of unknown'))
            elif isinstance(cur, (list, set, dict)) and isinstance(st.op, (ast.Add, ast.BitOr)):
                if isinstance(cur, list):
                    cur.extend(rhs)
                else:
                    cur.update(rhs)
            else:
                self.assign(st.target, self.binop(st.op, cur, rhs))
        elif isinstance(st, (ast.Import, ast.ImportFrom)):
            self.exec_import(st)
        elif isinstance(st, (ast.FunctionDef, ast.AsyncFunctionDef)):
            q = f'{self.qualprefix}{st.name}'
            fv = FuncVal(self.m.name, q, st, closure=self.l if (self.depth and not self.is_class_body) else None)
            if self.depth and not self.is_class_body and st.decorator_list and getattr(self.f, 'apply_nested_decorators', False):
                # opt-in: decorators of functions defined inside interpreted functions are applied
                for d in reversed(st.decorator_list):
                    fv = self.apply(self.ev(d), [fv], {}, None)
            self.store(st.name, fv)
        elif isinstance(st, ast.ClassDef):
            self.store(st.name, ClassVal(self.m.name, f'{self.qualprefix}{st.name}', st, self.f))
        elif isinstance(st, ast.If):
            try:
                t = self.truth(self.ev(st.test))
            except _Abort as a:
                if self.depth == 0:
                    # unknown module-level condition: names assigned in either arm are unknown
                    for b in (st.body, st.orelse):
                        for s in b:
                            for nm in _assigned_names(s):
                                self.store(nm, Unknown(f'{self.m.relpath}:{st.lineno}: branch on unknown: {a}'))
                    return
                raise
            self.exec_block(st.body if t else st.orelse)
        elif isinstance(st, ast.For):
            it = self.ev(st.iter)
            if isinstance(it, Unknown):
                raise _Abort(f'iteration over unknown: {it.reason}')
            if isinstance(it, dict):
                it = list(it)
            elif isinstance(it, (set, frozenset)):
                it = sorted(it, key=repr)
            try:
                for x in it:
                    self.assign(st.target, x)
                    try:
                        self.exec_block(st.body)
                    except _Continue:
                        continue
                else:
                    self.exec_block(st.orelse)
            except _Break:
                pass
        elif isinstance(st, ast.While):
            n = 0
            try:
                while self.truth(self.ev(st.test)):
                    n += 1
                    if n > 10000:
                        raise _Abort('while loop bound')
                    try:
                        self.exec_block(st.body)
                    except _Continue:
                        continue
            except _Break:
                pass
        elif isinstance(st, ast.Return):
            raise _Return(self.ev(st.value) if st.value is not None else None)
        elif isinstance(st, ast.Pass):
            pass
        elif isinstance(st, ast.Break):
            raise _Break()
        elif isinstance(st, ast.Continue):
            raise _Continue()
        elif isinstance(st, ast.Global):
            self.global_names.update(st.names)
        elif isinstance(st, ast.Nonlocal):
            pass
        elif isinstance(st, ast.Delete):
            for t in st.targets:
                if isinstance(t, ast.Name):
                    self.l.pop(t.id, None) if t.id not in self.global_names else self.g.pop(t.id, None)
                elif isinstance(t, ast.Subscript):
                    o = self.ev(t.value)
                    k = self.ev(t.slice)
                    if isinstance(o, (dict, list)) and is_known(k):
                        try:
                            del o[k]
                        except Exception as ex:
                            raise _Abort(f'del failed: {ex}')
                    else:
                        raise _Abort('del on unknown')
        elif isinstance(st, ast.Try) and self.depth > 0 and getattr(self.f, 'faithful_try', False):
            # opt-in (rules that interpret protocols with cleanup): handlers catch interpreted raises, and the
            # finally clause runs on every exit — return, raise, break, continue
            try:
                try:
                    self.exec_block(st.body)
                except _Raise as r:
                    h = self._matching_handler(st.handlers, r)
                    if h is None:
                        raise
                    if h.name:
                        self.store(h.name, Inst('exception', (repr(r.what),)))
                    prev = getattr(self, '_handling', None)
                    self._handling = r
                    try:
                        self.exec_block(h.body)
                    finally:
                        self._handling = prev
                else:
                    self.exec_block(st.orelse)
            finally:
                if st.finalbody:
                    self.exec_block(st.finalbody)
        elif isinstance(st, ast.Try):
            # module-level ``try: import x  except ImportError:`` — take the body arm
            try:
                self.exec_block(st.body)
            except _Abort:
                if self.depth == 0:
                    for s in st.body:
                        for nm in _assigned_names(s):
                            self.store(nm, Unknown('try body not folded'))
                else:
                    raise
            else:
                self.exec_block(st.orelse)
            self.exec_block(st.finalbody)
        elif isinstance(st, ast.With) and self.depth > 0 and getattr(self.f, 'faithful_try', False) and len(st.items) == 1 \
                and self._contextmanager_call(st.items[0].context_expr) is not None:
            fv, args, kwargs = self._contextmanager_call(st.items[0].context_expr)
            it = st.items[0]

            def body(value, it=it, st=st):
                if it.optional_vars is not None:
                    self.assign(it.optional_vars, value)
                try:
                    self.exec_block(st.body)
                except (_Return, _Break, _Continue) as leave:
                    raise _BodyExit(leave)      # leaves the with statement *through* the generator's cleanup
            try:
                _call_function(self.f, fv, args, kwargs, self.depth + 1, on_yield=body)
            except _BodyExit as be:
                raise be.leave
        elif isinstance(st, ast.With):
            for it in st.items:
                v = self._ev_or_unknown(it.context_expr, st)
                if it.optional_vars is not None:
                    if isinstance(v, _WithValue):
                        self.assign(it.optional_vars, v.value)
                    else:
                        self.assign(it.optional_vars, Unknown('with target') if not isinstance(v, Unknown) else v)
            self.exec_block(st.body)
        elif isinstance(st, ast.Assert):
            # in abstract-interpretation mode an assertion that is *definitely* false stops the
            # interpreted code exactly like the real one; undecidable assertions are skipped
            if self.f.strict and self.depth > 0:
                try:
                    v = self.ev(st.test)
                    ok = True if isinstance(v, Unknown) else self.truth(v)
                except Exception:
                    ok = True
                if not ok:
                    raise _Raise('AssertionError', f'{self.m.relpath}:{st.lineno}')
        elif isinstance(st, ast.Raise):
            what = None
            if st.exc is None and getattr(self, '_handling', None) is not None:
                raise self._handling
            if st.exc is not None:
                f = st.exc.func if isinstance(st.exc, ast.Call) else st.exc
                try:
                    what = self.ev(f)
                except _Abort:
                    what = ast.unparse(f)
            raise _Raise(what, f'{self.m.relpath}:{st.lineno}')
        elif isinstance(st, ast.TypeAlias):
            for nm in _assigned_names(st):
                self.store(nm, Unknown('type alias'))
        else:
            raise _Abort(f'unsupported statement {type(st).__name__}')

    def _ev_or_unknown(self, e, st):
        try:
            return self.ev(e)
        except (_Abort, _Raise) as a:
            if self.f.strict and self.depth > 0:
                raise
            return Unknown(f'{self.m.relpath}:{getattr(st, "lineno", 0)}: {a}')

    def exec_import(self, st):
        for local, (sm, sn) in self.m.import_bindings(st).items():
            if sn == '*':
                if sm in self.f.repo.modules:
                    src = self.f.module_env(sm)
                    for k, v in src.items():
                        if not k.startswith('_'):
                            self.store(k, v)
                else:
                    self.g.setdefault('__star_ext__', []).append(sm)
                continue
            if sn is None:
                self.store(local, ModuleVal(sm, sm in self.f.repo.modules))
                continue
            if sm in self.f.repo.modules:
                src = self.f.module_env(sm)
                if sn in src:
                    self.store(local, src[sn])
                elif f'{sm}.{sn}' in self.f.repo.modules:
                    self.store(local, ModuleVal(f'{sm}.{sn}', True))
                else:
                    self.store(local, Unknown(f'{sm}.{sn} not (yet) defined (import cycle or missing)'))
            elif (sm, sn) == ('typing', 'TYPE_CHECKING'):
                self.store(local, False)
            elif f'{sm}.{sn}' in self.f.ext_consts:
                self.store(local, self.f.ext_consts[f'{sm}.{sn}'])
            else:
                self.store(local, Sym('ext', f'{sm}.{sn}'))

    def assign(self, t: ast.AST, v):
        if isinstance(t, ast.Name):
            self.store(t.id, v)
        elif isinstance(t, (ast.Tuple, ast.List)):
            if isinstance(v, Unknown):
                for e in t.elts:
                    self.assign(e, v)
                return
            try:
                vals = list(v)
            except TypeError:
                raise _Abort('unpacking non-iterable')
            stars = [i for i, e in enumerate(t.elts) if isinstance(e, ast.Starred)]
            if stars:
                # a, *rest, z = seq
                if len(stars) > 1 or len(vals) < len(t.elts) - 1:
                    raise _Abort('starred unpacking of a sequence that is too short')
                i = stars[0]
                after = len(t.elts) - i - 1
                for e, x in zip(t.elts[:i], vals[:i]):
                    self.assign(e, x)
                self.assign(t.elts[i].value, list(vals[i:len(vals) - after]))
                for e, x in zip(t.elts[i + 1:], vals[len(vals) - after:]):
                    self.assign(e, x)
                return
            if len(vals) != len(t.elts):
                raise _Abort('unpacking arity')
            for e, x in zip(t.elts, vals):
                self.assign(e, x)
        elif isinstance(t, ast.Subscript):
            o = self.ev(t.value)
            if isinstance(t.slice, ast.Slice):
                if t.slice.step is not None or not isinstance(o, list):
                    raise _Abort('slice store on unsupported object')
                lo = self.ev(t.slice.lower) if t.slice.lower else None
                hi = self.ev(t.slice.upper) if t.slice.upper else None
                if not all(x is None or isinstance(x, int) for x in (lo, hi)):
                    raise _Abort('slice store with non-integer bounds')
                o[lo:hi] = list(v)
                return
            k = self.ev(t.slice)
            if isinstance(o, (dict, list)) and is_known(k):
                try:
                    o[k] = v
                except Exception as ex:
                    raise _Abort(f'store failed: {ex}')
            elif isinstance(o, Unknown):
                pass
            elif isinstance(o, AObj) and hasattr(o, '__setitem__') and is_known(k):
                o[k] = v        # abstract stand-in with mapping behaviour
            else:
                raise _Abort('subscript store on unsupported object')
        elif isinstance(t, ast.Attribute):
            o = self.ev(t.value)
            if isinstance(o, _ObjVal):
                o.attrs[t.attr] = v
            elif isinstance(o, AObj) and getattr(o, '_track_attribute_stores', False):
                setattr(o, t.attr, v)      # abstract stand-ins that opt in (e.g. registry nodes)
            # attribute stores on anything else are ignored (not tracked)
        else:
            raise _Abort(f'unsupported target {type(t).__name__}')

    def _contextmanager_call(self, e):
        """(function, args, kwargs) when e calls a @contextmanager generator function of the repository, else None."""
        if not isinstance(e, ast.Call):
            return None
        try:
            fv = self.ev(e.func)
        except _Abort:
            return None
        if not (isinstance(fv, FuncVal) and any(d.split('.')[-1] == 'contextmanager' for d in fv.decorators())):
            return None
        if fv.qual in self.f.stubs:
            return None
        args = [self.ev(a) for a in e.args]
        kwargs = {k.arg: self.ev(k.value) for k in e.keywords if k.arg}
        return fv, args, kwargs

    def _matching_handler(self, handlers, r):
        """The handler of an interpreted try statement that catches the interpreted raise r (faithful_try mode)."""
        what = r.what
        wname = what.name if isinstance(what, (ClassVal,)) else (what.name if isinstance(what, Sym) else str(what))
        wname = wname.split('.')[-1]
        base_only = wname in ('GeneratorExit', 'KeyboardInterrupt', 'SystemExit', 'BaseException')
        for h in handlers:
            if h.type is None:
                return h
            types = h.type.elts if isinstance(h.type, ast.Tuple) else [h.type]
            for t in types:
                try:
                    tv = self.ev(t)
                except _Abort:
                    tv = Unknown('handler type')
                tname = (tv.name if isinstance(tv, (ClassVal, Sym)) else ast.unparse(t)).split('.')[-1]
                if tname == 'BaseException' or (tname == 'Exception' and not base_only) or tname == wname:
                    return h
                if isinstance(what, ClassVal) and isinstance(tv, ClassVal) and what.derives_from(tv):
                    return h
                if isinstance(what, ClassVal) and any(c.name == tname for c in what.mro() if isinstance(c, ClassVal)):
                    return h
        return None

    # -- expressions --------------------------------------------------
    def truth(self, v) -> bool:
        if isinstance(v, Unknown):
            raise _Abort(f'branch on unknown: {v.reason}')
        if isinstance(v, (Sym, Inst, FuncVal, ClassVal, ModuleVal, BoundMethod, _ObjVal, _PyCallable)):
            if isinstance(v, Sym) and v.kind == 'builtin' and v.name in ('None', 'False'):
                return False
            return True
        return bool(v)

    def binop(self, op, l, r):
        if isinstance(l, Unknown):
            return l
        if isinstance(r, Unknown):
            return r
        fn = _BINOPS.get(type(op))
        if fn is None:
            raise _Abort(f'operator {type(op).__name__}')
        if isinstance(op, ast.Mod) and isinstance(l, str):
            raise _Abort('%-formatting')
        try:
            return fn(l, r)
        except Exception as ex:
            raise _Abort(f'operator failed: {ex}')

    def ev(self, e: ast.AST):
        meth = getattr(self, 'ev_' + type(e).__name__, None)
        if meth is None:
            raise _Abort(f'unsupported expression {type(e).__name__}')
        return meth(e)

    def ev_Constant(self, e):
        return e.value

    def ev_Name(self, e):
        return self.lookup(e.id)

    def ev_NamedExpr(self, e):
        v = self.ev(e.value)
        self.assign(e.target, v)
        return v

    def ev_JoinedStr(self, e):
        out = []
        for v in e.values:
            if isinstance(v, ast.Constant):
                out.append(str(v.value))
            else:
                x = self.ev(v.value)
                if not is_known(x) or not isinstance(x, _CONCRETE):
                    raise _Abort('f-string over non-constant')
                if v.conversion == 114:
                    x = repr(x)
                elif v.conversion == 115:
                    x = str(x)
                spec = ''
                if v.format_spec is not None:
                    spec = self.ev(v.format_spec)
                out.append(format(x, spec))
        return ''.join(out)

    def ev_FormattedValue(self, e):
        raise _Abort('bare FormattedValue')

    def ev_BinOp(self, e):
        return self.binop(e.op, self.ev(e.left), self.ev(e.right))

    def ev_UnaryOp(self, e):
        v = self.ev(e.operand)
        if isinstance(e.op, ast.Not):
            return not self.truth(v)
        if isinstance(v, Unknown):
            return v
        if isinstance(e.op, ast.USub):
            return -v
        if isinstance(e.op, ast.UAdd):
            return +v
        if isinstance(e.op, ast.Invert):
            return ~v
        raise _Abort('unary')

    def ev_BoolOp(self, e):
        last = None
        for x in e.values:
            last = self.ev(x)
            t = self.truth(last)
            if isinstance(e.op, ast.And) and not t:
                return last
            if isinstance(e.op, ast.Or) and t:
                return last
        return last

    def ev_Compare(self, e):
        l = self.ev(e.left)
        for op, r_ in zip(e.ops, e.comparators):
            r = self.ev(r_)
            if isinstance(l, Unknown) or isinstance(r, Unknown):
                return Unknown('comparison with unknown')
            fn = _CMPOPS[type(op)]
            if isinstance(op, (ast.Is, ast.IsNot)):
                l2 = None if (isinstance(l, Sym) and l.kind == 'builtin' and l.name == 'None') else l
                r2 = None if (isinstance(r, Sym) and r.kind == 'builtin' and r.name == 'None') else r
                # an abstract stand-in may denote a builtin / external object (``_denotes``): identity with that object
                l2 = getattr(l2, '_denotes', l2) if isinstance(l2, AObj) and isinstance(r2, Sym) else l2
                r2 = getattr(r2, '_denotes', r2) if isinstance(r2, AObj) and isinstance(l2, Sym) else r2
                if isinstance(l2, Sym) and isinstance(r2, Sym):
                    res = (l2 == r2) if isinstance(op, ast.Is) else (l2 != r2)      # a name denotes one object
                else:
                    res = fn(l2, r2)
            else:
                try:
                    res = fn(l, r)
                except Exception as ex:
                    raise _Abort(f'comparison failed: {ex}')
            if not res:
                return False
            l = r
        return True

    def ev_IfExp(self, e):
        return self.ev(e.body) if self.truth(self.ev(e.test)) else self.ev(e.orelse)

    def ev_Tuple(self, e):
        return tuple(self._elts(e.elts))

    def ev_List(self, e):
        return list(self._elts(e.elts))

    def ev_Set(self, e):
        try:
            return set(self._elts(e.elts))
        except TypeError as ex:
            raise _Abort(f'unhashable set element: {ex}')

    def _elts(self, elts):
        out = []
        for x in elts:
            if isinstance(x, ast.Starred):
                v = self.ev(x.value)
                if isinstance(v, Unknown):
                    raise _Abort('star of unknown')
                out.extend(v)
            else:
                out.append(self.ev(x))
        return out

    def ev_Dict(self, e):
        d = {}
        for k, v in zip(e.keys, e.values):
            if k is None:
                x = self.ev(v)
                if not isinstance(x, dict):
                    raise _Abort('** of non-dict')
                d.update(x)
            else:
                kk = self.ev(k)
                if isinstance(kk, Unknown):
                    raise _Abort(f'unknown dict key: {kk.reason}')
                try:
                    d[kk] = self.ev(v) if not _is_heavy(v) else self._ev_or_unknown(v, v)
                except TypeError as ex:
                    raise _Abort(f'unhashable key: {ex}')
        return d

    def ev_Subscript(self, e):
        o = self.ev(e.value)
        if isinstance(o, Unknown):
            return o
        if isinstance(e.slice, ast.Slice):
            lo = self.ev(e.slice.lower) if e.slice.lower else None
            hi = self.ev(e.slice.upper) if e.slice.upper else None
            st = self.ev(e.slice.step) if e.slice.step else None
            k = slice(lo, hi, st)
        else:
            k = self.ev(e.slice)
        if isinstance(k, Unknown):
            return k
        if isinstance(o, _IndentTable):
            try:
                return o[k]
            except Exception as ex:
                raise _Abort(f'subscript failed: {ex!r}')
        if isinstance(o, (str, tuple, list, dict, range)):
            try:
                return o[k]
            except (KeyError, IndexError) as ex:
                if getattr(self.f, 'faithful_try', False) and is_known(k):
                    # the interpreted program would raise this very exception: its handlers may catch it
                    raise _Raise(type(ex).__name__, f'{self.m.relpath}:{getattr(e, "lineno", 0)}')
                raise _Abort(f'subscript failed: {ex!r}')
            except Exception as ex:
                raise _Abort(f'subscript failed: {ex!r}')
        if isinstance(o, AObj) and hasattr(o, '__getitem__'):
            return o[k]
        if isinstance(o, (Sym, ClassVal)):
            # typing-style subscription of an external / class object: symbolic
            return Sym('subscripted', f'{o!r}[{k!r}]')
        raise _Abort(f'subscript of {type(o).__name__}')

    def ev_Attribute(self, e):
        o = self.ev(e.value)
        return self.getattr(o, e.attr)

    def getattr(self, o, attr: str):
        if isinstance(o, Unknown):
            return o
        if isinstance(o, ModuleVal):
            if o.internal:
                env = self.f.module_env(o.name)
                if attr in env:
                    return env[attr]
                if f'{o.name}.{attr}' in self.f.repo.modules:
                    return ModuleVal(f'{o.name}.{attr}', True)
                raise _Abort(f'{o.name} has no attribute {attr}')
            if o.name == 'sys' and attr == 'version_info':
                return TARGET_VERSION
            return Sym('ext', f'{o.name}.{attr}')
        if isinstance(o, ClassVal):
            if o.is_enum():
                if attr in o.attrs:
                    return Sym('enum', f'{o.name}.{attr}')
            c = o
            seen = 0
            while c is not None and seen < 10:
                if attr in c.attrs:
                    v = c.attrs[attr]
                    return v
                nxt = None
                for b in c.node.bases:
                    try:
                        bv = _Env(self.f, self.f.repo.mod(c.module), self.f.module_env(c.module), {}, 1).ev(b)
                    except _Abort:
                        bv = None
                    if isinstance(bv, ClassVal):
                        nxt = bv
                        break
                c = nxt
                seen += 1
            if attr == '__name__':
                return o.name
            return Unknown(f'class attribute {o.name}.{attr}')
        if isinstance(o, _ObjVal):
            if attr in o.attrs:
                return o.attrs[attr]
            if attr == '__class__':
                return o.cls
            v = o.cls.find(attr)
            if v is _MISSING:
                raise _Abort(f'{o.cls.name} object has no attribute {attr}')
            if isinstance(v, FuncVal):
                decs = v.decorators()
                if 'property' in decs or any(d.endswith('property_cached') for d in decs):
                    return _call_function(self.f, v, [o], {}, self.depth + 1)
                if 'staticmethod' in decs:
                    return v
                return BoundMethod(o, v)
            return v
        if isinstance(o, _SuperVal):
            v = o.obj.cls.find(attr, after=o.owner)
            if v is _MISSING:
                if attr == '__init__':
                    return _NOOP
                raise _Abort(f'super() has no attribute {attr}')
            if isinstance(v, FuncVal):
                return BoundMethod(o.obj, v)
            return v
        if isinstance(o, Inst):
            v = o.get(attr, _MISSING)
            if v is not _MISSING:
                return v
            return Unknown(f'attribute {attr} of {o!r}')
        if isinstance(o, Sym):
            if o.kind == 'ext':
                return Sym('ext', f'{o.name}.{attr}')
            if o.kind == 'builtin' and o.name == 'dict' and attr == 'fromkeys':
                return _PyCallable(lambda it, value=None: dict.fromkeys(list(it), value))
            return Unknown(f'attribute {attr} of {o!r}')
        if isinstance(o, FuncVal):
            if attr == '__name__':
                return o.qualname.split('.')[-1]
            return Unknown(f'attribute {attr} of function')
        if isinstance(o, AObj):
            if attr == '__class__' and hasattr(o, '_abstract_type'):
                return o._abstract_type        # abstract stand-ins may name the (abstract) type they are instances of
            if hasattr(o, attr):
                v = getattr(o, attr)
                if callable(v) and not isinstance(v, (FuncVal, ClassVal)):
                    return _PyCallable(v)
                return v
            raise _Abort(f'abstract object {o!r} has no attribute {attr}')
        if isinstance(o, _CONCRETE) or isinstance(o, _IndentTable):
            if hasattr(o, attr):
                return BoundMethod(o, attr)
        raise _Abort(f'attribute {attr} of {type(o).__name__}')

    def ev_Lambda(self, e):
        return FuncVal(self.m.name, f'{self.qualprefix}<lambda:{e.lineno}>', e, closure=self.l)

    def _comp(self, gens, emit):
        def rec(i):
            if i == len(gens):
                emit()
                return
            g = gens[i]
            it = self.ev(g.iter)
            if isinstance(it, Unknown):
                raise _Abort('comprehension over unknown')
            if isinstance(it, (set, frozenset)):
                it = sorted(it, key=repr)
            for x in it:
                self.assign(g.target, x)
                if all(self.truth(self.ev(c)) for c in g.ifs):
                    rec(i + 1)
        saved = dict(self.l)
        try:
            rec(0)
        finally:
            # comprehension scope: drop loop variables
            for k in list(self.l):
                if k not in saved:
                    del self.l[k]
            self.l.update(saved)

    def ev_ListComp(self, e):
        out = []
        self._comp(e.generators, lambda: out.append(self.ev(e.elt)))
        return out

    def ev_GeneratorExp(self, e):
        return tuple(self.ev_ListComp(e))

    def ev_SetComp(self, e):
        out = set()
        self._comp(e.generators, lambda: out.add(self.ev(e.elt)))
        return out

    def ev_DictComp(self, e):
        out = {}

        def emit():
            out[self.ev(e.key)] = self.ev(e.value)
        self._comp(e.generators, emit)
        return out

    def ev_Starred(self, e):
        raise _Abort('starred')

    def ev_Call(self, e):
        fn = self.ev(e.func)
        args = []
        for a in e.args:
            if isinstance(a, ast.Starred):
                v = self.ev(a.value)
                if isinstance(v, Unknown):
                    raise _Abort('star-arg unknown')
                args.extend(v)
            else:
                args.append(self.ev(a))
        kwargs = {}
        for k in e.keywords:
            if k.arg is None:
                v = self.ev(k.value)
                if not isinstance(v, dict):
                    raise _Abort('**kwargs unknown')
                kwargs.update(v)
            else:
                kwargs[k.arg] = self.ev(k.value)
        return self.apply(fn, args, kwargs, e)

    def apply(self, fn, args, kwargs, e=None):
        if isinstance(fn, Unknown):
            if self.f.strict and self.depth > 0:
                raise _Abort(f'call of unknown callee {ast.unparse(e.func) if e is not None else "?"} ({fn.reason})')
            return Unknown(f'call of unknown ({fn.reason})')
        if isinstance(fn, Sym):
            if fn.kind == 'builtin':
                if self.f.builtin_hook is not None:
                    r = self.f.builtin_hook(fn.name, args, kwargs)
                    if r is not NotImplemented:
                        return r
                if fn.name == 'next' and args and isinstance(args[0], _Counter):
                    return args[0].next()
                if fn.name == 'super' and not args:
                    slf = self.l.get(self.self_name) if self.self_name else None
                    if isinstance(slf, _ObjVal) and self.owner is not None:
                        return _SuperVal(self.owner, slf)
                    return Unknown('super() outside an interpreted method')
                if fn.name == 'isinstance':
                    if self.f.isinstance_hook is not None and len(args) == 2:
                        r = self.f.isinstance_hook(args[0], args[1])
                        if r is not None:
                            return r
                    if len(args) == 2 and isinstance(args[0], _ObjVal) and isinstance(args[1], ClassVal):
                        return args[0].cls.derives_from(args[1])
                    if len(args) == 2 and isinstance(args[0], str) and args[1] == Sym('builtin', 'str'):
                        return True
                    return Unknown('isinstance')
                if fn.name == 'callable' and len(args) == 1:
                    return isinstance(args[0], (FuncVal, BoundMethod, ClassVal)) or Unknown('callable')
                if fn.name == 'object' and not args:
                    return Inst('object', (f'{self.m.relpath}:{getattr(e, "lineno", 0)}',))
                impl = _SAFE_BUILTINS.get(fn.name)
                if impl is None or not all(is_known(a) and isinstance(a, _CONCRETE + (_IndentTable,)) for a in args) \
                        or not all(is_known(a) for a in kwargs.values()):
                    if fn.name in ('frozenset', 'tuple', 'set', 'list', 'len', 'sorted', 'dict') and \
                            all(is_known(a) for a in args) and not kwargs:
                        try:
                            return _SAFE_BUILTINS[fn.name](*args)
                        except Exception as ex:
                            raise _Abort(f'{fn.name}() failed: {ex}')
                    return Unknown(f'builtin {fn.name} on symbolic arguments')
                try:
                    r = impl(*args, **kwargs)
                except Exception as ex:
                    raise _Abort(f'{fn.name}() failed: {ex}')
                if isinstance(r, (enumerate, zip, reversed)):
                    r = tuple(r)
                return r
            stub = self.f.ext_stubs.get(fn.name)
            if stub is not None:
                return stub(self, args, kwargs)
            if fn.name == 'itertools.count' and all(isinstance(a, int) for a in list(args) + list(kwargs.values())):
                return _Counter(*args, **kwargs)
            return Unknown(f'call of external {fn.name}')
        if isinstance(fn, BoundMethod):
            if isinstance(fn.name, FuncVal):  # method of an abstract object
                stub = self.f.stubs.get(fn.name.qual)
                if stub is not None:
                    return stub(self, [fn.obj] + args, kwargs)
                return _call_function(self.f, fn.name, [fn.obj] + args, kwargs, self.depth + 1)
            o = fn.obj
            if isinstance(o, str) and fn.name in ('format', 'format_map'):
                if not all(is_known(a) and isinstance(a, (str, int)) for a in list(args) + list(kwargs.values())):
                    return Unknown('str.format on symbolic arguments')
            if not all(is_known(a) for a in list(args) + list(kwargs.values())):
                if fn.name in ('append', 'add', 'update', 'extend', 'setdefault', 'insert'):
                    pass  # storing unknowns into containers is fine
                else:
                    return Unknown(f'method {fn.name} on unknown arguments')
            try:
                r = getattr(o, fn.name)(*args, **kwargs)
            except Exception as ex:
                if isinstance(o, str) and fn.name in ('format', 'format_map') and self.f.strict:
                    # the interpreted code would raise here too (missing / unknown template field)
                    raise _Raise(f'{type(ex).__name__}({ex}) from str.format of a code template',
                                 f'{self.m.relpath}:{getattr(e, "lineno", 0)}')
                raise _Abort(f'{type(o).__name__}.{fn.name}() failed: {ex!r}')
            if type(r).__name__ in ('dict_items', 'dict_keys', 'dict_values'):
                r = tuple(r)
            return r
        if fn is _NOOP:
            return None
        if isinstance(fn, _PyCallable):
            return fn.fn(*args, **kwargs)
        if isinstance(fn, FuncVal):
            stub = self.f.stubs.get(fn.qual)
            if stub is not None:
                return stub(self, args, kwargs)
            if self.depth >= self.f.max_depth:
                return Unknown('inlining depth')
            return _call_function(self.f, fn, args, kwargs, self.depth + 1)
        if isinstance(fn, ClassVal):
            return _construct(self, fn, args, kwargs, e)
        if isinstance(fn, AObj) and callable(fn):
            return fn(*args, **kwargs)       # an abstract stand-in that is itself callable (scripted user callables)
        raise _Abort(f'call of {type(fn).__name__}')


_MISSING = object()


def _is_heavy(v: ast.AST) -> bool:
    return isinstance(v, (ast.Call, ast.Lambda, ast.Attribute, ast.Subscript))


def _as_load(t: ast.AST) -> ast.AST:
    import copy
    t2 = copy.copy(t)
    t2.ctx = ast.Load()
    return t2


class _DictObj(dict):
    """Instance of a repository ``dict`` subclass whose ``__missing__`` is interpreted
    (the indentation table, the placeholder and pith-variable-name tables)."""

    def __init__(self, cls, folder, missing):
        super().__init__()
        self.cls, self._folder, self._missing = cls, folder, missing

    def __missing__(self, k):
        try:
            return _call_function(self._folder, self._missing, [self, k], {}, 2)
        except (_Abort, _Raise) as ex:
            raise KeyError(k) from ex

    def __repr__(self):
        return f'<{self.cls.name} {dict.__repr__(self)}>'


_IndentTable = _DictObj


class AObj:
    """Base class of analyser-level abstract objects (abstract hints, configurations):
    attribute access in interpreted code reads the Python attribute."""


def bind_call(fv, args, kwargs, skip_self=False):
    """{parameter name: argument} of a call of the repository function ``fv`` (a :class:`FuncVal`), however the caller
    spelled it (positionally or by keyword) — stubs written against parameter *names* stay valid when call sites change."""
    a_ = fv.node.args
    names = [x.arg for x in a_.posonlyargs + a_.args]
    if skip_self and names and names[0] in ('self', 'cls'):
        names = names[1:]
    out = dict(kwargs)
    for n_, v_ in zip(names, args):
        out.setdefault(n_, v_)
    return out


class DelegatingAObj(AObj):
    """An abstract stand-in for an instance of a repository class: attributes the stand-in does not script itself are
    the *real* methods of that class (``_real_class``, a :class:`ClassVal`), bound to the stand-in — so that a method
    under interpretation may call private helper methods of its own class, however the class is factored."""
    _real_class = None

    def __getattr__(self, name):
        rc = type(self)._real_class if '_real_class' not in self.__dict__ else self.__dict__['_real_class']
        if rc is None or name.startswith('__') and name.endswith('__') and name in ('__deepcopy__', '__getstate__', '__setstate__'):
            raise AttributeError(name)
        v = rc.find(name)
        if isinstance(v, FuncVal):
            decs = v.decorators()
            if 'staticmethod' in decs:
                return v
            if 'classmethod' in decs:
                return BoundMethod(rc, v)
            return BoundMethod(self, v)
        raise AttributeError(name)


class _Counter(AObj if 'AObj' in globals() else object):
    """``itertools.count(start, step)`` (module-level index counters of the repository)."""

    def __init__(self, start=0, step=1):
        self.n, self.step = start, step

    def next(self):
        v = self.n
        self.n += self.step
        return v


class _WithValue:
    """Result of a stubbed context-manager factory: ``with f() as x`` binds ``x`` to ``value``."""

    def __init__(self, value):
        self.value = value


class _SuperVal:
    def __init__(self, owner, obj):
        self.owner, self.obj = owner, obj


class _PyCallable:
    def __init__(self, fn):
        self.fn = fn


class _NoOp:
    def __repr__(self):
        return '<noop>'


_NOOP = _NoOp()


class _ObjVal:
    """Abstract instance of a repository class whose ``__init__`` was interpreted."""

    def __init__(self, cls: ClassVal):
        self.cls = cls
        self.attrs: dict = {}

    def __repr__(self):
        return f'<obj {self.cls.name}>'


def _construct(env: _Env, cls: ClassVal, args, kwargs, e):
    stub = env.f.stubs.get(cls.qual)
    if stub is not None:
        return stub(env, args, kwargs)
    bases = cls.base_names()
    if any(b == 'dict' or b.startswith('Dict') for b in bases):
        missing = cls.find('__missing__')
        if isinstance(missing, FuncVal) and not args and not kwargs:
            return _DictObj(cls, env.f, missing)
        if missing is _MISSING and all(is_known(a) for a in args) and not kwargs:
            try:
                return dict(*args)      # FrozenDict(...) and similar: a plain mapping is enough
            except Exception as ex:
                raise _Abort(f'{cls.name}(…) failed: {ex}')
        return Unknown(f'dict subclass {cls.name}')
    if cls.is_enum():
        return Unknown('enum call')
    if cls.qual in env.f.interpret_classes:
        obj = _ObjVal(cls)
        init = cls.find('__init__')
        if isinstance(init, FuncVal):
            _call_function(env.f, init, [obj] + list(args), dict(kwargs), env.depth + 1)
        return obj
    if not all(is_known(a) for a in list(args) + list(kwargs.values())):
        return Unknown(f'{cls.name}(…) with unknown arguments')
    try:
        hash(tuple(args))
        hash(tuple(kwargs.values()))
    except TypeError:
        return Unknown(f'{cls.name}(…) with unhashable arguments')
    site = f'{env.m.relpath}:{ast.unparse(e)[:80]}' if e is not None else ''
    return Inst(cls.qual, tuple(args), tuple(sorted(kwargs.items())), site)


def _call_function(folder: Folder, fn: FuncVal, args: list, kwargs: dict, depth: int, on_yield=None):
    if depth > folder.max_depth:
        return Unknown('inlining depth')
    node = fn.node
    m = folder.repo.mod(fn.module)
    local: dict = {}
    if fn.closure:
        local.update(fn.closure)
    a = node.args
    params = [p.arg for p in a.posonlyargs + a.args]
    defaults = a.defaults
    env = _Env(folder, m, folder.module_env(fn.module), local, depth, qualprefix=fn.qualname + '.')
    env.owner = fn.owner
    env.self_name = params[0] if (params and fn.owner is not None) else None
    if len(args) > len(params) and not a.vararg:
        raise _Abort('too many positional arguments')
    for p, v in zip(params, args):
        local[p] = v
    if a.vararg:
        local[a.vararg.arg] = tuple(args[len(params):])
    nd = len(defaults)
    for i, p in enumerate(params):
        if p in local and i < len(args):
            continue
        if p in kwargs:
            local[p] = kwargs.pop(p)
        else:
            j = i - (len(params) - nd)
            if j >= 0:
                local[p] = env._ev_or_unknown(defaults[j], node)
            else:
                raise _Abort(f'missing argument {p} in call of {fn.qual}')
    for p, d in zip(a.kwonlyargs, a.kw_defaults):
        if p.arg in kwargs:
            local[p.arg] = kwargs.pop(p.arg)
        elif d is not None:
            local[p.arg] = env._ev_or_unknown(d, node)
        else:
            raise _Abort(f'missing keyword argument {p.arg}')
    if a.kwarg:
        local[a.kwarg.arg] = dict(kwargs)
    elif kwargs:
        raise _Abort(f'unexpected keyword arguments {sorted(kwargs)}')
    if isinstance(node, ast.Lambda):
        return env.ev(node.body)
    is_gen = getattr(node, '_is_generator', None)
    if is_gen is None:
        from .flow import walk_shallow
        is_gen = any(isinstance(x, (ast.Yield, ast.YieldFrom)) for x in walk_shallow(node))
        node._is_generator = is_gen
    if is_gen and on_yield is not None:
        # a @contextmanager generator entered by a `with` statement: the body of the with statement runs at the yield
        env.on_yield = on_yield
        try:
            env.exec_block(node.body)
        except _Return:
            pass
        return None
    if is_gen:
        # a generator function is interpreted eagerly: the tuple of everything it yields
        env.yields = []
        try:
            env.exec_block(node.body)
        except _Return:
            pass
        return tuple(env.yields)
    try:
        env.exec_block(node.body)
    except _Return as r:
        return r.value
    except _Abort as a:
        if ' [in ' not in str(a):
            raise _Abort(f'{a} [in {fn.qual}]') from None
        raise
    return None
