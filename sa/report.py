"""Obligations, verdict protocol, known findings and evidence files.

Verdict protocol (DESIGN.md §2):

* exit 0  every obligation discharged, or the only failing ones are listed in
          ``known_findings.json`` (one ``KNOWN-FINDING:`` line each);
* exit 1  ``VIOLATION property=<id> replay=<path>`` — an obligation failed that is not a
          listed finding;
* exit 2  ``ANALYSIS-ERROR`` — anchor vanished / idiom not recognised / instance count
          below the floor confirmed by reading / the analyser raised.
"""
from __future__ import annotations

import json
import os
import time
from dataclasses import dataclass, field, asdict

from .repo import AnalysisError, Repo
from .fold import Folder

VERIF = os.path.dirname(os.path.dirname(os.path.abspath(__file__)))
KNOWN_FINDINGS = os.path.join(VERIF, 'known_findings.json')
EVIDENCE_DIR = os.path.join(VERIF, 'evidence')


@dataclass
class Ob:
    """One obligation of one rule on one construct."""
    rule: str      # 'C17.R1'
    key: str       # stable construct key (qualified names + normalised text; no line numbers)
    where: str     # file:line (reading aid only)
    desc: str      # what the rule requires of this construct
    ok: bool
    detail: str = ''   # what was found instead


class Ctx:
    """Everything a rule module needs for one run."""

    def __init__(self, prop: str, repo: Repo, tier: str = 'quick', seed: int = 0):
        self.prop = prop
        self.repo = repo
        self.folder = Folder(repo)
        self.tier = tier
        self.seed = seed
        self.obs: list[Ob] = []
        self.floors: dict[str, tuple[int, int]] = {}   # rule -> (matched, floor)
        self.notes: list[str] = []
        self.consulted: set[str] = set()
        self.assumptions: list[str] = []
        self.rules_doc: dict[str, str] = {}

    @property
    def thorough(self) -> bool:
        return self.tier == 'thorough'

    def rule(self, rid: str, doc: str) -> None:
        self.rules_doc[rid] = ' '.join(doc.split())

    def ob(self, rule: str, key: str, where: str, desc: str, ok: bool, detail: str = '') -> bool:
        self.obs.append(Ob(rule, key, where, ' '.join(desc.split()), bool(ok), ' '.join(str(detail).split())))
        rel = where.rsplit(':', 1)[0]
        if rel.endswith('.py'):
            self.consulted.add(rel)
        return bool(ok)

    def floor(self, rule: str, matched: int, floor: int, what: str) -> None:
        """Fail closed when a rule matched fewer instances than were confirmed by reading."""
        self.floors[rule] = (matched, floor)
        if matched < floor:
            raise AnalysisError(f'{rule}: matched {matched} {what}, fewer than the floor {floor} '
                                f'confirmed by reading — the rule no longer sees its instances')

    def require(self, cond, msg: str) -> None:
        if not cond:
            raise AnalysisError(msg)

    def assume(self, text: str) -> None:
        if text not in self.assumptions:
            self.assumptions.append(text)

    def note(self, text: str) -> None:
        self.notes.append(text)


# ---------------------------------------------------------------------------
def load_known(path: str = KNOWN_FINDINGS) -> dict:
    if not os.path.exists(path):
        return {'findings': [], 'fixed': []}
    with open(path) as fh:
        return json.load(fh)


def split_failures(prop: str, obs: list[Ob], known: dict):
    """(new violations, known findings hit)"""
    idx = {}
    for f in known.get('findings', []):
        if f['property'] == prop:
            idx[(f['rule'], f['key'])] = f
    new, hit = [], []
    for o in obs:
        if o.ok:
            continue
        f = idx.get((o.rule, o.key))
        if f is None:
            new.append(o)
        else:
            hit.append((o, f))
    return new, hit


def write_evidence(ctx: Ctx, wall: float, new, hit, extra: dict | None = None, status: str = 'ok',
                   evidence_dir: str = EVIDENCE_DIR) -> str:
    os.makedirs(evidence_dir, exist_ok=True)
    obs = ctx.obs
    by_rule: dict[str, dict] = {}
    for o in obs:
        r = by_rule.setdefault(o.rule, {'obligations': 0, 'discharged': 0})
        r['obligations'] += 1
        r['discharged'] += int(o.ok)
    for r, (m, fl) in ctx.floors.items():
        by_rule.setdefault(r, {'obligations': 0, 'discharged': 0}).update(instances=m, floor=fl)
    distinct = len({(o.rule, o.key) for o in obs})
    samples = []
    seen_rules = set()
    for o in obs:
        if o.rule not in seen_rules or not o.ok:
            seen_rules.add(o.rule)
            samples.append({'rule': o.rule, 'construct': o.key, 'where': o.where,
                            'required': o.desc, 'verdict': 'discharged' if o.ok else 'FAILED',
                            **({'found': o.detail} if o.detail else {})})
    samples = samples[:60]
    cov = {
        'explanation': ('Static analysis of the current working tree (pure ast; beartype is never '
                        'imported or executed). Rules applied: ' +
                        ' | '.join(f'{k}: {v}' for k, v in sorted(ctx.rules_doc.items()))),
        'evaluations': len(obs),
        'distinct_nontrivial': distinct,
        'rule': ('one evaluation = one obligation (rule x construct found in the source); an obligation is '
                 'distinct when its (rule, construct key) pair is, and non-trivial because every obligation '
                 'is attached to a construct actually matched in the analysed source (rules that match '
                 'fewer constructs than their floor abort the run as ANALYSIS-ERROR)'),
        'obligations': len(obs),
        'discharged': sum(o.ok for o in obs),
        'failed_known_findings': len(hit),
        'failed_new': len(new),
        'per_rule': by_rule,
        'samples': samples,
        'modules_parsed': len(ctx.repo.modules),
        'files_consulted': sorted(ctx.consulted),
        'digest_consulted': ctx.repo.digest([p for p in ctx.consulted if p in ctx.repo.by_relpath]),
        'known_findings_printed': [f['id'] + ': ' + f['what'] for _, f in hit],
        'notes': ctx.notes,
        'status': status,
        'exhaustive': False,
    }
    if extra:
        cov.update(extra)
    ev = {
        'property_id': ctx.prop,
        'tier': ctx.tier,
        'seed': ctx.seed,
        'level': 'other',
        'coverage': cov,
        'assumptions': ctx.assumptions,
        'wall_s': round(wall, 3),
        'violations': len(new),
    }
    path = os.path.join(evidence_dir, f'{ctx.prop}.json')
    tmp = path + '.tmp'
    with open(tmp, 'w') as fh:
        json.dump(ev, fh, indent=1, sort_keys=False, default=str)
    os.replace(tmp, path)
    return path


def write_replay(prop: str, new: list[Ob], evidence_dir: str = EVIDENCE_DIR) -> str:
    d = os.path.join(evidence_dir, 'replay')
    os.makedirs(d, exist_ok=True)
    path = os.path.join(d, f'{prop}.json')
    with open(path, 'w') as fh:
        json.dump({'property': prop, 'violations': [asdict(o) for o in new],
                   'how': f'./check {prop} --replay {path}   (re-runs the rules on the current tree and '
                          f'reports whether each listed obligation still fails)'}, fh, indent=1)
    return path
