"""Reference semantics of beartype's O(1) checks, as terms (see sa.terms).

For an abstract hint ``h`` and a path term ``p`` (which part of the checked object is
being tested) ``Spec.of(h, p)`` is the term a correct generator must produce:

* it accepts every object in [[h]]  — each container test is guarded by emptiness, each
  union is a disjunction of *all* members, nothing is tested that the hint does not say;
* it rejects what must be rejected  — the origin / length / literal / subclass /
  validator tests are conjoined, and the one item that is looked at is the item the
  strategy prescribes (random index for sequences under ``is_random``, first item for
  other re-iterables, every position of a fixed tuple);
* it only uses constant-time, read-only operations on the object.

The table ``FAMILY`` (which item-access strategy is *sound* for which kind of container)
is part of the specification and is held here, not read from the repository: a change
that files a one-shot iterator under the re-iterable production must disagree with it.
"""
from __future__ import annotations

import itertools

from .gen import AHint, ALiteral, AType, AValidator, sign_name
from .fold import Sym
from .terms import Terms

# sign name -> family.  One line of reason per family.
FAMILY = {}
for _n in ('List', 'MutableSequence', 'Sequence', 'Tuple'):
    FAMILY[_n] = 'sequence'      # random access by index is defined and O(1); len() is defined
for _n in ('AbstractSet', 'Collection', 'FrozenSet', 'KeysView', 'MutableSet', 'Set', 'ValuesView'):
    FAMILY[_n] = 'reiterable'    # sized and re-iterable but not indexable: only the first item is reachable in O(1)
FAMILY['Deque'] = 'deque'        # sized, re-iterable and indexable: first item or random index are both sound
for _n in ('Container', 'Iterable', 'Reversible'):
    FAMILY[_n] = 'quasi'         # may be a one-shot iterator: items may be touched only when it is a Collection
for _n in ('ChainMap', 'Counter', 'DefaultDict', 'Dict', 'Mapping', 'MutableMapping', 'OrderedDict'):
    FAMILY[_n] = 'mapping'
# One-shot or non-container signs: no item of the object may ever be touched (T5 of DESIGN-tables).
NEVER_ITERATE = frozenset((
    'Iterator', 'Generator', 'AsyncIterator', 'AsyncGenerator', 'AsyncIterable', 'Awaitable', 'Coroutine',
    'ContextManager', 'AsyncContextManager', 'Callable', 'Hashable', 'Sized', 'Match', 'Pattern',
    'ItemsView', 'MappingView', 'ByteString',
))


def objkey(o):
    from .fold import FuncVal
    if isinstance(o, FuncVal):
        return ('func', o.qual)
    if isinstance(o, AType):
        return ('type', o.name)
    if isinstance(o, AHint):
        return ('cls', o.label, id(o))
    if isinstance(o, ALiteral):
        return ('lit', o.name, id(o))
    if isinstance(o, Sym):
        return ('ext', o.name)
    if isinstance(o, (tuple, list, set, frozenset)):
        ks = frozenset(objkey(x) for x in o)
        if len(ks) == 1:
            return next(iter(ks))
        return ('types', ks)
    if isinstance(o, (str, int, float, bool, type(None))):
        return ('const', o)
    return ('other', repr(o))


def AND(*ts):
    out = []
    for t in ts:
        if t is None:
            continue
        if isinstance(t, tuple) and t and t[0] == 'and':
            out.extend(t[1:])
        else:
            out.append(t)
    return out[0] if len(out) == 1 else ('and', *out)


def OR(*ts, any_order=False):
    out = []
    for t in ts:
        if t is None:
            continue
        if isinstance(t, tuple) and t and t[0] in ('or', 'or_any'):
            out.extend(t[1:])
        else:
            out.append(t)
    if len(out) == 1:
        return out[0]
    return ('or_any' if any_order else 'or', *out)


def isinst(p, key):
    return ('call', 'isinstance', p, ('obj', key))


def empty(p):
    return ('not', ('call', 'len', p))


_VAL_CACHE: dict = {}


class SpecError(Exception):
    pass


def vcode(v) -> str:
    return v._is_valid_code if isinstance(v, AValidator) else v.attrs['_is_valid_code']


def vlocals(v) -> dict:
    return v._is_valid_code_locals if isinstance(v, AValidator) else v.attrs['_is_valid_code_locals']


def is_validator(v) -> bool:
    return isinstance(v, AValidator) or (hasattr(v, 'attrs') and '_is_valid_code' in getattr(v, 'attrs', {}))


class Spec:
    """mode='detect': the exact item-selection strategy is part of the term (C02);
    mode='accept': any in-bounds, non-consuming selection of an item is acceptable
    (``('item_any', p)``, matched against the selectors listed in :func:`match`) (C01)."""

    def __init__(self, gen, conf, random_var: str, mode: str = 'detect'):
        self.G = gen
        self.conf = conf
        self.random_var = random_var
        self.mode = mode

    # item paths ---------------------------------------------------------
    def item_rand(self, p):
        return ('sub', p, ('binop', '%', ('name', self.random_var), ('call', 'len', p)))

    @staticmethod
    def item_zero(p):
        return ('sub', p, ('const', 0))

    @staticmethod
    def item_first(p):
        return ('call', 'next', ('call', 'iter', p))

    def item_sequence(self, p):
        if self.mode == 'accept':
            return ('item_any', p)
        return self.item_rand(p) if self.conf.is_random else self.item_zero(p)

    def item_reiterable(self, p):
        if self.mode == 'accept':
            return ('item_any', p)
        return self.item_first(p)

    # ---------------------------------------------------------------------
    def of(self, h: AHint, p):
        """All acceptable terms for hint ``h`` applied to path ``p`` (usually exactly one)."""
        return list(self._of(h, p))

    def _of(self, h, p):
        if h.ignorable:
            raise SpecError(f'ignorable hint {h!r} has no check')
        if not h.is_pep:
            yield isinst(p, objkey(h))
            return
        name = sign_name(h.sign)
        kids = h.args
        if name in ('Union', 'Optional'):
            flat = self._flatten_union(h)
            if any(k.ignorable for k in flat):
                raise SpecError('union with an ignorable member is itself ignorable')
            nonpep = [k for k in flat if not k.is_pep]
            pep = [k for k in flat if k.is_pep]
            head = isinst(p, objkey(tuple(nonpep))) if nonpep else None
            for combo in itertools.product(*[self.of(k, p) for k in pep]):
                yield OR(head, *combo, any_order=True)
            return
        fam = FAMILY.get(name)
        if not kids and 'bases' not in h.extra:
            # unsubscripted PEP hint: shallow origin test
            yield isinst(p, objkey(h.origin))
            return
        if fam in ('sequence', 'reiterable', 'deque', 'quasi'):
            child = kids[0]
            origin = isinst(p, objkey(h.origin))
            if child.ignorable:
                yield origin
                return
            if fam == 'quasi':
                seq_item = self.item_sequence(p)
                first = self.item_reiterable(p)
                item = ('phi', seq_item, first) if self.mode == 'detect' else ('item_any', p)
                for c in self.of(child, item):
                    yield AND(origin, OR(
                        ('not', isinst(p, ('ext', 'collections.abc.Collection'))),
                        empty(p),
                        AND(OR(AND(isinst(p, ('ext', 'collections.abc.Sequence')), ('bind', seq_item)),
                               ('bind', first)), c)))
                return
            items = {'sequence': [self.item_sequence(p)], 'reiterable': [self.item_reiterable(p)],
                     'deque': [self.item_reiterable(p), self.item_sequence(p)]}[fam]
            if self.mode == 'accept':
                items = items[:1]
            for item in items:
                for c in self.of(child, item):
                    yield AND(origin, OR(empty(p), c))
            return
        if name == 'Pep484585TupleFixed':
            tup = ('call', 'isinstance', p, ('name', 'tuple'))
            if h.extra.get('tuple_empty'):
                yield AND(tup, ('not', p))
                return
            length = ('cmp', '==', ('call', 'len', p), ('const', len(kids)))
            parts = [self.of(k, ('sub', p, ('const', i))) for i, k in enumerate(kids) if not k.ignorable]
            for combo in itertools.product(*parts):
                yield AND(tup, length, *combo)
            return
        if fam == 'mapping':
            origin = isinst(p, objkey(h.origin))
            if name == 'Counter':
                key, value = kids[0], self.G.cls_int
            else:
                key, value = kids[0], kids[1]
            if key.ignorable and value.ignorable:
                yield origin
                return
            kpath = self.item_first(p)
            if not key.ignorable and not value.ignorable:
                for kc in self.of(key, kpath):
                    for vc in self.of(value, ('sub', p, kpath)):
                        yield AND(origin, OR(empty(p), AND(('bind', kpath), kc, vc)))
            elif not key.ignorable:
                for kc in self.of(key, kpath):
                    yield AND(origin, OR(empty(p), kc))
            else:
                vpath = ('call', 'next', ('call', 'iter', ('call', ('attr', p, 'values'))))
                for vc in self.of(value, vpath):
                    yield AND(origin, OR(empty(p), vc))
            return
        if name == 'Annotated':
            meta = h.extra['metahint']
            vals = h.extra['metadata']
            vterms = []
            for v in vals:
                if not is_validator(v):
                    raise SpecError('non-validator metadata')
                vterms.append(self.validator(v, p))
            metas = [None] if meta.ignorable else self.of(meta, p)
            for mt in metas:
                yield AND(mt, *vterms)
            return
        if name == 'Type':
            sup = h.extra['superclass']
            tp = ('call', 'isinstance', p, ('name', 'type'))
            if sup == Sym('builtin', 'object'):
                yield tp
            else:
                yield AND(tp, ('call', 'issubclass', p, ('obj', objkey(sup))))
            return
        if name == 'Pep484585GenericUnsubscripted':
            origin = isinst(p, objkey(h.origin))
            parts = [self.of(b, p) for b in h.extra['bases']]
            for combo in itertools.product(*parts):
                yield AND(origin, *combo)
            return
        if name == 'Literal':
            lits = h.extra['literals']
            types = isinst(p, ('types', frozenset(('type', f'type_of_{l.name}') for l in lits))
                           if len(lits) > 1 else ('type', f'type_of_{lits[0].name}'))
            yield AND(types, OR(*[('cmp', '==', p, ('obj', objkey(l))) for l in lits]))
            return
        raise SpecError(f'no reference semantics for sign {name} (subscripted)')

    def _flatten_union(self, h):
        out = []
        for k in h.args:
            if k.is_pep and sign_name(k.sign) in ('Union', 'Optional') and k.args:
                out.extend(self._flatten_union(k))
            else:
                out.append(k)
        return out

    def validator(self, v: AValidator, p):
        """The validator's own code with its subject replaced by ``p``."""
        ck = (id(v), p)
        hit = _VAL_CACHE.get(ck)
        if hit is not None and hit[0] is v:
            return hit[1]
        code = str.format(str(vcode(v)), obj='__beartype_pith_900', indent='')
        loc = vlocals(v)
        T = Terms(scope_key=lambda n: (objkey(loc[n]) if n in loc else None),
                  extra_bound={'__beartype_pith_900': p})
        t = T.of(code)
        if len(_VAL_CACHE) > 50000:
            _VAL_CACHE.clear()
        _VAL_CACHE[ck] = (v, t)
        return t


# ---------------------------------------------------------------------------
def match(spec, got) -> bool:
    """Structural equality, except that ``or_any`` accepts its operands in any order."""
    if isinstance(spec, tuple) and spec and spec[0] == 'or_any':
        if not (isinstance(got, tuple) and got and got[0] == 'or' and len(got) == len(spec)):
            return False
        rest = list(got[1:])
        return _perm(list(spec[1:]), rest)
    if isinstance(spec, tuple) and spec and spec[0] == 'item_any':
        return _is_item_of(got, spec[1])
    if isinstance(spec, tuple) and spec and spec[0] == 'bind' and isinstance(got, tuple) and got[:1] == ('bind',):
        return match(spec[1], got[1])
    if isinstance(spec, tuple) and isinstance(got, tuple):
        if len(spec) != len(got):
            return False
        return all(match(a, b) for a, b in zip(spec, got))
    return spec == got


def _is_item_of(got, pspec) -> bool:
    """``got`` selects one item of the sized container denoted by ``pspec`` without
    consuming it: ``p[<int> % len(p)]``, ``p[0]``, ``next(iter(p))`` or a phi of those."""
    if not isinstance(got, tuple) or not got:
        return False
    if got[0] == 'phi':
        return all(_is_item_of(g, pspec) for g in got[1:])
    if got[0] == 'sub' and match(pspec, got[1]):
        i = got[2]
        if i == ('const', 0):
            return True
        if isinstance(i, tuple) and i[:2] == ('binop', '%') and i[3] == ('call', 'len', got[1]) \
                and i[2][0] == 'name':
            return True
        return False
    if got[0] == 'call' and got[1] == 'next' and len(got) == 3 and isinstance(got[2], tuple) \
            and got[2][:2] == ('call', 'iter') and len(got[2]) == 3:
        return match(pspec, got[2][2])
    return False


def _perm(specs, gots) -> bool:
    if not specs:
        return not gots
    s = specs[0]
    for i, g in enumerate(gots):
        if match(s, g) and _perm(specs[1:], gots[:i] + gots[i + 1:]):
            return True
    return False


def first_difference(spec, got, path='') -> str:
    from .terms import show
    if isinstance(spec, tuple) and spec and spec[0] == 'or_any':
        if not (isinstance(got, tuple) and got and got[0] == 'or'):
            return f'at {path or "top"}: expected a disjunction {show(("or",) + spec[1:])[:150]}, got {show(got)[:150]}'
        if len(got) != len(spec):
            return (f'at {path or "top"}: expected a disjunction of {len(spec) - 1} alternatives, got {len(got) - 1}: '
                    f'{show(got)[:200]}')
        for s in spec[1:]:
            if not any(match(s, g) for g in got[1:]):
                return f'at {path or "top"}: no alternative equals {show(s)[:160]}; got {show(got)[:200]}'
        return f'at {path or "top"}: disjunction alternatives do not pair up'
    if isinstance(spec, tuple) and isinstance(got, tuple):
        if spec[:1] != got[:1] or len(spec) != len(got):
            return f'at {path or "top"}: expected {show(spec)[:200]}, got {show(got)[:200]}'
        for i, (a, b) in enumerate(zip(spec, got)):
            if not match(a, b):
                return first_difference(a, b, f'{path}/{spec[0]}[{i}]')
    return f'at {path or "top"}: expected {show(spec)[:200]}, got {show(got)[:200]}'
