"""Engine C: abstract interpretation of beartype's code generator.

``make_check_expr`` and its helper makers are *interpreted by the analyser* (sa.fold)
over a finite abstract domain — no beartype code runs and no real type hint exists:

* an abstract hint (:class:`AHint`) is a descriptor (sign, abstract children, PEP / non-PEP,
  ignorable or not); the hint-introspection functions of beartype
  (``get_hint_pep_args``, ``is_hint_pep``, ``sanify_hint_child`` …) are replaced by
  abstract transfer functions over that descriptor (table ``STUBS`` below);
* types placed in the wrapper scope become opaque identifiers ``__beartype_object_N``;
* everything else — the ``if``/``elif`` dispatch, template selection, ``.format`` calls,
  slicing off trailing connectives, the breadth-first placeholder substitution, the pith
  variable numbering of ``HintTreeCode`` / ``HintDataCode`` — is the repository's own
  source, interpreted statement by statement.

The result for one abstract hint tree is the string of Python code beartype would
generate for *every* concrete hint of that shape.  Rules then parse it and decide
hygiene, boolean skeleton, effect vocabulary and pith-variable def-use on the syntax tree.
Enumeration of shapes is trace partitioning over finite choices (child count ≤ bound,
child ∈ {ignorable, non-PEP class, PEP}, ``conf.is_random`` ∈ {True, False}); it is not
symbolic execution: no path condition is built or solved, every branch is decided by
evaluating its test on abstract values.
"""
from __future__ import annotations

import itertools
from dataclasses import dataclass, field

from .fold import (AObj, ClassVal, Folder, FuncVal, Inst, Sym, Unknown, _Abort, _ObjVal, _Raise,
                   _call_function)
from .repo import AnalysisError, Repo

SIGNS_MOD = 'beartype._data.hint.sign.datahintsigns'
SIGNSET_MOD = 'beartype._data.hint.sign.datahintsignset'
CODEMAIN = 'beartype._check.code.codemain'


def sign_name(s) -> str:
    if isinstance(s, Inst):
        return s.args[0] if s.args else s.get('name')
    return str(s)


class AType(AObj):
    """An opaque class object (origin type, literal type, scope attribute)."""

    def __init__(self, name: str, is_builtin: bool = False):
        self.name = name
        self.is_builtin = is_builtin       # a class of the builtins module (reachable by its bare name in any module)
        self.__dict__['__name__'] = name

    def __repr__(self):
        return f'<type {self.name}>'


class ALiteral(AObj):
    def __init__(self, name: str):
        self.name = name

    def __repr__(self):
        return f'<literal {self.name}>'


class AValidator(AObj):
    """An abstract ``BeartypeValidator``: only the two attributes the generator reads."""

    def __init__(self, code: str, locals_: dict | None = None, label: str = ''):
        self._is_valid_code = code
        self._is_valid_code_locals = dict(locals_ or {})
        self.label = label or code

    def __repr__(self):
        return f'<validator {self.label}>'


class AHint(AObj):
    def __init__(self, label: str, sign=None, args: tuple = (), *, is_pep: bool = True,
                 ignorable: bool = False, origin: str | None = None, is_type: bool = False, **extra):
        self.label, self.sign, self.args = label, sign, tuple(args)
        self.is_pep, self.ignorable, self.is_type = is_pep, ignorable, is_type
        self.origin = AType(origin or f'origin_of_{label}')
        self.extra = extra

    def __repr__(self):
        return f'<hint {self.label}>'

    def shape(self) -> str:
        if not self.args:
            return self.label
        return f'{self.label}[{", ".join(a.shape() if isinstance(a, AHint) else repr(a) for a in self.args)}]'


class ASane(AObj):
    def __init__(self, hint: AHint):
        self.hint = hint
        self.is_check_expr_cacheable = True
        self.typearg_to_hint = {}
        self.hint_recursable_to_depth = {}

    def __repr__(self):
        return f'<sane {self.hint!r}>'


class AFrozenDict(AObj):
    """Abstract empty ``FrozenDict`` (hashable, every lookup misses)."""

    def get(self, key, default=None):
        return default

    def __contains__(self, key):
        return False

    def __len__(self):
        return 0

    def __iter__(self):
        return iter(())

    def __repr__(self):
        return '<FrozenDict {}>'


class AConf(AObj):
    def __init__(self, is_random: bool = True, strategy=None, **kw):
        self.is_random = is_random
        self.strategy = strategy
        self.is_debug = False
        self.hint_overrides = AFrozenDict()
        self.is_pep484_tower = False
        self.is_color = None
        for k, v in kw.items():
            setattr(self, k, v)

    def __repr__(self):
        return f'<conf is_random={self.is_random}>'


class ANoneTypeOr(AObj):
    """``NoneTypeOr[T]``: the tuple ``(NoneType, T)`` used in ``isinstance`` tests."""

    def __getitem__(self, cls):
        return ('NoneTypeOr', cls)


class ACall(AObj):
    def __repr__(self):
        return '<call metadata>'


@dataclass
class GenResult:
    hint: AHint
    conf: AConf
    code: str | None = None
    scope: dict = field(default_factory=dict)
    raised: object = None          # class value / text of an interpreted ``raise``
    raised_where: str = ''
    children: list = field(default_factory=list)   # (pith_expr, child hint) in enqueue order
    children_sane: list = field(default_factory=list)   # the sanified-hint objects enqueued, same order
    is_random_needed: bool | None = None
    trace: list = field(default_factory=list)


class Generator:
    """Interprets ``make_check_expr`` for abstract hints."""

    def __init__(self, repo: Repo, folder: Folder | None = None):
        self.repo = repo
        self.f = folder or Folder(repo)
        self.f.strict = True
        self.f.max_depth = 40
        self._n = 0
        self._builtin_cls: dict = {}
        self._cur: GenResult | None = None
        F = self.f
        F.interpret_classes |= {
            'beartype._check.cls.hint.tree.hinttreecode.HintTreeCode',
            'beartype._check.cls.hint.data.hintdatacode.HintDataCode',
            'beartype._check.cls.logic.logcls.HintLogicQuasiiterable',
            'beartype._check.cls.logic.logcls.HintLogicReiterable',
            'beartype._check.cls.logic.logcls.HintLogicSequence',
        }
        F.isinstance_hook = self._isinstance
        F.builtin_hook = self._builtin
        self._install_stubs()
        # the ignorable sentinel becomes an abstract object *before* any module imports it
        hs_env = F.module_env('beartype._check.cls.hint.hintsane')
        if 'HINT_SANE_IGNORABLE' not in hs_env:
            raise AnalysisError('anchor vanished: HINT_SANE_IGNORABLE')
        old_ign = hs_env['HINT_SANE_IGNORABLE']
        ign = ASane(AHint('IGNORABLE', None, (), ignorable=True))
        hs_env['HINT_SANE_IGNORABLE'] = ign
        for mn, env in F._envs.items():
            for k, v in env.items():
                if v is old_ign and not isinstance(old_ign, Unknown):
                    env[k] = ign
        F.patch_global('beartype._cave._cavemap', 'NoneTypeOr', ANoneTypeOr())
        # anchors
        self.make_check_expr = F.const(CODEMAIN, 'make_check_expr')
        if not isinstance(self.make_check_expr, FuncVal):
            raise AnalysisError(f'anchor vanished: {CODEMAIN}.make_check_expr is not a function')
        self.IGNORABLE = F.const('beartype._check.cls.hint.hintsane', 'HINT_SANE_IGNORABLE')
        self.signs = {k: v for k, v in F.module_env(SIGNS_MOD).items()
                      if k.startswith('HintSign') and isinstance(v, Inst)}
        if len(self.signs) < 80:
            raise AnalysisError(f'only {len(self.signs)} hint signs folded (floor 80)')

    # ------------------------------------------------------------------
    def sign(self, name: str):
        v = self.signs.get(name)
        if v is None:
            raise AnalysisError(f'anchor vanished: sign {name}')
        return v

    def signset(self, name: str) -> frozenset:
        v = self.f.const(SIGNSET_MOD, name)
        if not isinstance(v, frozenset):
            raise AnalysisError(f'{SIGNSET_MOD}.{name} is not a frozenset')
        return v

    def _isinstance(self, obj, cls):
        if isinstance(cls, tuple) and cls[:1] == ('NoneTypeOr',):
            if obj is None or obj == Sym('builtin', 'None'):
                return True
            r = self.f.isinstance_hook(obj, cls[1])
            if r is None and isinstance(obj, (str, int, tuple, dict, list, bool)) and isinstance(cls[1], Sym):
                import builtins
                t = getattr(builtins, cls[1].name, None)
                return isinstance(obj, t) if isinstance(t, type) else None
            return r
        if isinstance(obj, AHint):
            if cls == Sym('builtin', 'type'):
                return obj.is_type
            if isinstance(cls, ClassVal) and cls.name == 'BeartypeValidator':
                return False
        if isinstance(obj, AValidator):
            if isinstance(cls, ClassVal) and cls.name == 'BeartypeValidator':
                return True
        if isinstance(obj, AType) and cls == Sym('builtin', 'type'):
            return True
        if isinstance(obj, (dict, list, tuple, str, int, set, frozenset)) and isinstance(cls, Sym) and cls.kind == 'builtin':
            import builtins
            t = getattr(builtins, cls.name, None)
            if isinstance(t, type):
                return isinstance(obj, t)
        if isinstance(obj, (dict, set, frozenset, tuple)) and isinstance(cls, Sym) and cls.name.endswith('.Set'):
            return isinstance(obj, (set, frozenset))
        if isinstance(obj, AObj) and isinstance(cls, Sym) and cls.kind == 'builtin':
            return False      # abstract objects are instances of no builtin container / scalar type
        if isinstance(obj, _ObjVal) and isinstance(cls, Sym) and cls.kind == 'builtin' and cls.name != 'object':
            return False
        return None

    def _builtin(self, name, args, kwargs):
        if name == 'type' and len(args) == 1 and isinstance(args[0], AObj):
            return AType(f'type_of_{getattr(args[0], "name", args[0])}')
        if name == 'repr' and len(args) == 1 and not isinstance(args[0], (str, int, tuple)):
            return f'<repr of {args[0]!r}>'
        return NotImplemented

    # ------------------------------------------------------------------
    def _scope_name(self, obj) -> str:
        self._n += 1
        return f'__beartype_object_{self._n}'

    def _install_stubs(self):
        S = self.f.stubs
        G = self

        def arg(args, kwargs, i, name):
            if name in kwargs:
                return kwargs[name]
            return args[i]

        def add_scope(env, args, kwargs):
            tree = arg(args, kwargs, 0, 'hint_tree')
            obj = arg(args, kwargs, 1, 'type_or_types')
            if obj == Sym('builtin', 'object') or (isinstance(obj, AType) and obj.name == 'builtin:tuple'):
                pass
            nm = G._scope_name(obj)
            scope = tree.attrs.get('func_wrapper_locals') if isinstance(tree, _ObjVal) else None
            if isinstance(scope, dict):
                scope[nm] = obj
            return nm

        def add_attr(env, args, kwargs):
            obj = arg(args, kwargs, 0, 'attr')
            scope = arg(args, kwargs, 1, 'func_scope')
            nm = G._scope_name(obj)
            if isinstance(scope, dict):
                scope[nm] = obj
            return nm

        def sanify(env, args, kwargs):
            h = kwargs.get('hint', args[2] if len(args) > 2 else None)
            if isinstance(h, Sym) and h.kind == 'builtin':
                # a builtin class used as a child hint (e.g. the ``int`` values of ``Counter``)
                h = G.builtin_cls(h.name)
            if not isinstance(h, AHint):
                raise _Abort(f'sanify_hint_child on non-abstract hint {h!r}')
            if h.ignorable:
                return G.IGNORABLE
            red = h.extra.get('reduces_to')
            if red is not None:
                # a member that sanifies to another hint plus a type-variable table (a parametrised user generic)
                s_ = ASane(red[0])
                s_.typearg_to_hint = dict(red[1])
                s_.passed_parent = kwargs.get('hint_parent_sane')
                return s_
            s_ = ASane(h)
            s_.passed_parent = kwargs.get('hint_parent_sane')      # under which parent metadata the child was sanified
            return s_

        def acquire(env, args, kwargs):
            c = arg(args, kwargs, 0, 'cls')
            if isinstance(c, ClassVal):
                return env.apply(c, [], {})
            if c == Sym('builtin', 'dict'):
                return {}
            if c == Sym('builtin', 'list'):
                return []
            if c == Sym('builtin', 'set'):
                return set()
            raise _Abort(f'acquire_instance({c!r})')

        def pep_args(env, args, kwargs):
            h = arg(args, kwargs, 0, 'hint')
            return tuple(h.args) if isinstance(h, AHint) else ()

        def origin(env, args, kwargs):
            h = arg(args, kwargs, 0, 'hint')
            return h.origin

        def scope_cls(env, args, kwargs):
            if G._cur is not None and args and isinstance(args[0], dict):
                G._cur.scope = dict(args[0])
            return Inst('BeartypeCheckExprScope', (), ())

        S.update({
            'beartype._check.code.codescope.add_hints_meta_scope_type_or_types': add_scope,
            'beartype._util.func.utilfuncscope.add_func_scope_attr': add_attr,
            'beartype._check.convert.convmain.sanify_hint_child': sanify,
            'beartype._util.cache.pool.utilcachepoolinstance.acquire_instance': acquire,
            'beartype._util.cache.pool.utilcachepoolinstance.release_instance': lambda e, a, k: None,
            'beartype._util.cache.pool.utilcachepoollistfixed.FixedList':
                lambda e, a, k: [None] * int(k.get('size', a[0] if a else 0)),
            'beartype._util.hint.pep.utilpeptest.is_hint_pep':
                lambda e, a, k: bool(isinstance(arg(a, k, 0, 'hint'), AHint) and arg(a, k, 0, 'hint').is_pep),
            'beartype._util.hint.pep.utilpeptest.die_if_hint_pep_unsupported': lambda e, a, k: None,
            # whether an (abstract) class is a builtin is a property of the abstract class
            'beartype._util.cls.utilclstest.is_type_builtin':
                lambda e, a, k: bool(getattr(arg(a, k, 0, 'cls'), 'is_builtin', False)),
            'beartype._util.hint.utilhinttest.die_as_hint_unsupported': self._raise_stub('BeartypeDecorHintNonpepException'),
            'beartype._util.hint.pep.utilpepget.get_hint_pep_args': pep_args,
            'beartype._util.hint.pep.utilpepget.get_hint_pep_origin_type_isinstanceable': origin,
            'beartype._util.hint.pep.utilpepsign.get_hint_pep_sign_or_none':
                lambda e, a, k: (arg(a, k, 0, 'hint').sign if isinstance(arg(a, k, 0, 'hint'), AHint) else None),
            'beartype._util.hint.pep.proposal.pep484585.pep484585args.get_hint_pep484585_arg':
                lambda e, a, k: arg(a, k, 0, 'hint').args[0],
            'beartype._util.hint.pep.proposal.pep484585.pep484585args.get_hint_pep484585_args':
                lambda e, a, k: tuple(arg(a, k, 0, 'hint').args),
            'beartype._util.hint.pep.proposal.pep646.pep484585646tuple.is_hint_pep484585646_tuple_empty':
                lambda e, a, k: bool(arg(a, k, 0, 'hint').extra.get('tuple_empty')),
            'beartype._util.hint.pep.proposal.pep586.get_hint_pep586_literals':
                lambda e, a, k: tuple(arg(a, k, 0, 'hint').extra['literals']),
            'beartype._util.hint.pep.proposal.pep593.get_hint_pep593_metahint':
                lambda e, a, k: arg(a, k, 0, 'hint').extra['metahint'],
            'beartype._util.hint.pep.proposal.pep593.get_hint_pep593_metadata':
                lambda e, a, k: tuple(arg(a, k, 0, 'hint').extra['metadata']),
            'beartype._check.pep.pep484585.checkpep484585subclass.get_hint_pep484585_subclass_hint_child_sanified':
                lambda e, a, k: a[0].attrs['hint_curr'].attrs['hint_sane'].hint.extra['superclass'],
            'beartype._check.pep.pep484585.checkpep484585generic.get_hint_pep484585_generic_unsubbed_bases_unerased':
                lambda e, a, k: tuple((ASane(b), b.sign) for b in a[1].hint.extra['bases']),
            'beartype._util.hint.pep.proposal.pep484585.generic.pep484585genget.get_hint_pep484585_generic_unsubbed_type_isinstanceable':
                lambda e, a, k: arg(a, k, 0, 'hint').origin,
            'beartype._check.cls.scope.checkexprscope.BeartypeCheckExprScope': scope_cls,
            'beartype._util.text.utiltextrepr.represent_object': lambda e, a, k: '<repr>',
        })
        # a stub that needs a part of the abstract hint that this hint does not have (e.g. the
        # metahint of an unsubscripted ``Annotated``) corresponds to a malformed hint, for which
        # the real introspection helpers raise their decoration-time exception
        def guard(fn):
            def g(env, a, k):
                try:
                    return fn(env, a, k)
                except (KeyError, IndexError, AttributeError) as ex:
                    raise _Raise(f'malformed-hint({type(ex).__name__}: {ex})', 'abstract hint introspection')
            return g
        for q in list(S):
            if '.hint.' in q or 'checkpep' in q:
                S[q] = guard(S[q])
        # type(x) of a literal value, used for the Literal production
        self._builtin_type = lambda x: AType(f'type_of_{getattr(x, "name", x)}')

    def _raise_stub(self, name):
        def stub(env, args, kwargs):
            raise _Raise(name, 'stub')
        return stub

    # ------------------------------------------------------------------
    def run(self, hint: AHint, conf: AConf | None = None) -> GenResult:
        conf = conf or AConf()
        res = GenResult(hint, conf)
        self._cur = res
        tree_holder = {}
        # observe HintTreeCode.enqueue_hint_child_sane to learn the (pith_expr, child) pairs
        enq_q = 'beartype._check.cls.hint.tree.hinttreecode.HintTreeCode.enqueue_hint_child_sane'
        enq = self.f.const('beartype._check.cls.hint.tree.hinttreecode', 'HintTreeCode').find('enqueue_hint_child_sane')

        def enq_stub(env, args, kwargs):
            tree_holder['tree'] = args[0]
            hs = kwargs.get('hint_sane', args[1] if len(args) > 1 else None)
            pe = kwargs.get('pith_expr', args[2] if len(args) > 2 else None)
            res.children.append((pe, getattr(hs, 'hint', hs)))
            res.children_sane.append(hs)
            return _call_function(self.f, enq, args, kwargs, env.depth + 1)
        self.f.stubs[enq_q] = enq_stub
        type_q = None
        try:
            out = self._call(self.make_check_expr, [ACall(), conf, ASane(hint)])
            if isinstance(out, tuple) and out and isinstance(out[0], str):
                res.code = out[0]
            elif isinstance(out, Unknown):
                raise AnalysisError(f'abstract interpretation of make_check_expr({hint.shape()}) '
                                    f'stopped: {out.reason}')
            else:
                raise AnalysisError(f'make_check_expr({hint.shape()}) returned {out!r}')
        except _Raise as r:
            res.raised = r.what
            res.raised_where = r.where
        except _Abort as a:
            raise AnalysisError(f'abstract interpretation of make_check_expr({hint.shape()}) stopped: {a}')
        finally:
            self.f.stubs.pop(enq_q, None)
            self._cur = None
        tree = tree_holder.get('tree')
        if res.scope:
            res.is_random_needed = any(v == Sym('ext', 'random.getrandbits') for v in res.scope.values())
        return res

    def _call(self, fn: FuncVal, args):
        return _call_function(self.f, fn, list(args), {}, 1)

    def builtin_cls(self, name: str) -> AHint:
        c = self._builtin_cls.get(name)
        if c is None:
            c = self._builtin_cls[name] = AHint(name, None, (), is_pep=False, is_type=True, origin=name)
            c._denotes = Sym('builtin', name)
        return c

    # -- abstract hint constructors ------------------------------------
    def cls(self, name='C') -> AHint:
        """A plain class used as a hint (non-PEP)."""
        return AHint(name, None, (), is_pep=False, is_type=True, origin=name)

    def ignorable(self) -> AHint:
        return AHint('Ignorable', self.sign('HintSignAny'), (), ignorable=True)

    def shallow(self, sign_name_: str) -> AHint:
        return AHint(sign_name_.replace('HintSign', ''), self.sign(sign_name_), ())

    def subscripted(self, sign_name_: str, *children, **extra) -> AHint:
        return AHint(sign_name_.replace('HintSign', ''), self.sign(sign_name_), children, **extra)

    def union(self, *children) -> AHint:
        return self.subscripted('HintSignUnion', *children)

    def tuple_fixed(self, *children) -> AHint:
        return self.subscripted('HintSignPep484585TupleFixed', *children, tuple_empty=not children)

    def mapping(self, key, value, sign='HintSignDict') -> AHint:
        return self.subscripted(sign, key, value)

    def annotated(self, metahint, *validators) -> AHint:
        return self.subscripted('HintSignAnnotated', metahint, *validators,
                                metahint=metahint, metadata=validators)

    def type_of(self, superclass) -> AHint:
        return self.subscripted('HintSignType', self.cls('Super'), superclass=superclass)

    def generic(self, *bases) -> AHint:
        return AHint('Generic', self.sign('HintSignPep484585GenericUnsubbed'), (), bases=bases)

    def literal(self, *names) -> AHint:
        lits = tuple(ALiteral(n) for n in names)
        return self.subscripted('HintSignLiteral', *lits, literals=lits)
