"""C03 — the entry points agree; rejections are the configured violation.

R1  dispatch agreement, exhaustive over the sign universe × {subscripted, unsubscripted}:
    whenever the generator emits a check, the explanation path selects the finder that
    re-implements that production;
R2  generator and explanation path share one logic object per container family;
R3  re-sampling agreement: the item the explanation path looks at is the item the
    generated code looked at (same expression under ``is_random`` / not);
R4  exception class and raise-vs-warn selection is total and consistent per pith kind;
R5  the object-oriented API delegates to the procedural one; each memo table has its own
    code factory;
R6  the private "desynchronisation" raise sites on the explanation path are the reviewed ones.
"""
from __future__ import annotations

import ast

from sa.astutil import dotted
from sa.flow import walk_shallow
from sa.fold import AObj, FuncVal, Sym, _ObjVal, _Abort, _Raise, _call_function
from sa.gen import AConf, sign_name
from sa.repo import norm, qualname_of, enclosing_function
from sa.spec import FAMILY
from sa.terms import show

from . import _gen, _wrap
from .c02 import _guards


class ATerm(AObj):
    """A symbolic value: operations on it build a term (used to read off which item of the
    checked object the explanation path selects)."""

    def __init__(self, t):
        self.t = t

    def __getitem__(self, k):
        return ATerm(('sub', self.t, _t(k)))

    def __mod__(self, o):
        return ATerm(('binop', '%', self.t, _t(o)))

    def __rmod__(self, o):
        return ATerm(('binop', '%', _t(o), self.t))

    def _bin(op):
        return (lambda self, o: ATerm(('binop', op, self.t, _t(o)))), (lambda self, o: ATerm(('binop', op, _t(o), self.t)))
    __add__, __radd__ = _bin('+')
    __sub__, __rsub__ = _bin('-')
    __mul__, __rmul__ = _bin('*')
    __floordiv__, __rfloordiv__ = _bin('//')
    __and__, __rand__ = _bin('&')
    del _bin

    def __repr__(self):
        return f'<term {show(self.t)}>'

    def items(self):
        return ATerm(('call', ('attr', self.t, 'items')))

    def values(self):
        return ATerm(('call', ('attr', self.t, 'values')))

    def keys(self):
        return ATerm(('call', ('attr', self.t, 'keys')))


_BUILTIN_SEQUENCES = {'list', 'tuple', 'str', 'bytes', 'bytearray', 'range', 'memoryview'}


def _t(v):
    if isinstance(v, ATerm):
        return v.t
    if isinstance(v, (int, str, bool, type(None))):
        return ('const', v)
    return ('other', repr(v))


class ACause(AObj):
    def __init__(self, conf, seq):
        self.pith = ATerm(('root',))
        self.conf = conf
        self.random_int = ATerm(('name', 'RANDOM'))
        self.is_sequence = seq


# T3 of DESIGN-tables: reviewed private-exception raise sites of the explanation path.
T3 = {
    'errmain.get_func_pith_violation': 'parameter not in the annotations mapping: the wrapper only names annotated parameters',
    'errmain.<cause-entry>#contract': 'neither / both of pith_name and exception_prefix: caller contract of the two violation templates (at most two sites; behaviour decided by the interpreted caller-contract obligations)',
    'errmain.<cause-entry>#desync': 'no cause found: the desynchronisation raise itself (what R1–R3 make unreachable)',
    'errnonpeptype.find_cause_type_instance_origin': 'hint without isinstanceable origin: dispatch sends only origin-isinstanceable signs here (R1)',
    'errpep593.find_cause_pep593_annotated': 'metadata item not a validator: the generator raises the public decoration-time exception first',
    'errpep484585container.find_cause_pep484585_container_args_1': 'no logic for sign (R2)',
    'errpep484604.find_cause_pep484604_union': 'no child produced a cause: children are the generator\'s own disjuncts',
    'hinttreeerror.HintTreeError.find_cause': 'no finder for sign (R1)',
}


def run(ctx):
    G, V, cat, GC = _gen.engines(ctx)
    F = G.f
    rows = _gen.dispatch(ctx)
    ERRMAP = 'beartype/_check/error/_errmap.py:0'

    # ---- R1 ----------------------------------------------------------------------
    ctx.rule('C03.R1', 'for each hint sign × {subscripted, unsubscripted} the generator (interpreted make_check_expr) '
             'and the explanation path (interpreted HintTreeError.find_cause over the folded '
             'HINT_SIGN_TO_GET_CAUSE_FUNC) are compared: generator emits production P ⇒ the selected finder is the '
             'one that re-implements P; generator emits code ⇒ a finder exists')
    n = 0
    for r in rows:
        n += 1
        code = r['code']
        key = f'dispatch:{r["sign"]}:{"sub" if r["subscripted"] else "unsub"}'
        if code in ('raise', 'none'):
            ctx.ob('C03.R1', key, ERRMAP, 'no check is generated for this case (decoration-time exception): nothing to pair',
                   True)
            continue
        if code == 'unknown-deep':
            ctx.ob('C03.R1', key, ERRMAP, 'the generated production is one of the known families', False,
                   f'unrecognised deep production: {r.get("term", "")[:160]}')
            continue
        want = _gen.EXPECTED_FINDER[code]
        ctx.ob('C03.R1', key, ERRMAP, f'generator emits the {code} production ⇒ finder is {want}',
               r['finder'] == want, f'finder selected: {r["finder"]} {r.get("finder_raised", "")}')
    ctx.floor('C03.R1', n, 160, 'sign × subscription cases')

    # ---- R2 ----------------------------------------------------------------------
    ctx.rule('C03.R2', 'HINT_SIGN_PEP484585_CONTAINER_TO_LOGIC covers HINT_SIGNS_CONTAINER_ARGS_1 and the generator '
             'and find_cause_pep484585_container_args_1 obtain the logic object through the same getter')
    logic = F.const('beartype._check.cls.logic.logmap', 'HINT_SIGN_PEP484585_CONTAINER_TO_LOGIC')
    args1 = G.signset('HINT_SIGNS_CONTAINER_ARGS_1')
    missing = sorted(sign_name(s) for s in args1 if s not in logic)
    ctx.ob('C03.R2', 'logic-map-covers-container-args-1', 'beartype/_check/cls/logic/logmap.py:0',
           'every 1-argument container sign has a logic object', not missing, f'missing: {missing}')
    for modname, fname in (('beartype._check.code._pep.pep484585.codepep484585container', 'make_hint_pep484585_container_check_expr'),
                           ('beartype._check.error._pep.pep484585.errpep484585container', 'find_cause_pep484585_container_args_1')):
        m = ctx.repo.mod(modname)
        fn = m.defs.get(fname)
        ctx.require(fn is not None, f'anchor vanished: {modname}.{fname}')
        getters = [c for c in walk_shallow(fn) if isinstance(c, ast.Call) and 'CONTAINER_TO_LOGIC' in (dotted(c.func) or '')]
        res = [ctx.repo.resolve_expr(m, c.func) for c in getters]
        ok = bool(res) and all(r.module == 'beartype._check.cls.logic.logmap' for r in res)
        ctx.ob('C03.R2', f'same-logic-getter:{fname}', m.where(fn),
               'the logic object comes from beartype._check.cls.logic.logmap', ok, f'{[r.qual for r in res]}')

    # ---- R3 ----------------------------------------------------------------------
    ctx.rule('C03.R3', 're-sampling: for each logic class, interpreting its cause-enumerator on a symbolic pith '
             'yields the same item expression as the generated code uses (sequence: pith[random_int % len(pith)] '
             'under is_random / pith[0] otherwise; reiterable: next(iter(pith)); quasi-iterable: the sequence '
             'expression when the pith is a Sequence, else next(iter(pith))); mapping: next(iter(pith.items())) '
             'under O1; Literal / fixed tuple explanations consult every alternative')
    prev_b, prev_i = F.builtin_hook, F.isinstance_hook

    def bh(name, args, kwargs):
        if args and isinstance(args[0], ATerm):
            if name in ('len', 'iter', 'next'):
                return ATerm(('call', name, args[0].t))
        return prev_b(name, args, kwargs) if prev_b else NotImplemented

    cur = {}

    def ih(obj, cls):
        if isinstance(obj, ATerm):
            nm = repr(cls)
            if 'Sequence' in nm and not isinstance(cls, (tuple, list)):
                return cur['seq']
            if 'Collection' in nm and not isinstance(cls, (tuple, list)):
                return True
            # any other class test on the checked object (e.g. a concrete builtin type): the abstract
            # object is only known to be a Collection / a Sequence, so both outcomes are explored
            parts = list(cls) if isinstance(cls, (tuple, list)) else [cls]
            names = [getattr(c, 'name', repr(c)).split('.')[-1] for c in parts]
            if any(n_ == 'Sequence' for n_ in names) and cur['seq']:
                return True
            rest = [n_ for n_ in names if n_ not in ('Sequence', 'Collection')]
            if any(n_ == 'Collection' for n_ in names):
                return True
            cur['asked'] = ', '.join(rest)
            # builtin sequence types are Sequences: "is a list" and "is not a Sequence" cannot both hold
            cur['infeasible'] = cur['other'] and not cur['seq'] and all(n_ in _BUILTIN_SEQUENCES for n_ in rest)
            return cur['other']
        return prev_i(obj, cls) if prev_i else None
    F.builtin_hook, F.isinstance_hook = bh, ih
    try:
        root = ('root',)
        rand = ('sub', root, ('binop', '%', ('name', 'RANDOM'), ('call', 'len', root)))
        zero = ('sub', root, ('const', 0))
        first = ('call', 'next', ('call', 'iter', root))
        fam_of = {}
        for s, lg in logic.items():
            fam_of.setdefault(FAMILY.get(sign_name(s)), set()).add(id(lg))
        seen = set()
        for s, lg in sorted(logic.items(), key=lambda kv: sign_name(kv[0])):
            fam = FAMILY.get(sign_name(s))
            if id(lg) in seen or not isinstance(lg, _ObjVal):
                continue
            seen.add(id(lg))
            # the per-class item picker, by role: the slot that enumerate_cause_items() calls on self with the cause
            eci = lg.cls.find('enumerate_cause_items')
            slot = None
            if isinstance(eci, FuncVal):
                for c_ in ast.walk(eci.node):
                    if isinstance(c_, ast.Call) and isinstance(c_.func, ast.Attribute) and dotted(c_.func.value) == 'self' \
                            and isinstance(lg.attrs.get(c_.func.attr), FuncVal):
                        slot = c_.func.attr
            fn = lg.attrs.get(slot) if slot else None
            ctx.require(isinstance(fn, FuncVal), f'logic object of {sign_name(s)}: the item picker called by enumerate_cause_items was not found')
            for is_random in (True, False):
                for seq in ((True, False) if fam == 'quasi' else (True,)):
                  for other in (True, False):
                    cur['seq'], cur['other'], cur['asked'], cur['infeasible'] = seq, other, None, False
                    try:
                        out = _call_function(F, fn, [ACause(AConf(is_random=is_random), seq)], {}, 1)
                    except (_Abort, _Raise) as ex:
                        ctx.require(False, f'cannot interpret {fn.qual}: {ex}')
                    if (cur['asked'] is None and not other) or cur['infeasible']:
                        continue    # no further class test was made (second exploration identical) / impossible object
                    item = out[1].t if isinstance(out, tuple) and len(out) == 2 and isinstance(out[1], ATerm) else None
                    if fam in ('sequence',) or (fam == 'quasi' and seq):
                        want = rand if is_random else zero
                    elif fam in ('reiterable', 'deque') or (fam == 'quasi' and not seq):
                        want = first
                    else:
                        want = None
                    ctx.ob('C03.R3', f'resample:{lg.cls.name}:is_random={is_random}:sequence={seq}' +
                           (f':{cur["asked"]}={other}' if cur['asked'] else ''),
                           'beartype/_check/cls/logic/logcls.py:0',
                           f'{lg.cls.name} ({fam}) re-samples the item the generated code tested',
                           want is not None and item == want,
                           f'explanation path looks at {show(item) if item else out!r}, generated code at {show(want) if want else "?"}'
                           + (f' (when isinstance(object, {cur["asked"]}) is {other})' if cur['asked'] else ''))
    finally:
        F.builtin_hook, F.isinstance_hook = prev_b, prev_i
    # mapping: next(iter(pith.items())) under O1 — decided on the interpreted finder (shared with C09.R3): the only item
    # read from the object is the first entry of its items() view
    from .c09 import container_finder_runs
    n_map = 0
    for finder, mmod, tag, is_tf, n_, kids, log in container_finder_runs(ctx):
        if 'mapping' not in finder.qualname:
            continue
        n_map += 1
        reads = [w for k, w in log if k in ('item', 'full-iteration')]
        ctx.ob('C03.R3', f'resample:mapping:first-item:{tag}', mmod.where(finder.node),
               'the mapping explanation examines next(iter(pith.items())): the first key and its value, as the generated '
               'code does', reads == ['the checked object.items()'] and [k for k, w in log if k == 'item'] == ['item'],
               f'reads {[(k, w) for k, w in log if k != "len"]}')
        if 'Counter' in tag:
            explained = [w for k, w in log if k == 'child-cause']
            ctx.ob('C03.R3', f'resample:mapping:counter-values-against-int:{tag}', mmod.where(finder.node),
                   'the counts of a Counter are explained against int, as the generated code checks them (Counter[K] has no value hint '
                   'of its own)', any('value' in p_ and "'int'" in h_ for p_, h_ in explained),
                   f'child causes built for {explained}')
    ctx.require(n_map >= 2, 'no mapping cause finder was interpreted')
    # an object of the wrong container type is rejected by the generated isinstance test whatever its length: the explanation
    # must report it too — also when it is empty (nothing to sample)
    n_wrong = 0
    for length in (0, 5):
        for finder, mmod, tag, is_tf, n_, kids, log in container_finder_runs(ctx, origin_ok=False, length=length):
            n_wrong += 1
            res = [w for k, w in log if k == 'result']
            ctx.ob('C03.R3', f'origin-first:{"empty" if n_ == 0 else "non-empty"}:{tag}', mmod.where(finder.node),
                   'an object that is not an instance of the origin type is explained as such, whatever it contains', res == ['cause-found'],
                   f'the finder answers {res} for {"an empty" if n_ == 0 else "a"} object of the wrong type (check and explanation disagree: '
                   f'the private desynchronisation error is raised)')
    ctx.require(n_wrong >= 8, f'only {n_wrong} wrong-type scenarios interpreted')
    ctx.assume('a mapping\'s items() view is consistent with its __iter__ and __getitem__ (first key / its value)')
    # literal: explanation consults all literals
    lm = ctx.repo.mod('beartype._check.error._pep.errpep586')
    lf = lm.defs.get('find_cause_pep586_literal')
    ctx.require(lf is not None, 'anchor vanished: find_cause_pep586_literal')
    anys = [c for c in walk_shallow(lf) if isinstance(c, ast.Call) and dotted(c.func) == 'any']
    ok = False
    for c in anys:
        if c.args and isinstance(c.args[0], ast.GeneratorExp):
            ge = c.args[0]
            it = norm(ge.generators[0].iter)
            ok = ok or (('==' in norm(ge.elt)) and 'literal' in it and not ge.generators[0].ifs)
    ctx.ob('C03.R3', 'resample:literal:all-alternatives', lm.where(lf),
           'the Literal explanation compares the pith with every literal by equality', ok,
           f'{[norm(c)[:100] for c in anys]}')

    # ---- R7 ----------------------------------------------------------------------
    _licensed_operations(ctx, rows)

    # ---- R8 ----------------------------------------------------------------------
    _annotated_explanation_order(ctx, F, 'C03.R8')

    # ---- R9 ----------------------------------------------------------------------
    _diagnosis_short_circuit(ctx, V, F, 'C03.R9')

    # ---- R4 ----------------------------------------------------------------------
    _violation_selection(ctx, G, F)

    # ---- R5 ----------------------------------------------------------------------
    ctx.rule('C03.R5', 'TypeHint.is_bearable / die_if_unbearable call the procedural functions with self._hint and '
             'the passed conf; is_bearable and die_if_unbearable each pass their own memo table together with '
             'their own code factory to make_func_checker')
    from .c19 import typehint_cache
    typehint_cache(ctx, 'C03.R5')
    sm = ctx.repo.mod('beartype.door._cls.doorsuper')
    th = sm.defs.get('TypeHint')
    ctx.require(isinstance(th, ast.ClassDef), 'anchor vanished: TypeHint')
    for meth in ('is_bearable', 'die_if_unbearable'):
        fn = next((x for x in th.body if isinstance(x, ast.FunctionDef) and x.name == meth), None)
        ctx.require(fn is not None, f'anchor vanished: TypeHint.{meth}')
        calls = [c for c in walk_shallow(fn) if isinstance(c, ast.Call) and dotted(c.func) == meth]
        ok = False
        detail = 'no delegating call'
        for c in calls:
            kw = {k.arg: norm(k.value) for k in c.keywords}
            r = ctx.repo.resolve_expr(sm, c.func)
            ok = kw.get('hint') == 'self._hint' and kw.get('conf') == 'conf' and kw.get('obj') == 'obj' \
                and r.module == 'beartype.door._func.doorfunc'
            detail = f'{norm(c)[:120]} -> {r.qual}'
        ctx.ob('C03.R5', f'delegates:TypeHint.{meth}', sm.where(fn),
               f'TypeHint.{meth} forwards obj, self._hint and conf to beartype.door.{meth}', ok, detail)
    dm = ctx.repo.mod('beartype.door._func.doorfunc')
    pair = {'is_bearable': ('make_code_tester_check', 'TESTER'), 'die_if_unbearable': ('make_code_raiser_hint_object_check', 'RAISER')}
    for fname, (factory, memo_tag) in pair.items():
        fn = dm.defs.get(fname)
        ctx.require(fn is not None, f'anchor vanished: doorfunc.{fname}')
        calls = [c for c in walk_shallow(fn) if isinstance(c, ast.Call) and dotted(c.func) == 'make_func_checker']
        ok = len(calls) == 1 and len(calls[0].args) == 5 and [dotted(a) for a in calls[0].args[:3]] == ['hint', 'conf', 'exception_prefix'] \
            and dotted(calls[0].args[3]) == factory and memo_tag in (dotted(calls[0].args[4]) or '')
        ctx.ob('C03.R5', f'factory-memo-pairing:{fname}', dm.where(fn),
               f'{fname} pairs {factory} with its own memo table', ok, norm(calls[0])[:160] if calls else 'no call')

    # the two memo tables are two dictionaries (an alias would hand die_if_unbearable the boolean tester compiled for is_bearable)
    def underlying(name, depth=0):
        sts = dm.assigns.get(name, [])
        v = getattr(sts[-1], 'value', None) if sts else None
        if isinstance(v, ast.Name) and depth < 4:
            return underlying(v.id, depth + 1)
        return name, v
    tables = {}
    for fname in pair:
        fn = dm.defs.get(fname)
        calls = [c for c in walk_shallow(fn) if isinstance(c, ast.Call) and dotted(c.func) == 'make_func_checker']
        if calls and len(calls[0].args) >= 5 and isinstance(calls[0].args[4], ast.Name):
            tables[fname] = underlying(calls[0].args[4].id)
    ok = len(tables) == 2 and len({t[0] for t in tables.values()}) == 2 and all(
        isinstance(t[1], ast.Dict) or (isinstance(t[1], ast.Call) and dotted(t[1].func) == 'dict') for t in tables.values())
    ctx.ob('C03.R5', 'factory-memo-pairing:tables-distinct', dm.where(dm.tree.body[0]),
           'the memo tables of is_bearable and die_if_unbearable are two distinct module-level dictionaries', ok,
           f'{ {k: (v[0], norm(v[1])[:40] if v[1] is not None else None) for k, v in tables.items()} }')

    # ---- R6 ----------------------------------------------------------------------
    ctx.rule('C03.R6', 'raise sites of the private _BeartypeCallHintPepRaise* classes under beartype/_check/error and '
             'in hinttreeerror are enumerated against the reviewed table (one reason each); a new site is reported')
    n = 0
    seen_sites = {}
    LIMIT = {'errmain.<cause-entry>#contract': 2}

    def keys_of(mn, m, fn, depth=0):
        """Reviewed-site key(s) of a function: public functions by name; the private entry of the explanation path by
        role (it instantiates HintTreeError); any other private helper is attributed to the functions that call it."""
        short = mn.split('.')[-1]
        if fn is None:
            return [f'{short}.<module>']
        if not fn.name.startswith('_') or qualname_of(fn) != fn.name:
            return [f'{short}.{qualname_of(fn)}']
        if any(isinstance(c, ast.Call) and dotted(c.func) == 'HintTreeError' for c in ast.walk(fn)):
            return [f'{short}.<cause-entry>']
        if depth >= 3:
            return [f'{short}.{fn.name}']
        out = []
        for other in ast.walk(m.tree):
            if isinstance(other, (ast.FunctionDef, ast.AsyncFunctionDef)) and other is not fn and any(
                    isinstance(c, ast.Call) and dotted(c.func) == fn.name for c in ast.walk(other)):
                out += keys_of(mn, m, other, depth + 1)
        return sorted(set(out)) or [f'{short}.{fn.name}']
    for mn, m in sorted(ctx.repo.modules.items()):
        if not (mn.startswith('beartype._check.error') or mn.endswith('hinttreeerror')):
            continue
        for node in ast.walk(m.tree):
            if isinstance(node, ast.Raise) and node.exc is not None:
                f = node.exc.func if isinstance(node.exc, ast.Call) else node.exc
                nm = dotted(f) or ''
                if not nm.startswith('_BeartypeCallHintPepRaise'):
                    continue
                n += 1
                fn = enclosing_function(node)
                for key in keys_of(mn, m, fn):
                    if key.endswith('.<cause-entry>'):
                        key += '#desync' if 'Desynchronization' in nm else '#contract'
                    seen_sites[key] = seen_sites.get(key, 0) + 1
                    ctx.ob('C03.R6', f'private-raise:{key}' + (f'#{seen_sites[key]}' if seen_sites[key] > 1 else ''), m.where(node),
                           'private exception raise site on the explanation path belongs to a reviewed function (reached '
                           'directly or through private helpers) and is within the number of sites reviewed there',
                           key in T3 and seen_sites[key] <= LIMIT.get(key, 1),
                           f'unreviewed raise of {nm} in {qualname_of(fn) if fn else "<module>"} under `{" and ".join(_guards(node, fn))[:160]}`')
    ctx.floor('C03.R6', n, 8, 'private raise sites')


def _expr_guards(node, stop):
    """Conditions under which ``node`` is evaluated inside its statement, from short-circuit
    operators: earlier operands of an enclosing ``and`` hold, earlier operands of an ``or`` do not."""
    out = []
    child, p = node, getattr(node, '_parent', None)
    while p is not None and p is not stop and not isinstance(p, ast.stmt):
        if isinstance(p, ast.BoolOp) and child in p.values:
            for v in p.values[:p.values.index(child)]:
                out.append(norm(v) if isinstance(p.op, ast.And) else f'not ({norm(v)})')
        elif isinstance(p, ast.IfExp):
            if child is p.body:
                out.append(norm(p.test))
            elif child is p.orelse:
                out.append(f'not ({norm(p.test)})')
        child, p = p, getattr(p, '_parent', None)
    return out


def _positive(g: str, what: str) -> bool:
    g = g.strip()
    while g.startswith('not (not ') and g.endswith(')'):
        g = g[len('not (not '):-1].strip()
        if g.startswith('(') and g.endswith(')'):
            g = g[1:-1]
    return g == what or g.startswith(what + ' and ') or (' and ' + what) in g and not g.startswith('not ')


def _licensed_operations(ctx, rows, RULE='C03.R7'):
    ctx.rule(RULE, 'the explanation path applies to the checked object only operations the generated check '
             'established it supports: the 1-argument container finder is reached for the quasi-iterable signs '
             '(Container / Iterable / Reversible, derived from the dispatch of R1), whose objects the generated '
             'code touches only under isinstance(obj, Collection); so every len / iter / next / enumerate / '
             'subscript of cause.pith in that finder must be dominated (statement guards and short-circuit order) '
             'by isinstance(cause.pith, Collection) — otherwise a rejection elsewhere in the object is reported as '
             'a bare TypeError instead of the configured violation')
    m = ctx.repo.mod('beartype._check.error._pep.pep484585.errpep484585container')
    fn = m.defs.get('find_cause_pep484585_container_args_1')
    ctx.require(fn is not None, 'anchor vanished: find_cause_pep484585_container_args_1')
    quasi_here = sorted(r['sign'] for r in rows if r.get('finder') == 'find_cause_pep484585_container_args_1'
                        and FAMILY.get(r['sign']) == 'quasi' and r['subscripted'])
    ctx.require(quasi_here, 'no quasi-iterable sign is dispatched to find_cause_pep484585_container_args_1 any more: R7 needs review')
    n = 0
    from .c02 import _guards as stmt_guards
    for x in ast.walk(fn):
        site = None
        if isinstance(x, ast.Call) and dotted(x.func) in ('len', 'iter', 'next', 'enumerate', 'reversed', 'tuple', 'list') \
                and x.args and norm(x.args[0]) == 'cause.pith':
            site = x
        elif isinstance(x, ast.Subscript) and norm(x.value) == 'cause.pith':
            site = x
        if site is None:
            continue
        n += 1
        st = site
        while not isinstance(st, ast.stmt):
            st = st._parent
        guards = stmt_guards(st, fn) + _expr_guards(site, st)
        ok = any(_positive(g, 'isinstance(cause.pith, Collection)') for g in guards)
        ctx.ob(RULE, f'licensed:{fn.name}:{norm(site)}', m.where(site),
               f'`{norm(site)}` is evaluated only for objects established to be Collections', ok,
               f'evaluated under {guards or "no guard"}; signs reaching this finder include {quasi_here}: a generator '
               f'matched against Iterable[T] next to the real culprit makes the explanation raise TypeError')
    ctx.floor(RULE, n, 1, 'operations on cause.pith in the container finder')


def _violation_selection(ctx, G, F):
    ctx.rule('C03.R4', 'pith kind ∈ {door, parameter, return}: the explanation path selects '
             'conf.violation_{door,param,return}_type and the generated handler consults '
             '_is_violation_{door,param,return}_warn of the same kind; the handler is `raise V` or '
             '`warn(str(V), type(V))` followed by fall-through; culprits begin with the checked object')
    # (a) the explanation entry point, interpreted
    _explanation_entry(ctx, F)
    explanation_configuration(ctx, 'C03.R4')
    from .c18 import derived_violation_flags
    derived_violation_flags(ctx, 'C03.R10')
    # (b) generated handlers, by interpreting the wrapper generator under the warn flags
    N = _wrap.names(ctx)
    W = _wrap.wrapgen(ctx)
    from sa.wrapgen import AFunc
    from sa.wrapcheck import analyse
    C = G.cls
    n = 0
    for pw, rw in ((False, False), (False, True), (True, False), (True, True)):
        for dw in (False, True):
            conf = AConf(_is_violation_param_warn=pw, _is_violation_return_warn=rw, _is_violation_door_warn=dw)
            from sa.wrapgen import NORETURN
            for ret_tag, ret_hint in (('', C('R')), (':noreturn', NORETURN)):
                f = AFunc('h', (), ('x',), None, ('k',), None, 'sync', {'x': C('X'), 'k': C('K'), 'return': ret_hint})
                r = W.run(f, conf)
                facts = analyse(r.code, N) if r.code else None
                ctx.require(facts is not None and facts.ok, f'no wrapper generated for the violation-handler probe: {r.raised}')
                for s in facts.sites:
                    n += 1
                    warn = pw if s.pith_name != 'return' else rw
                    h = s.handler
                    if warn:
                        ok = isinstance(h, ast.Expr) and isinstance(h.value, ast.Call) and dotted(h.value.func) == N['WARN'] \
                            and [norm(a) for a in h.value.args] == [f'str({N["VIOLATION"]})', f'type({N["VIOLATION"]})']
                    else:
                        ok = isinstance(h, ast.Raise) and dotted(h.exc) == N['VIOLATION']
                    ctx.ob('C03.R4', f'handler:{s.pith_name}{ret_tag if s.pith_name == "return" else ""}:param_warn={pw}:return_warn={rw}:door_warn={dw}',
                           'beartype/_check/checkmake.py:0',
                           f'{"warn(str(V), type(V))" if warn else "raise V"} follows the violation of a '
                           f'{"return" if s.pith_name == "return" else "parameter"}', ok,
                           f'handler is `{norm(h)[:100] if h is not None else None}`')
                    gv = r.scope.get(N['GET_VIOLATION'])
                    ctx.ob('C03.R4', f'violation-factory:{s.pith_name}{ret_tag if s.pith_name == "return" else ""}:{pw}:{rw}:{dw}',
                           'beartype/_check/checkmake.py:0', 'the violation comes from get_func_pith_violation',
                           isinstance(gv, FuncVal) and gv.qualname == 'get_func_pith_violation', repr(gv))
    # (c) door route
    mk = F.const('beartype._check.checkmake', 'make_code_raiser_hint_object_check')
    from sa.gen import ACall, ASane
    for dw in (False, True):
        conf = AConf(_is_violation_door_warn=dw, _is_violation_param_warn=not dw, _is_violation_return_warn=not dw)
        h = C('D')
        try:
            out = _call_function(F, mk, [ACall(), h, ASane(h), conf, 'prefix '], {}, 1)
        except (_Abort, _Raise) as ex:
            ctx.require(False, f'cannot interpret make_code_raiser_hint_object_check: {ex}')
        code, scope = out
        try:
            tree = ast.parse('def chk(' + N['PITH_ROOT'] + '):' + code)
        except SyntaxError as ex:
            ctx.ob('C03.R4', f'handler:door:door_warn={dw}', 'beartype/_check/checkmake.py:0', 'door raiser body parses', False, str(ex))
            continue
        fn_ = tree.body[0]
        last = None
        for st in ast.walk(fn_):
            if isinstance(st, ast.If):
                last = st.body[-1] if st.body else None
        if dw:
            ok = isinstance(last, ast.Expr) and isinstance(last.value, ast.Call) and dotted(last.value.func) == N['WARN']
        else:
            ok = isinstance(last, ast.Raise) and dotted(last.exc) == N['VIOLATION']
        n += 1
        ctx.ob('C03.R4', f'handler:door:door_warn={dw}', 'beartype/_check/checkmake.py:0',
               f'the door raiser {"warns" if dw else "raises"} according to _is_violation_door_warn only', ok,
               f'handler is `{norm(last)[:100] if last is not None else None}`')
        gv = scope.get(N['GET_VIOLATION']) if isinstance(scope, dict) else None
        ctx.ob('C03.R4', f'violation-factory:door:{dw}', 'beartype/_check/checkmake.py:0',
               'the violation comes from get_hint_object_violation',
               isinstance(gv, FuncVal) and gv.qualname == 'get_hint_object_violation', repr(gv))
    ctx.floor('C03.R4', n, 12, 'violation handler sites')


def _explanation_entry(ctx, F):
    """R4(a) by interpretation: get_hint_object_violation over {door, parameter, return} × {cause names the object
    itself, cause names an item of it} × {cause found, no cause found} and the two caller-contract breaches."""
    from sa.fold import Inst, Unknown, _WithValue
    ERRMAIN = 'beartype._check.error.errmain'
    em = ctx.repo.mod(ERRMAIN)
    fn = F.const(ERRMAIN, 'get_hint_object_violation')
    ctx.require(isinstance(fn, FuncVal), 'anchor vanished: get_hint_object_violation')
    saved_stubs, saved_ext = dict(F.stubs), dict(F.ext_stubs)

    class _Exc(AObj):
        def __init__(self, cls, message, culprits):
            self.cls, self.message, self.culprits = cls, message, culprits

        def __repr__(self):
            return f'{self.cls.name}({self.message!r}, culprits={self.culprits!r})'

    class _ExcCls(AObj):
        def __init__(self, name):
            self.name = name

        def __call__(self, *a, **k):
            return _Exc(self, k.get('message', a[0] if a else None), k.get('culprits'))

        def __repr__(self):
            return self.name

    class _Cause(AObj):
        _track_attribute_stores = True

        def __init__(self, **kw):
            for k, v in kw.items():
                setattr(self, k, v)

    class _Tree(AObj):
        def __init__(self, kw, text, pith):
            self.kw, self.text, self.pith = kw, text, pith

        def find_cause(self):
            return _Cause(cause_str_or_none=self.text, pith=self.pith, exception_cls=self.kw.get('exception_cls'),
                          exception_prefix=self.kw.get('exception_prefix'))

    state = {}
    F.stubs['beartype._check.cls.hint.tree.hinttreeerror.HintTreeError'] = \
        lambda e, a, k: _Tree(k, state['text'], state['cause_pith'] if state['cause_pith'] is not None else k.get('pith'))
    F.stubs['beartype._check.cls.hint.data.hintdataerror.HintDataError'] = lambda e, a, k: ('hint-data', a, tuple(k.items()))
    F.stubs['beartype._check.convert.convmain.sanify_hint_any'] = lambda e, a, k: 'SANE'
    F.stubs['beartype._util.error.utilerrwarn.warnings_ignored'] = lambda e, a, k: _WithValue(None)
    F.stubs['beartype._util.text.utiltextprefix.prefix_pith_value'] = lambda e, a, k: '<pith> '
    F.stubs['beartype._util.text.utiltextprefix.prefix_callable_return_value'] = lambda e, a, k: '<return of f> '
    F.stubs['beartype._util.text.utiltextprefix.prefix_callable_arg_value'] = lambda e, a, k: f'<parameter {k.get("arg_name")} of f> '
    F.stubs['beartype._util.text.utiltextrepr.represent_object'] = lambda e, a, k: '<repr>'
    F.stubs['beartype._util.text.utiltextansi.color_hint'] = lambda e, a, k: k.get('text', a[0] if a else '')
    F.stubs['beartype._util.text.utiltextansi.strip_str_ansi'] = lambda e, a, k: k.get('text', a[0] if a else '')
    DOOR, PARAM, RET = _ExcCls('DoorViolation'), _ExcCls('ParamViolation'), _ExcCls('ReturnViolation')
    verb_cls = F.const('beartype._conf.confenum', 'BeartypeViolationVerbosity')
    other_conf = AConf()
    old_default = F.patch_global(ERRMAIN, 'BEARTYPE_CONF_DEFAULT', other_conf)

    class _Hint(AObj):
        def __repr__(self):
            return 'HINT[REPR]'

    class _Call(AObj):
        decoratee = 'f'

    def bh_repr(name, args, kwargs):
        if name == 'repr' and len(args) == 1 and isinstance(args[0], AObj):
            return repr(args[0])
        return saved_b(name, args, kwargs) if saved_b else NotImplemented
    saved_b, saved_i = F.builtin_hook, F.isinstance_hook
    F.builtin_hook = bh_repr
    F.isinstance_hook = lambda o, c: True if isinstance(o, _Call) else (saved_i(o, c) if saved_i else None)
    obj, item, hint = Inst('object', ('the checked object',)), Inst('object', ('an item of it',)), _Hint()
    want_cls = {'door': DOOR, 'parameter': PARAM, 'return': RET}
    RULE = 'C03.R4'
    try:
        for verb in ('MINIMAL', 'DEFAULT', 'MAXIMAL'):
            vv = F.eval_in(ctx.repo.mod('beartype._conf.confenum'), ast.parse(f'BeartypeViolationVerbosity.{verb}', mode='eval').body)
            conf = AConf(violation_door_type=DOOR, violation_param_type=PARAM, violation_return_type=RET,
                         violation_verbosity=vv, is_color=False)
            for kind, kw in (('door', {'exception_prefix': 'PREFIX '}), ('parameter', {'pith_name': 'x'}), ('return', {'pith_name': 'return'})):
                for nested in (False, True):
                    for found in (True, False):
                        if not found and (verb != 'DEFAULT' or nested):
                            continue
                        state['text'] = 'the cause text' if found else None
                        state['cause_pith'] = item if nested else None
                        tag = f'{kind}:verbosity={verb}:culprit={"item" if nested else "object"}' + ('' if found else ':no-cause-found')
                        try:
                            out = _call_function(F, fn, [], dict(call_curr=_Call(), conf=conf, hint=hint, obj=obj, **kw), 1)
                            raised = None
                        except _Raise as ex:
                            out, raised = None, ex
                        except _Abort as ex:
                            ctx.require(False, f'cannot interpret get_hint_object_violation: {ex}')
                        if not found:
                            ctx.ob('C03.R6', f'no-cause-found-is-an-internal-error:{kind}', em.where(fn.node),
                                   'when the explanation path finds no cause (which R1–R3 make unreachable) it raises the '
                                   'private desynchronisation exception rather than fabricating a violation',
                                   raised is not None and 'Desynchronization' in str(raised.what), f'evaluates to {out!r} / raises {raised}')
                            continue
                        ok = isinstance(out, _Exc)
                        ctx.ob(RULE, f'class-selection:{tag}', em.where(fn.node),
                               f'the violation built for a {kind} check is an instance of conf.violation_{"param" if kind == "parameter" else kind}_type',
                               ok and out.cls is want_cls[kind], f'evaluates to {out!r}' if raised is None else f'raises {raised}')
                        if not ok:
                            continue
                        wantc = (obj, item) if nested else (obj,)
                        ctx.ob(RULE, f'culprits-begin-with-object:{tag}', em.where(fn.node),
                               'the culprits are the checked object, followed by the item the cause names when that is another object',
                               isinstance(out.culprits, tuple) and len(out.culprits) == len(wantc) and all(
                                   x is y for x, y in zip(out.culprits, wantc)), f'culprits={out.culprits!r}')
                        msg = out.message if isinstance(out.message, str) else ''
                        ctx.ob(RULE, f'message-names-the-hint:{tag}', em.where(fn.node),
                               'the message contains the representation of the hint' + (
                                   ' and the cause found' if verb != 'MINIMAL' else ''),
                               'HINT[REPR]' in msg and (verb == 'MINIMAL' or 'the cause text' in msg), f'message={out.message!r}')
        # caller contract: exactly one of pith_name / exception_prefix
        conf = AConf(violation_door_type=DOOR, violation_param_type=PARAM, violation_return_type=RET,
                     violation_verbosity=vv, is_color=False)
        state['text'], state['cause_pith'] = 'the cause text', None
        for tag, kw in (('neither', {}), ('both', {'pith_name': 'x', 'exception_prefix': 'PREFIX '})):
            try:
                out = _call_function(F, fn, [], dict(call_curr=_Call(), conf=conf, hint=hint, obj=obj, **kw), 1)
                raised = None
            except _Raise as ex:
                out, raised = None, ex
            except _Abort as ex:
                ctx.require(False, f'cannot interpret get_hint_object_violation: {ex}')
            ctx.ob('C03.R6', f'caller-contract:{tag}', em.where(fn.node),
                   f'{tag} of pith_name / exception_prefix passed: a private exception is raised (the two generated '
                   f'templates and the door pass exactly one)', raised is not None and '_BeartypeCallHintPepRaise' in str(raised.what),
                   f'evaluates to {out!r} / raises {raised}')
    finally:
        F.builtin_hook, F.isinstance_hook = saved_b, saved_i
        F.stubs.clear()
        F.stubs.update(saved_stubs)
        F.patch_global(ERRMAIN, 'BEARTYPE_CONF_DEFAULT', old_default)


def _annotated_explanation_order(ctx, F, RULE):
    """The Annotated cause finder, interpreted with scripted validators: user code runs in the order and to the extent the
    generated check runs it."""
    import itertools
    from sa.fold import _WithValue
    table = _gen.cause_finder_table(ctx, F)
    finder = next((v for s, v in table.items() if sign_name(s) == 'Annotated'), None)
    ctx.require(isinstance(finder, FuncVal), 'anchor vanished: the cause finder of Annotated hints')
    mm = ctx.repo.mod(finder.module)
    ctx.rule(RULE, 'the explanation of an Annotated[T, V1, …, Vn] rejection, decided by interpreting its cause finder with '
             'scripted validators (n ≤ 3, every accept / reject vector, T accepting or rejecting): user-supplied '
             'validators are called exactly as the generated check `isinstance(x, T) and V1(x) and … and Vn(x)` calls '
             'them — none when T rejects, V1…Vk when Vk is the first to reject — so a validator that would raise on an '
             'object an earlier one rejects is never reached; the cause names the first rejecting validator')
    log = []

    class _Val(AObj):
        def __init__(self, i, ok):
            self.i, self.ok = i, ok

        def is_valid(self, obj):
            log.append(('is_valid', self.i))
            return self.ok

        def get_diagnosis(self, **kw):
            log.append(('get_diagnosis', self.i))
            return f'diagnosis of V{self.i}'

        def __repr__(self):
            return f'V{self.i}'

    class _Found(AObj):
        _track_attribute_stores = True

        def __init__(self, text=None):
            self.cause_str_or_none = text
            self.pith = 'PITH'
            self.exception_prefix = ''

    class _Child(AObj):
        def __init__(self, text):
            self.text = text

        def find_cause(self):
            return _Found(self.text)

    class _HC(AObj):
        pass

    class _Cause(AObj):
        def __init__(self, sign, meta_ok):
            self.hint_curr = _HC()
            self.hint_curr.hint_sign = sign
            self.hint_curr_sanified = 'ANNOTATED'
            self.meta_ok = meta_ok
            self.pith = 'PITH'
            self.exception_prefix = ''

        def permute_cause_hint_child_insane(self, hint):
            return _Child(None if self.meta_ok else 'not an instance of T')

        def permute_cause(self, **kw):
            return _Found()
    saved_stubs, saved_i, saved_b = dict(F.stubs), F.isinstance_hook, F.builtin_hook
    state = {}
    F.stubs['beartype._util.hint.pep.proposal.pep593.get_hint_pep593_metahint'] = lambda e, a, k: 'T'
    F.stubs['beartype._util.hint.pep.proposal.pep593.get_hint_pep593_metadata'] = lambda e, a, k: tuple(state['vals'])
    F.stubs['beartype._util.text.utiltextrepr.represent_pith'] = lambda e, a, k: '<pith>'
    F.isinstance_hook = lambda o, c: True if isinstance(o, (_Val, _Cause)) else (saved_i(o, c) if saved_i else None)
    F.builtin_hook = lambda n_, a, k: (repr(a[0]) if n_ == 'repr' and a and isinstance(a[0], AObj) else (
        saved_b(n_, a, k) if saved_b else NotImplemented))
    sign = next(s for s in table if sign_name(s) == 'Annotated')
    n = 0
    try:
        for meta_ok in (True, False):
            for k in (1, 2, 3):
                for vec in itertools.product((True, False), repeat=k):
                    del log[:]
                    state['vals'] = [_Val(i + 1, ok) for i, ok in enumerate(vec)]
                    try:
                        out = _call_function(F, finder, [_Cause(sign, meta_ok)], {}, 1)
                    except (_Abort, _Raise) as ex:
                        ctx.require(False, f'cannot interpret {finder.qual}: {ex}')
                    n += 1
                    first_bad = next((i + 1 for i, ok in enumerate(vec) if not ok), None)
                    if not meta_ok:
                        want_calls = []
                    else:
                        want_calls = [('is_valid', i) for i in range(1, (first_bad or k) + 1)]
                    calls = [c for c in log if c[0] == 'is_valid']
                    tag = f'T-{"accepts" if meta_ok else "rejects"}:validators={"".join("A" if ok else "R" for ok in vec)}'
                    ctx.ob(RULE, f'annotated:validators-called-as-the-check-calls-them:{tag}', mm.where(finder.node),
                           'validators are called in order and only up to the first that rejects (none when T rejects)',
                           calls == want_calls, f'calls {[f"V{i}.is_valid" for _, i in calls]}, the generated check makes '
                           f'{[f"V{i}.is_valid" for _, i in want_calls]}')
                    text = getattr(out, 'cause_str_or_none', None)
                    if not meta_ok:
                        ok = text == 'not an instance of T'
                    elif first_bad is None:
                        ok = text is None
                    else:
                        ok = isinstance(text, str) and f'V{first_bad}' in text and [c for c in log if c[0] == 'get_diagnosis'] == [('get_diagnosis', first_bad)]
                    ctx.ob(RULE, f'annotated:cause-names-the-first-rejecting-validator:{tag}', mm.where(finder.node),
                           'the cause is the shallow one when T rejects, else the diagnosis of the first rejecting validator',
                           ok, f'cause {text!r}; diagnoses requested {[i for c, i in log if c == "get_diagnosis"]}')
    finally:
        F.isinstance_hook, F.builtin_hook = saved_i, saved_b
        F.stubs.clear()
        F.stubs.update(saved_stubs)
    ctx.floor(RULE, n, 28, 'validator outcome vectors')


def _diagnosis_short_circuit(ctx, V, F, RULE):
    """Validator diagnoses, interpreted with scripted testers: what the generated check short-circuits away must not be
    able to turn a rejection into the user's exception."""
    from sa.fold import BoundMethod
    ctx.rule(RULE, 'describing a rejection by a compound validator, decided by interpreting get_diagnosis of the validator '
             'classes (leaf, &, |, ~; handlers and the short-circuit flag modelled) with scripted testers — A rejects, P '
             'accepts, B raises when called: for A & X and P | X with X ∈ {B, ~B, B & B, B | B, B & P, ~(B & P), ~~B} the '
             'generated check never evaluates X, and neither may the diagnosis let B\'s exception escape (a rejection '
             'must surface as the configured violation, not as an exception of user code the check itself skipped)')
    calls = []

    class _Tester(AObj):
        def __init__(self, name, behaviour):
            self.name, self.behaviour = name, behaviour
            self.__name__ = name

        def __call__(self, obj):
            calls.append(self.name)
            if self.behaviour == 'raises':
                raise _Raise('UserError', f'tester {self.name}')
            return self.behaviour == 'accepts'

        def __repr__(self):
            return f'<tester {self.name}>'
    saved_stubs = dict(F.stubs)
    F.stubs['beartype.vale._util._valeutiltext.format_diagnosis_line'] = \
        lambda e, a, k: f'{k.get("validator_repr")} [{k.get("is_obj_valid")}]'
    vm = ctx.repo.mod('beartype.vale._core._valecore')

    def leaf(name, behaviour):
        return V.make('Is', _Tester(name, behaviour))
    n = 0
    try:
        F.faithful_try = True
        shapes = {
            'B': lambda: leaf('B', 'raises'),
            '~B': lambda: V.op('~', leaf('B', 'raises')),
            'B & B': lambda: V.op('&', leaf('B', 'raises'), leaf('B', 'raises')),
            'B | B': lambda: V.op('|', leaf('B', 'raises'), leaf('B', 'raises')),
            'B & P': lambda: V.op('&', leaf('B', 'raises'), leaf('P', 'accepts')),
            '~(B & P)': lambda: V.op('~', V.op('&', leaf('B', 'raises'), leaf('P', 'accepts'))),
            '~~B': lambda: V.op('~', V.op('~', leaf('B', 'raises'))),
        }
        for xname, mk in shapes.items():
            for top_name, top in ((f'A & ({xname})', lambda x: V.op('&', leaf('A', 'rejects'), x)),
                                  (f'P | ({xname})', lambda x: V.op('|', leaf('P', 'accepts'), x))):
                v = top(mk())
                gd = v.cls.find('get_diagnosis')
                ctx.require(isinstance(gd, FuncVal), 'anchor vanished: get_diagnosis of the compound validators')
                del calls[:]
                raised = out = None
                try:
                    out = _call_function(F, gd, [v], dict(obj='OBJ', indent_level_outer='', indent_level_inner=''), 1)
                except _Raise as ex:
                    raised = ex
                except _Abort as ex:
                    ctx.require(False, f'cannot interpret get_diagnosis of {top_name}: {ex}')
                n += 1
                mod = ctx.repo.mod(gd.module)
                ctx.ob(RULE, f'diagnosis:short-circuited-operand-cannot-raise:{top_name}', mod.where(gd.node),
                       'the diagnosis of a validator whose right operand the check never evaluates completes without '
                       'letting that operand\'s tester raise', raised is None and isinstance(out, str),
                       f'raises {raised} (testers called: {calls})' if raised is not None else f'evaluates to {out!r}')
    finally:
        F.faithful_try = False
        F.stubs.clear()
        F.stubs.update(saved_stubs)
    ctx.floor(RULE, n, 14, 'compound validator shapes diagnosed')


def explanation_configuration(ctx, RULE):
    """The explanation path reads the hint under the configuration of the check (shared with C18: overrides and the numeric
    tower must apply to the explainer's root hint exactly as they applied to the generated check)."""
    from sa.fold import _WithValue
    F = _gen.engines(ctx)[0].f
    ERRMAIN = 'beartype._check.error.errmain'
    em = ctx.repo.mod(ERRMAIN)
    fn = F.const(ERRMAIN, 'get_hint_object_violation')
    ctx.require(isinstance(fn, FuncVal), 'anchor vanished: get_hint_object_violation')
    ctx.rule(RULE, 'the explanation path sanifies the root hint and builds its cause tree under the configuration the check ran '
             'under (interpreted get_hint_object_violation: the configuration handed to sanify_hint_any and to the cause tree '
             'is the caller\'s, not the default) — otherwise a hint rewritten by hint_overrides / is_pep484_tower is explained '
             'as written and a rejection becomes a desynchronisation error')
    seen = {}

    class _Cause(AObj):
        _track_attribute_stores = True

        def __init__(self):
            self.cause_str_or_none, self.pith = 'a cause', None

    class _Tree(AObj):
        def __init__(self, kw):
            self.kw = kw

        def find_cause(self):
            c = _Cause()
            c.exception_cls = self.kw.get('exception_cls')
            return c

    class _Exc(AObj):
        def __call__(self, *a, **k):
            return 'VIOLATION'
    saved, saved_i, saved_b = dict(F.stubs), F.isinstance_hook, F.builtin_hook

    def tree(e, a, k):
        seen['tree-conf'] = k.get('conf')
        seen['tree-hint'] = k.get('hint_curr')
        return _Tree(k)

    def sanify(e, a, k):
        seen['sanify-conf'] = k.get('conf', 'NOT PASSED (the default configuration is used)')
        return ('SANE', k.get('hint'))
    F.stubs['beartype._check.cls.hint.tree.hinttreeerror.HintTreeError'] = tree
    F.stubs['beartype._check.cls.hint.data.hintdataerror.HintDataError'] = lambda e, a, k: ('hint-data', a[0] if a else None)
    F.stubs['beartype._check.convert.convmain.sanify_hint_any'] = sanify
    F.stubs['beartype._util.error.utilerrwarn.warnings_ignored'] = lambda e, a, k: _WithValue(None)
    for q in ('beartype._util.text.utiltextprefix.prefix_pith_value', 'beartype._util.text.utiltextrepr.represent_object',
              'beartype._util.text.utiltextansi.color_hint', 'beartype._util.text.utiltextansi.strip_str_ansi',
              'beartype._util.text.utiltextmunge.suffix_str_unless_suffixed', 'beartype._util.text.utiltextmunge.uppercase_str_char_first'):
        F.stubs[q] = lambda e, a, k: 'text'
    F.isinstance_hook = lambda o, c: True if isinstance(o, AObj) and 'CallData' in repr(c) else (saved_i(o, c) if saved_i else None)
    F.builtin_hook = lambda n_, a, k: ('repr' if n_ == 'repr' and a and isinstance(a[0], AObj) else (saved_b(n_, a, k) if saved_b else NotImplemented))
    vv = F.eval_in(ctx.repo.mod('beartype._conf.confenum'), ast.parse('BeartypeViolationVerbosity.DEFAULT', mode='eval').body)
    conf = AConf(violation_door_type=_Exc(), violation_verbosity=vv, is_color=False)
    old_default = F.patch_global(ERRMAIN, 'BEARTYPE_CONF_DEFAULT', AConf())
    try:
        try:
            _call_function(F, fn, [], dict(call_curr=AObj(), conf=conf, hint=AObj(), obj='OBJ', exception_prefix='P '), 1)
        except (_Abort, _Raise) as ex:
            ctx.require(False, f'cannot interpret get_hint_object_violation: {ex}')
        ctx.ob(RULE, 'explanation:sanifies-under-the-check-configuration', em.where(fn.node),
               'sanify_hint_any receives the configuration of the check', seen.get('sanify-conf') is conf,
               f'conf handed to sanify_hint_any: {seen.get("sanify-conf")!r}')
        ctx.ob(RULE, 'explanation:cause-tree-under-the-check-configuration', em.where(fn.node),
               'the cause tree is built with the configuration of the check on the sanified hint',
               seen.get('tree-conf') is conf and isinstance(seen.get('tree-hint'), tuple) and isinstance(seen['tree-hint'][1], tuple)
               and seen['tree-hint'][1][0] == 'SANE', f'conf {seen.get("tree-conf")!r}, hint {seen.get("tree-hint")!r}')
    finally:
        F.patch_global(ERRMAIN, 'BEARTYPE_CONF_DEFAULT', old_default)
        F.isinstance_hook, F.builtin_hook = saved_i, saved_b
        F.stubs.clear()
        F.stubs.update(saved)
