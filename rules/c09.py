"""C09 — constant-time checking.

R1  effect discipline of generated code: only O(1) operations are applied to (parts of)
    the checked object; no loop, comprehension, membership test or aggregate;
R2  non-collections are never iterated (quasi-iterable production);
R3  the explanation path is O(1) under the O1 strategy;
R4  ``conf.strategy`` / ``conf.is_random`` are read only where sampling is decided.
"""
from __future__ import annotations

import ast
import collections

from sa.astutil import dotted
from sa.flow import walk_shallow
from sa.repo import norm, parent, qualname_of
from sa.spec import FAMILY

from . import _gen
from .c01 import prod

ALLOWED_CALLS = {'isinstance', 'issubclass', 'len', 'next', 'iter', 'getattr', 'scope-callable', 'method:values'}
ALLOWED_OPS = {'subscript', '==', 'is', 'is not', '%', 'attr:values'}
# who may read the strategy / randomness options (module -> reason)
STRATEGY_READERS = {
    'beartype._check.cls.logic.logcls': 'decides sampling in generated code and re-sampling in the explanation path',
    'beartype._check.error._pep.pep484585.errpep484585mapping': 'explanation path: first item under O1, all items otherwise',
    'beartype._decor._nontype.decornontype': 'O0 strategy: decoration reduces to a no-op',
    'beartype.bite.collection.infercollectionitems': 'hint inference (not type-checking)',
    'beartype._conf.confmain': 'the option properties themselves',
    'beartype._conf.conftest': 'option validation',
    'beartype._conf.confcommon': 'default configurations',
}


def run(ctx):
    sw = _gen.sweep(ctx)
    bad = _gen.bad_pairs(ctx, sw)
    CODEMAIN = 'beartype/_check/code/codemain.py:0'

    # ---- R1 ----------------------------------------------------------------------
    ctx.rule('C09.R1', 'every operation that generated code applies to the checked object or a part of it is one '
             'of: isinstance, issubclass, len, next(iter(·)), iter, getattr, a validator call, subscription, ==, '
             'identity, % of the draw by len; generated code is a single expression without comprehension, loop, '
             'membership test or aggregate builtin (the term evaluator rejects any other construct)')
    seen = collections.Counter()
    offenders = {}
    for d in sw:
        if d['status'] == 'parse' and 'unsupported construct' in (d.get('parse_error') or ''):
            offenders.setdefault('unsupported-construct', f'{d["shape"]}: {d["parse_error"]}')
        for op, operands in d.get('vocab', []):
            seen[op] += 1
            name = op.split(':', 1)[1] if op.startswith('call:') else op
            ok = (name in ALLOWED_CALLS) if op.startswith('call:') else (op in ALLOWED_OPS)
            if op.startswith('attr:') and op != 'attr:values':
                # attribute reads only occur as validator-internal getattr() or .values()
                ok = False
            if not ok:
                offenders.setdefault(op, f'{d["shape"]}: {op}({", ".join(operands)[:120]})')
    for op, n in sorted(seen.items()):
        ctx.ob('C09.R1', f'op:{op}', CODEMAIN, f'operation {op} (applied {n} times to the checked object) is O(1)',
               op not in offenders, offenders.get(op, ''))
    if 'unsupported-construct' in offenders:
        ctx.ob('C09.R1', 'op:unsupported-construct', CODEMAIN, 'generated code uses only expression constructs of '
               'the O(1) vocabulary', False, offenders['unsupported-construct'])
    ctx.floor('C09.R1', len(seen), 8, 'distinct operations applied to the checked object')

    # ---- R5 ----------------------------------------------------------------------
    ctx.rule('C09.R5', 'at most one item per container node reached: in the generated code of every enumerated shape no item read '
             '(a subscription of, or next(iter(·)) on, a part of the checked object) is evaluated at two places under one '
             'occurrence of the type test of its container — a read whose result is needed by several members of a union or '
             'several validators is bound once by an assignment expression and reused (terms compared after expanding '
             'assignment expressions, so the same read spelled through a pith variable is the same read; two container members '
             'of one union each carry their own type test and each read their own item)')
    groups = collections.defaultdict(lambda: [0, 0, None])
    for d in sw:
        if d['status'] != 'ok' or 'item_reads' not in d:
            continue
        g = groups[d['root']]
        g[0] += 1
        g[1] += d['item_reads']
        if d['item_reads_repeated'] and g[2] is None:
            g[2] = f'{d["shape"]} (is_random={d["is_random"]}): evaluated more than once: {d["item_reads_repeated"][0][:200]}'
    for root, (n_, reads, why) in sorted(groups.items()):
        if not reads:
            continue
        ctx.ob('C09.R5', f'single-read:{root}', CODEMAIN, f'{n_} shapes rooted at {root}: each of their {reads} item reads is '
               'evaluated at one place', why is None, why or '')
    ctx.floor('C09.R5', sum(g[1] for g in groups.values()), 200, 'item reads in generated code')

    # ---- R2 ----------------------------------------------------------------------
    ctx.rule('C09.R2', 'in the quasi-iterable production (Container / Iterable / Reversible) every item access is '
             'dominated, in short-circuit order, by isinstance(pith, Collection) and a non-emptiness test: the '
             'generated term equals the reference term, which has exactly that shape')
    quasi = {k for k, v in FAMILY.items() if v == 'quasi'}
    g = collections.defaultdict(lambda: [0, None])
    for d in sw:
        if prod(d) not in quasi or d['status'] != 'ok' or _gen.tainted(d, bad):
            continue
        x = g[prod(d)]
        x[0] += 1
        # structural equality with the reference is required here (no logical fallback): the guard
        # must be present, not merely implied
        why = (d['safety'][0] if d['safety'] else None) or (d['accept_detail'] or None) or (d['detect_detail'] or None)
        if why and x[1] is None:
            x[1] = f'{d["shape"]}: {why}'
    for p, (n, why) in sorted(g.items()):
        ctx.ob('C09.R2', f'quasi-guard:{p}', CODEMAIN, f'{n} shapes rooted at {p} guard item access by '
               f'isinstance(·, Collection) and non-emptiness', why is None, why or '')
    ctx.floor('C09.R2', sum(n for n, _ in g.values()), 20, 'quasi-iterable shape evaluations')

    # ---- R3 ----------------------------------------------------------------------
    _explain_o1(ctx)

    # ---- R4 ----------------------------------------------------------------------
    ctx.rule('C09.R4', 'who-may-read: the strategy and is_random options are read only by the modules that decide '
             'sampling (table with reasons; sibling modules of a listed module share its role); in particular nothing under '
             'beartype/_check/code, beartype/_check/convert or beartype/_data/check reads them')
    n = 0
    for mn, m in sorted(ctx.repo.modules.items()):
        if '.strategy' not in m.src and '.is_random' not in m.src:
            continue
        for node in ast.walk(m.tree):
            if isinstance(node, ast.Attribute) and node.attr in ('strategy', 'is_random') \
                    and isinstance(node.ctx, ast.Load):
                base = dotted(node.value) or ''
                if not (base.endswith('conf') or base.endswith('.conf') or base == 'self'):
                    continue
                n += 1
                # the table names modules; a helper module split off inside the same package (a sibling of a listed module)
                # has the same role — what must never read the options are the code generator and its templates
                pkg = mn.rsplit('.', 1)[0]
                forbidden = mn.startswith(('beartype._check.code', 'beartype._data.check', 'beartype._check.convert'))
                ok_ = not forbidden and (mn in STRATEGY_READERS or any(k.rsplit('.', 1)[0] == pkg for k in STRATEGY_READERS))
                ctx.ob('C09.R4', f'reader:{mn}:{node.attr}', m.where(node),
                       f'{mn} may read conf.{node.attr}', ok_,
                       'the code generator must not depend on the strategy options' if forbidden else 'not among the modules (or their packages) that decide sampling')
    ctx.floor('C09.R4', n, 6, 'reads of conf.strategy / conf.is_random')


def _explain_o1(ctx):
    """R3 by interpretation: every container cause finder, run by the analyser's own interpreter on an abstract cause whose
    checked object logs what is done to it."""
    ctx.rule('C09.R3', 'explanation path, decided by interpreting each container cause finder of the sign → finder table '
             '(one-argument containers per logic class, mappings incl. Counter, fixed tuples) on an abstract cause whose '
             'checked object records every operation applied to it, with every item conforming (the worst case: the '
             'finder keeps looking): under the O1 strategy no full iteration of the object or of a view of it takes '
             'place and at most one item (one key and its value) is read, sampled or not; a fixed tuple is walked only '
             'after its length was found equal to the number of child hints')
    n_finders = set()
    for finder, mm, tag, is_tuple_fixed, n, kids, log in container_finder_runs(ctx):
        n_finders.add(tag.split(':')[0])
        full = [w for k, w in log if k == 'full-iteration']
        items = [w for k, w in log if k == 'item']
        if is_tuple_fixed and n == kids:
            ctx.ob('C09.R3', f'{tag}:bounded-by-the-hint', mm.where(finder.node),
                   'a fixed tuple of the hinted length is walked once (bounded by the hint, not by the object)',
                   len(full) <= 1 and len(items) <= kids, f'operations on the object: {log}')
            continue
        ctx.ob('C09.R3', f'{tag}:no-full-iteration', mm.where(finder.node),
               'under O1 the explanation never iterates the checked object or a view of it', not full,
               f'iterates {full[0]} (every item conforming: all {n} items are examined)' if full else '')
        ctx.ob('C09.R3', f'{tag}:at-most-one-item', mm.where(finder.node),
               'under O1 at most one item (one key and its value) of the object is read',
               len(items) <= (0 if is_tuple_fixed else 1), f'reads {items}')
    ctx.floor('C09.R3', len(n_finders), 6, 'container cause finders interpreted')


def container_finder_runs(ctx, is_collection=True, is_sequence=True, origin_ok=True, length=5):
    """(finder, module, tag, is_tuple_fixed, n, kids, log of operations on the checked object) for every container cause
    finder × is_random (× object length for fixed tuples), interpreted under the O1 strategy.  Shared with C03.R3."""
    from sa.fold import AObj, FuncVal, Inst, Sym, _Abort, _Raise, _call_function
    from sa.gen import AConf, sign_name
    G = _gen.engines(ctx)[0]
    F = G.f
    table = _gen.cause_finder_table(ctx, F)
    logic = F.const('beartype._check.cls.logic.logmap', 'HINT_SIGN_PEP484585_CONTAINER_TO_LOGIC')
    log = []

    class _Item(AObj):
        def __init__(self, what):
            self.what = what

        def __repr__(self):
            return f'<{self.what}>'

    class _Bounded(AObj):
        """The checked object / a view of it / an iterator over it."""

        def __init__(self, what, n, pairs=False):
            self.what, self.n, self.pairs = what, n, pairs

        def _item(self, i):
            return (_Item(f'key {i}'), _Item(f'value {i}')) if self.pairs else _Item(f'item {i}')

        def __len__(self):
            log.append(('len', self.what))
            return self.n

        def __getitem__(self, i):
            log.append(('item', self.what))
            log.append(('subscript', self.what))
            return _Item(f'item {i}')

        def __iter__(self):
            log.append(('full-iteration', self.what))
            return iter([self._item(i) for i in range(self.n)])

        def __contains__(self, x):
            log.append(('full-iteration', f'{self.what} (membership)'))
            return True

        def items(self):
            return _Bounded(f'{self.what}.items()', self.n, pairs=True)

        def values(self):
            return _Bounded(f'{self.what}.values()', self.n)

        def keys(self):
            return _Bounded(f'{self.what}.keys()', self.n)

        def __repr__(self):
            return f'<{self.what}>'

    class _Iter(AObj):
        def __init__(self, of):
            self.of = of

        def __iter__(self):
            log.append(('full-iteration', f'iter({self.of.what})'))
            return iter([self.of._item(i) for i in range(self.of.n)])

    class _Enum(AObj):
        def __init__(self, of):
            self.of = of

        def __iter__(self):
            log.append(('full-iteration', f'enumerate({self.of.what})'))
            return iter([(i, self.of._item(i)) for i in range(self.of.n)])

    saved_b, saved_i, saved_stubs = F.builtin_hook, F.isinstance_hook, dict(F.stubs)

    def bh(name, args, kwargs):
        a0 = args[0] if args else None
        if isinstance(a0, (_Bounded, _Iter, _Enum)):
            if name == 'len' and isinstance(a0, _Bounded):
                return len(a0)
            if name == 'iter':
                return _Iter(a0) if isinstance(a0, _Bounded) else a0
            if name == 'next' and isinstance(a0, _Iter):
                log.append(('item', a0.of.what))
                return a0.of._item(0)
            if name == 'enumerate':
                return _Enum(a0) if isinstance(a0, _Bounded) else _Enum(a0.of)
            if name in ('tuple', 'list', 'set', 'frozenset', 'sorted', 'all', 'any', 'sum', 'min', 'max', 'dict', 'reversed', 'zip', 'map', 'filter'):
                return tuple(iter(a0))
            if name in ('repr', 'str'):
                return repr(a0)
            if name == 'bool':
                return True
        if isinstance(a0, _Item) and name in ('repr', 'str'):
            return repr(a0)
        if isinstance(a0, (tuple, list)) and len(args) == 1 and not kwargs:
            if name == 'iter':
                return tuple(a0)
            if name == 'enumerate':
                return tuple(enumerate(a0))
            if name == 'next' and a0:
                return a0[0]
        if name == 'zip' and any(isinstance(x, (_Bounded, _Iter, _Enum)) for x in args):
            its = [tuple(iter(x)) if isinstance(x, (_Bounded, _Iter, _Enum)) else tuple(x) for x in args]
            return tuple(zip(*its))
        return saved_b(name, args, kwargs) if saved_b else NotImplemented

    def ih(obj, cls):
        if isinstance(obj, _Bounded) and not is_collection:
            # an object that is no Collection (a one-shot iterator): every class test on it but `object` fails
            log.append(('class-test', repr(cls)[:40]))
            return False
        if isinstance(obj, _Bounded) and not is_sequence and 'Sequence' in repr(cls) and not isinstance(cls, (tuple, list)):
            return False        # a Collection that is not a Sequence (a set, a mapping, a defaultdict …)
        if isinstance(obj, (_Bounded, _ACause)):
            return True
        return saved_i(obj, cls) if saved_i else None

    class _Found(AObj):
        _track_attribute_stores = True

        def __init__(self, why=None):
            self.cause_str_or_none = why

    class _Child(AObj):
        def __init__(self, kw):
            self.kw = kw

        def find_cause(self):
            return _Found()

    class _Sane(AObj):
        of = None

        def __repr__(self):
            return '<child hint>' if self.of is None else f'<child hint sanified from {getattr(self.of, "name", self.of)!r}>'

    class _ACause(AObj):
        _track_attribute_stores = True

        def __init__(self, sign, kids, n, strategy, is_random, random_int=7):
            self.hint_curr = Inst('hint-data', ())
            self.hint_curr = _HC(sign)
            self.hint_curr_sanified = 'HINT'
            self.hint_childs_sane = tuple(_Sane() for _ in range(kids))
            self.pith = _Bounded('the checked object', n)
            self.conf = AConf(strategy=strategy, is_random=is_random, is_color=False)
            self.random_int = random_int
            self.exception_prefix = ''
            self.cause_str_or_none = None
            self.cause_indent = ''

        def permute_cause(self, **kw):
            # which part of the object is explained against which child hint
            log.append(('child-cause', (repr(kw.get('pith')), repr(kw.get('hint_curr', kw.get('hint_sane'))))))
            return _Child(kw)

        def sanify_hint_child(self, h):
            s_ = _Sane()
            s_.of = h
            return s_

    class _HC(AObj):
        def __init__(self, sign):
            self.hint_sign = sign
            self.hint = 'HINT'
    F.builtin_hook, F.isinstance_hook = bh, ih
    saved_ext = dict(F.ext_stubs)

    def _chain(env, a, k):
        return tuple(x for it in a for x in (iter(it) if isinstance(it, (_Bounded, _Iter, _Enum)) else it))

    def _islice(env, a, k):
        src, bounds = a[0], [b for b in a[1:] if b is not None]
        stop = bounds[0] if len(bounds) == 1 else (bounds[1] if len(bounds) > 1 else None)
        if isinstance(src, (_Bounded, _Iter, _Enum)) and isinstance(stop, int):
            of = src if isinstance(src, _Bounded) else src.of
            out = []
            for i in range(min(stop, of.n)):
                log.append(('item', of.what))
                out.append((i, of._item(i)) if isinstance(src, _Enum) else of._item(i))
            return tuple(out)
        return _chain(env, [src], {})
    F.ext_stubs['itertools.chain'] = _chain
    F.ext_stubs['itertools.islice'] = _islice
    for q in ('beartype._util.text.utiltextansi.color_type', 'beartype._util.text.utiltextrepr.represent_object',
              'beartype._util.text.utiltextrepr.represent_pith', 'beartype._util.text.utiltextprefix.prefix_pith_type'):
        F.stubs[q] = lambda e, a, k: '<text>'
    # the shallow test of the origin type: scripted (an object of the right type, or of a wrong one)
    F.stubs['beartype._check.error._nonpep.errnonpeptype.find_cause_type_instance_origin'] = \
        lambda e, a, k: _Found(None if origin_ok else 'is not an instance of the origin type')
    F.stubs['beartype._check.cls.hint.data.hintdataerror.HintDataError'] = lambda e, a, k: ('hint-data', a)
    F.stubs['beartype._util.hint.pep.proposal.pep646.pep484585646tuple.is_hint_pep484585646_tuple_empty'] = lambda e, a, k: False
    confenum = ctx.repo.mod('beartype._conf.confenum')
    O1 = F.eval_in(confenum, ast.parse('BeartypeStrategy.O1', mode='eval').body)
    ON = F.eval_in(confenum, ast.parse('BeartypeStrategy.On', mode='eval').body)
    CONTAINER = {'sequence', 'reiterable', 'quasi', 'deque', 'mapping', 'tuple_fixed', 'tuple-fixed', 'counter'}
    out = []
    seen = set()
    try:
        for sign, finder in sorted(table.items(), key=lambda kv: sign_name(kv[0])):
            sname = sign_name(sign)
            fam = FAMILY.get(sname)
            is_tuple_fixed = 'TupleFixed' in sname
            if (fam is None and not is_tuple_fixed) or not isinstance(finder, FuncVal) or finder.qual in F.stubs:
                continue      # (the shallow isinstance finder touches no item)
            is_mapping = fam == 'mapping' or sname in ('Counter',)
            if not (is_tuple_fixed or is_mapping or fam in ('sequence', 'reiterable', 'quasi', 'deque')):
                continue
            logic_key = None
            if not (is_tuple_fixed or is_mapping):
                lg = logic.get(sign)
                logic_key = getattr(getattr(lg, 'cls', None), 'name', sname)
            key = (finder.qual, logic_key if logic_key else ('Counter' if sname == 'Counter' else ''))
            if key in seen:
                continue
            seen.add(key)
            kids = 2 if (is_tuple_fixed or (is_mapping and sname != 'Counter')) else 1
            mm = ctx.repo.mod(finder.module)
            # the wrapper hands the explanation the draw it made — or None when it made none (is_random off, or no production
            # of the hint tree needed one): both are explored; a production that needs the draw asserts it got one
            for is_random, random_int in ((True, 7), (True, None), (False, None)):
                lens = (length, kids) if is_tuple_fixed else (length,)
                for n in lens:
                    del log[:]
                    cause = _ACause(sign, kids, n, O1, is_random, random_int)
                    try:
                        res = _call_function(F, finder, [cause], {}, 1)
                        log.append(('result', 'cause-found' if getattr(res, 'cause_str_or_none', None) is not None else 'no-cause'))
                    except _Raise as ex:
                        if is_random and random_int is None:
                            continue      # this production needs the draw: the scenario does not arise
                        ctx.require(False, f'{finder.qual} raises {ex} on a conforming abstract object')
                    except _Abort as ex:
                        if is_random and random_int is None:
                            continue
                        ctx.require(False, f'cannot interpret {finder.qual}: {ex}')
                    tag = f'{finder.qualname}' + (f'[{key[1]}]' if key[1] else '') + f':is_random={is_random}' + (
                        ':no-draw' if (is_random and random_int is None) else '') + (
                        f':length={"equal" if n == kids else "different"}' if is_tuple_fixed else '')
                    out.append((finder, mm, tag, is_tuple_fixed, n, kids, list(log)))
    finally:
        F.builtin_hook, F.isinstance_hook = saved_b, saved_i
        F.stubs.clear()
        F.stubs.update(saved_stubs)
        F.ext_stubs.clear()
        F.ext_stubs.update(saved_ext)
    return out


def _iterable_like(e):
    # a variable holding (a view of) the pith or an enumeration of it — not a scalar such as len(…) / repr(…)
    if isinstance(e, ast.Call) and dotted(e.func) in ('len', 'repr', 'str', 'represent_pith', 'prefix_pith_type',
                                                      'isinstance', 'type', 'next', 'color_type'):
        return False
    if isinstance(e, (ast.JoinedStr, ast.Compare, ast.BoolOp)):
        return False
    return True


def _is_o1_test(e) -> bool:
    s = norm(e)
    return 'strategy' in s and 'O1' in s and ' is ' in s and ' is not ' not in s


def _o1_ok(fn, site, it):
    # (b) inside the non-O1 arm
    child, p = site, parent(site)
    while p is not None and p is not fn:
        if isinstance(p, ast.If) and _is_o1_test(p.test) and any(child is s for s in p.orelse):
            return True, ''
        child, p = p, parent(p)
    # (c) delegated
    if isinstance(it, ast.Call) and isinstance(it.func, ast.Attribute) and it.func.attr == 'enumerate_cause_items':
        return True, ''
    # (a) variable assigned per strategy arm
    if isinstance(it, ast.Name):
        assigns = [a for a in walk_shallow(fn) if isinstance(a, ast.Assign) and len(a.targets) == 1
                   and isinstance(a.targets[0], ast.Name) and a.targets[0].id == it.id
                   and not (isinstance(a.value, ast.Constant) and a.value.value is None)]
        if not assigns:
            return False, f'{it.id} is never assigned'
        for a in assigns:
            arm = None
            child, p = a, parent(a)
            while p is not None and p is not fn:
                if isinstance(p, ast.If) and _is_o1_test(p.test):
                    arm = 'o1' if any(child is s for s in p.body) else 'other'
                    break
                child, p = p, parent(p)
            if arm is None:
                if isinstance(a.value, ast.Call) and isinstance(a.value.func, ast.Attribute) \
                        and a.value.func.attr == 'enumerate_cause_items':
                    continue
                return False, f'{norm(a)[:80]} is not under a `strategy is O1` test'
            if arm == 'o1':
                v = a.value
                one = (isinstance(v, ast.Tuple) and len(v.elts) == 1) or \
                      (isinstance(v, ast.Call) and dotted(v.func) == 'iter' and v.args
                       and isinstance(v.args[0], ast.Tuple) and len(v.args[0].elts) == 1)
                if not one:
                    return False, f'O1 arm assigns {norm(v)[:80]}, not a one-element tuple'
        return True, ''
    # (d) bounded by the hint: dominated by a length comparison with an early return
    for x in walk_shallow(fn):
        if isinstance(x, ast.If) and x.lineno < site.lineno and 'len(cause.pith)' in norm(x.test) \
                and ('!=' in norm(x.test) or '==' in norm(x.test)) \
                and x.body and isinstance(x.body[-1], ast.Return):
            return True, ''
    return False, 'iterates the whole object regardless of the strategy'
