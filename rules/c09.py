"""C09 — constant-time checking.

R1  effect discipline of generated code: only O(1) operations are applied to (parts of)
    the checked object; no loop, comprehension, membership test or aggregate;
R2  non-collections are never iterated (quasi-iterable production);
R3  the explanation path is O(1) under the O1 strategy;
R4  ``conf.strategy`` / ``conf.is_random`` are read only where sampling is decided.
"""
from __future__ import annotations

import ast
import collections

from sa.astutil import dotted
from sa.flow import walk_shallow
from sa.repo import norm, parent, qualname_of
from sa.spec import FAMILY

from . import _gen
from .c01 import prod

ALLOWED_CALLS = {'isinstance', 'issubclass', 'len', 'next', 'iter', 'getattr', 'scope-callable', 'method:values'}
ALLOWED_OPS = {'subscript', '==', 'is', 'is not', '%', 'attr:values'}
# who may read the strategy / randomness options (module -> reason)
STRATEGY_READERS = {
    'beartype._check.cls.logic.logcls': 'decides sampling in generated code and re-sampling in the explanation path',
    'beartype._check.error._pep.pep484585.errpep484585mapping': 'explanation path: first item under O1, all items otherwise',
    'beartype._decor._nontype.decornontype': 'O0 strategy: decoration reduces to a no-op',
    'beartype.bite.collection.infercollectionitems': 'hint inference (not type-checking)',
    'beartype._conf.confmain': 'the option properties themselves',
    'beartype._conf.conftest': 'option validation',
    'beartype._conf.confcommon': 'default configurations',
}


def run(ctx):
    sw = _gen.sweep(ctx)
    bad = _gen.bad_pairs(ctx, sw)
    CODEMAIN = 'beartype/_check/code/codemain.py:0'

    # ---- R1 ----------------------------------------------------------------------
    ctx.rule('C09.R1', 'every operation that generated code applies to the checked object or a part of it is one '
             'of: isinstance, issubclass, len, next(iter(·)), iter, getattr, a validator call, subscription, ==, '
             'identity, % of the draw by len; generated code is a single expression without comprehension, loop, '
             'membership test or aggregate builtin (the term evaluator rejects any other construct)')
    seen = collections.Counter()
    offenders = {}
    for d in sw:
        if d['status'] == 'parse' and 'unsupported construct' in (d.get('parse_error') or ''):
            offenders.setdefault('unsupported-construct', f'{d["shape"]}: {d["parse_error"]}')
        for op, operands in d.get('vocab', []):
            seen[op] += 1
            name = op.split(':', 1)[1] if op.startswith('call:') else op
            ok = (name in ALLOWED_CALLS) if op.startswith('call:') else (op in ALLOWED_OPS)
            if op.startswith('attr:') and op != 'attr:values':
                # attribute reads only occur as validator-internal getattr() or .values()
                ok = False
            if not ok:
                offenders.setdefault(op, f'{d["shape"]}: {op}({", ".join(operands)[:120]})')
    for op, n in sorted(seen.items()):
        ctx.ob('C09.R1', f'op:{op}', CODEMAIN, f'operation {op} (applied {n} times to the checked object) is O(1)',
               op not in offenders, offenders.get(op, ''))
    if 'unsupported-construct' in offenders:
        ctx.ob('C09.R1', 'op:unsupported-construct', CODEMAIN, 'generated code uses only expression constructs of '
               'the O(1) vocabulary', False, offenders['unsupported-construct'])
    ctx.floor('C09.R1', len(seen), 8, 'distinct operations applied to the checked object')

    # ---- R2 ----------------------------------------------------------------------
    ctx.rule('C09.R2', 'in the quasi-iterable production (Container / Iterable / Reversible) every item access is '
             'dominated, in short-circuit order, by isinstance(pith, Collection) and a non-emptiness test: the '
             'generated term equals the reference term, which has exactly that shape')
    quasi = {k for k, v in FAMILY.items() if v == 'quasi'}
    g = collections.defaultdict(lambda: [0, None])
    for d in sw:
        if prod(d) not in quasi or d['status'] != 'ok' or _gen.tainted(d, bad):
            continue
        x = g[prod(d)]
        x[0] += 1
        # structural equality with the reference is required here (no logical fallback): the guard
        # must be present, not merely implied
        why = (d['safety'][0] if d['safety'] else None) or (d['accept_detail'] or None) or (d['detect_detail'] or None)
        if why and x[1] is None:
            x[1] = f'{d["shape"]}: {why}'
    for p, (n, why) in sorted(g.items()):
        ctx.ob('C09.R2', f'quasi-guard:{p}', CODEMAIN, f'{n} shapes rooted at {p} guard item access by '
               f'isinstance(·, Collection) and non-emptiness', why is None, why or '')
    ctx.floor('C09.R2', sum(n for n, _ in g.values()), 20, 'quasi-iterable shape evaluations')

    # ---- R3 ----------------------------------------------------------------------
    _explain_o1(ctx)

    # ---- R4 ----------------------------------------------------------------------
    ctx.rule('C09.R4', 'who-may-read: the strategy and is_random options are read only by the modules that decide '
             'sampling (table with reasons); in particular nothing under beartype/_check/code or '
             'beartype/_data/check reads them')
    n = 0
    for mn, m in sorted(ctx.repo.modules.items()):
        if '.strategy' not in m.src and '.is_random' not in m.src:
            continue
        for node in ast.walk(m.tree):
            if isinstance(node, ast.Attribute) and node.attr in ('strategy', 'is_random') \
                    and isinstance(node.ctx, ast.Load):
                base = dotted(node.value) or ''
                if not (base.endswith('conf') or base.endswith('.conf') or base == 'self'):
                    continue
                n += 1
                ctx.ob('C09.R4', f'reader:{mn}:{node.attr}', m.where(node),
                       f'{mn} may read conf.{node.attr}', mn in STRATEGY_READERS,
                       'not among the modules that decide sampling')
    ctx.floor('C09.R4', n, 6, 'reads of conf.strategy / conf.is_random')


def _explain_o1(ctx):
    ctx.rule('C09.R3', 'explanation path: every loop, comprehension or aggregate over (something derived from) '
             'cause.pith is either (a) fed from a variable that is a one-element tuple on the O1 arm of a '
             '`strategy is BeartypeStrategy.O1` test, (b) inside the non-O1 arm, (c) delegated to '
             'enumerate_cause_items, or (d) the fixed-tuple loop dominated by the length-equality early return')
    mods = [mn for mn in ctx.repo.modules if mn.startswith('beartype._check.error')] + ['beartype._check.cls.logic.logcls']
    n = 0
    for mn in sorted(mods):
        m = ctx.repo.mod(mn)
        if 'pith' not in m.src:
            continue
        for fn in [x for x in ast.walk(m.tree) if isinstance(x, (ast.FunctionDef, ast.AsyncFunctionDef))]:
            tainted = {}

            def mentions_pith(e):
                s = norm(e)
                return 'cause.pith' in s or 'enumerate_cause_items' in s or any(isinstance(x, ast.Name) and x.id in tainted for x in ast.walk(e))
            changed = True
            while changed:
                changed = False
                for a in walk_shallow(fn):
                    if isinstance(a, ast.Assign) and len(a.targets) == 1 and isinstance(a.targets[0], ast.Name):
                        if a.targets[0].id not in tainted and mentions_pith(a.value) and _iterable_like(a.value):
                            tainted[a.targets[0].id] = True
                            changed = True
            sites = []
            for x in walk_shallow(fn):
                if isinstance(x, (ast.For, ast.AsyncFor)) and mentions_pith(x.iter):
                    sites.append((x, x.iter))
                elif isinstance(x, (ast.ListComp, ast.SetComp, ast.GeneratorExp, ast.DictComp)):
                    for gnr in x.generators:
                        if mentions_pith(gnr.iter):
                            sites.append((x, gnr.iter))
                elif isinstance(x, ast.Call) and dotted(x.func) in ('all', 'any', 'sum', 'min', 'max', 'sorted', 'list',
                                                                   'tuple', 'set', 'frozenset', 'dict') \
                        and x.args and mentions_pith(x.args[0]) and not isinstance(x.args[0], (ast.GeneratorExp, ast.Tuple)):
                    sites.append((x, x.args[0]))
            for x in walk_shallow(fn):
                # a function that *returns* an enumeration of the object (enumerate_cause_items)
                if isinstance(x, ast.Return) and isinstance(x.value, ast.Name) and x.value.id in tainted and any(
                        isinstance(a, ast.Assign) and isinstance(a.targets[0], ast.Name)
                        and a.targets[0].id == x.value.id and isinstance(a.value, ast.Call)
                        and dotted(a.value.func) in ('enumerate', 'iter', 'zip', 'reversed')
                        for a in walk_shallow(fn)):
                    sites.append((x, x.value))
            for site, it in sites:
                n += 1
                ok, why = _o1_ok(fn, site, it)
                ctx.ob('C09.R3', f'{mn.split(".")[-1]}.{qualname_of(fn)}:loop over {norm(it)[:60]}', m.where(site),
                       'iteration over the checked object is O(1) under the O1 strategy', ok, why)
    ctx.floor('C09.R3', n, 4, 'iterations over the checked object in the explanation path')


def _iterable_like(e):
    # a variable holding (a view of) the pith or an enumeration of it — not a scalar such as len(…) / repr(…)
    if isinstance(e, ast.Call) and dotted(e.func) in ('len', 'repr', 'str', 'represent_pith', 'prefix_pith_type',
                                                      'isinstance', 'type', 'next', 'color_type'):
        return False
    if isinstance(e, (ast.JoinedStr, ast.Compare, ast.BoolOp)):
        return False
    return True


def _is_o1_test(e) -> bool:
    s = norm(e)
    return 'strategy' in s and 'O1' in s and ' is ' in s and ' is not ' not in s


def _o1_ok(fn, site, it):
    # (b) inside the non-O1 arm
    child, p = site, parent(site)
    while p is not None and p is not fn:
        if isinstance(p, ast.If) and _is_o1_test(p.test) and any(child is s for s in p.orelse):
            return True, ''
        child, p = p, parent(p)
    # (c) delegated
    if isinstance(it, ast.Call) and isinstance(it.func, ast.Attribute) and it.func.attr == 'enumerate_cause_items':
        return True, ''
    # (a) variable assigned per strategy arm
    if isinstance(it, ast.Name):
        assigns = [a for a in walk_shallow(fn) if isinstance(a, ast.Assign) and len(a.targets) == 1
                   and isinstance(a.targets[0], ast.Name) and a.targets[0].id == it.id
                   and not (isinstance(a.value, ast.Constant) and a.value.value is None)]
        if not assigns:
            return False, f'{it.id} is never assigned'
        for a in assigns:
            arm = None
            child, p = a, parent(a)
            while p is not None and p is not fn:
                if isinstance(p, ast.If) and _is_o1_test(p.test):
                    arm = 'o1' if any(child is s for s in p.body) else 'other'
                    break
                child, p = p, parent(p)
            if arm is None:
                if isinstance(a.value, ast.Call) and isinstance(a.value.func, ast.Attribute) \
                        and a.value.func.attr == 'enumerate_cause_items':
                    continue
                return False, f'{norm(a)[:80]} is not under a `strategy is O1` test'
            if arm == 'o1':
                v = a.value
                one = (isinstance(v, ast.Tuple) and len(v.elts) == 1) or \
                      (isinstance(v, ast.Call) and dotted(v.func) == 'iter' and v.args
                       and isinstance(v.args[0], ast.Tuple) and len(v.args[0].elts) == 1)
                if not one:
                    return False, f'O1 arm assigns {norm(v)[:80]}, not a one-element tuple'
        return True, ''
    # (d) bounded by the hint: dominated by a length comparison with an early return
    for x in walk_shallow(fn):
        if isinstance(x, ast.If) and x.lineno < site.lineno and 'len(cause.pith)' in norm(x.test) \
                and ('!=' in norm(x.test) or '==' in norm(x.test)) \
                and x.body and isinstance(x.body[-1], ast.Return):
            return True, ''
    return False, 'iterates the whole object regardless of the strategy'
