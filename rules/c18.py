"""C18 — hint-rewriting options.

R1  overrides run first: the first reducer (tuple found by role) consults ``conf.hint_overrides``
    and the reducer tuple is applied in order on every iteration;
R2  every child is reduced: each child handed to the generator / the explanation path was
    produced by a sanifying producer that reaches ``reduce_hint``;
R3  the numeric tower is data, not code: ``is_pep484_tower`` is read only under
    ``beartype/_conf`` where it is folded into ``hint_overrides`` (float → float | int,
    complex → complex | float | int);
R4  non-interference of the violation options: they are read only by the class selector,
    the raise/warn selector and the dataclass helper — never by the code generator.
"""
from __future__ import annotations

import ast

from sa.astutil import dotted, params_of
from sa.callgraph import CallGraph
from sa.flow import walk_shallow
from sa.repo import enclosing_function, norm, parent, qualname_of

REDMAIN = 'beartype._check.convert._reduce.redmain'
VIOLATION_READERS = {
    'beartype._check.error.errmain': 'selects the violation class per pith kind',
    'beartype._check.checkmake': 'selects raise vs. warn per pith kind',
    'beartype._decor._type._pep.decortypepep557': 'copies the configuration for dataclass field checking',
}


def run(ctx):
    repo = ctx.repo
    m = repo.mod(REDMAIN)

    # ---- R1 ----------------------------------------------------------------------
    ctx.rule('C18.R1', 'the tuple of reducers that reduce_hint walks (found by role: the module-level tuple of functions '
             'iterated by a for loop inside the fixed-point loop) starts with the reducer that reads conf.hint_overrides '
             '(directly or through its private helpers, wherever it is defined); no later reducer reads the overrides; '
             'every fixed-point iteration walks the whole tuple from the start, so a user override is seen before any '
             'built-in reduction on every iteration')
    from sa.fold import FuncVal
    from . import _gen
    F = _gen.engines(ctx)[0].f
    rh = m.defs.get('reduce_hint')
    ctx.require(rh is not None, 'anchor vanished: reduce_hint')
    loops = []
    for x in walk_shallow(rh):
        if isinstance(x, ast.For):
            for nm in [y.id for y in ast.walk(x.iter) if isinstance(y, ast.Name) and y.id not in params_of(rh)]:
                v = F.value(REDMAIN, nm) if nm in F.module_env(REDMAIN) else None
                if isinstance(v, tuple) and len(v) >= 2 and all(isinstance(e, FuncVal) for e in v):
                    loops.append((x, v))
    ctx.require(loops, 'anchor vanished: reduce_hint iterates no module-level tuple of reducer functions')
    lp, reducers = loops[0]

    def reads_overrides(fv, depth=0):
        for x in ast.walk(fv.node):
            if isinstance(x, ast.Attribute) and x.attr == 'hint_overrides':
                return True
        if depth < 2:
            env = F.module_env(fv.module)
            for c in ast.walk(fv.node):
                if isinstance(c, ast.Call) and isinstance(c.func, ast.Name) and c.func.id.startswith('_'):
                    g = env.get(c.func.id)
                    if isinstance(g, FuncVal) and g != fv and reads_overrides(g, depth + 1):
                        return True
        return False
    ctx.ob('C18.R1', 'reducers:first-is-overrides', m.where(lp),
           'the first reducer consults conf.hint_overrides', reads_overrides(reducers[0]), f'first reducer is {reducers[0].qualname}')
    leak = [o.qualname for o in reducers[1:] if reads_overrides(o)]
    ctx.ob('C18.R1', 'reducers:overrides-only-first', m.where(lp), 'no later reducer consults the overrides', not leak, str(leak))
    ok = len(loops) == 1 and any(isinstance(a, ast.While) for a in _anc(lp, rh)) and (
        isinstance(lp.iter, ast.Name) or (isinstance(lp.iter, ast.Call) and dotted(lp.iter.func) in ('tuple', 'list', 'iter', 'enumerate')
                                          and len(lp.iter.args) == 1 and isinstance(lp.iter.args[0], ast.Name) and not lp.iter.keywords))
    ctx.ob('C18.R1', 'reduce_hint:applies-all-reducers-in-order', m.where(rh),
           'every fixed-point iteration walks the whole reducer tuple from the start', ok,
           f'{len(loops)} loops over the reducer tuple; iterates `{norm(lp.iter)[:60]}`')

    _reduction_loop(ctx)
    from .c03 import explanation_configuration
    explanation_configuration(ctx, 'C18.R6')
    derived_violation_flags(ctx, 'C18.R7')
    _who_builds_metadata(ctx)

    # ---- R2 ----------------------------------------------------------------------
    ctx.rule('C18.R2', 'each hint_sane= argument of enqueue_hint_child_sane and each HintDataError(…) argument is defined '
             'by a sanifying producer (sanify_hint_child, the generic-bases getter, the subclass getter, or the '
             'already sanified root / loop over sanified children), and every producer reaches reduce_hint in the '
             'call graph')
    cg = CallGraph(repo, prefixes=('beartype._check',))
    reduce_q = f'{REDMAIN}.reduce_hint'
    PRODUCERS = {'sanify_hint_child', 'sanify_hint_root_func', 'sanify_hint_root_statement', 'sanify_hint_any',
                 'get_hint_pep484585_generic_unsubbed_bases_unerased',
                 'get_hint_pep484585_generic_unsubbed_bases_unerased_kwargs',
                 'get_hint_pep484585_subclass_hint_child_sanified'}
    reach = {}
    for q, (mm, fn) in cg.funcs.items():
        if fn.name in PRODUCERS:
            via_method = any(isinstance(c, ast.Call) and isinstance(c.func, ast.Attribute) and c.func.attr == 'sanify_hint_child'
                             for c in walk_shallow(fn))     # hint_tree.sanify_hint_child(): abstract on the ABC, both
                                                            # concrete trees delegate to convmain.sanify_hint_child
            reach[fn.name] = reach.get(fn.name, False) or via_method or (reduce_q in cg.reachable([q], max_depth=8))
    for pn in sorted(PRODUCERS):
        if pn in reach:
            ctx.ob('C18.R2', f'producer-reaches-reduce_hint:{pn}', 'beartype/_check/convert/convmain.py:0',
                   f'{pn} transitively calls reduce_hint (so overrides and the tower apply to what it returns)', reach[pn], '')
    # every value a child producer returns derives from the sanified child (never the raw hint it fetched)
    for q, (mm, fn) in sorted(cg.funcs.items()):
        if fn.name not in ('get_hint_pep484585_subclass_hint_child_sanified',):
            continue
        sane = set()
        changed = True
        while changed:
            changed = False
            for a in ast.walk(fn):
                if isinstance(a, ast.Assign) and isinstance(a.targets[0], ast.Name) and a.targets[0].id not in sane:
                    v = a.value
                    from_sanify = any(isinstance(c, ast.Call) and ((isinstance(c.func, ast.Attribute) and c.func.attr.startswith('sanify_hint'))
                                                                   or (dotted(c.func) or '').startswith('sanify_hint')) for c in ast.walk(v))
                    from_sane = any(isinstance(x, ast.Name) and x.id in sane for x in ast.walk(v))
                    if from_sanify or from_sane:
                        sane.add(a.targets[0].id)
                        changed = True
        for r in [x for x in walk_shallow(fn) if isinstance(x, ast.Return) and x.value is not None]:
            v = r.value
            ok = (isinstance(v, ast.Name) and (v.id in sane or repo.resolve_expr(mm, v).kind == 'builtin')) or isinstance(v, ast.Constant)
            ctx.ob('C18.R2', f'producer-returns-sanified:{fn.name}:{norm(v)[:40]}', mm.where(r),
                   f'{fn.name} returns a value derived from the sanified child (or a constant)', ok,
                   f'`return {norm(v)[:60]}` hands on a hint that never went through sanify_hint_child: overrides and the '
                   f'numeric tower are not applied to it')
    n = 0
    for mn, mm in sorted(repo.modules.items()):
        if not mn.startswith('beartype._check'):
            continue
        if 'enqueue_hint_child_sane' not in mm.src and 'HintDataError(' not in mm.src:
            continue
        for c in ast.walk(mm.tree):
            if not isinstance(c, ast.Call):
                continue
            arg = None
            if isinstance(c.func, ast.Attribute) and c.func.attr == 'enqueue_hint_child_sane':
                arg = next((k.value for k in c.keywords if k.arg == 'hint_sane'), c.args[0] if c.args else None)
            elif dotted(c.func) == 'HintDataError':
                arg = c.args[0] if c.args else next((k.value for k in c.keywords if k.arg == 'hint_sane'), None)
            if arg is None:
                continue
            fn = enclosing_function(c)
            if fn is None or fn.name in ('__init__',):
                continue
            n += 1
            src = _provenance(fn, arg, PRODUCERS)
            ctx.ob('C18.R2', f'child:{mn.split(".")[-1]}.{qualname_of(fn)}:{norm(arg)[:40]}', mm.where(c),
                   'the child handed on was produced by a sanifying producer', src is not None,
                   f'`{norm(arg)[:60]}` is not (visibly) the result of a sanifying producer')
    ctx.floor('C18.R2', n, 18, 'children handed to the generator / explanation path')

    # ---- R3 ----------------------------------------------------------------------
    ctx.rule('C18.R3', 'is_pep484_tower is read only under beartype/_conf; it is folded into hint_overrides as '
             'float → float | int and complex → complex | float | int')
    readers = []
    for mn, mm in sorted(repo.modules.items()):
        if 'is_pep484_tower' not in mm.src:
            continue
        for x in ast.walk(mm.tree):
            if isinstance(x, ast.Attribute) and x.attr in ('is_pep484_tower', '_is_pep484_tower') and isinstance(x.ctx, ast.Load):
                readers.append((mn, mm, x))
            if isinstance(x, ast.Subscript) and norm(x.slice) == "'is_pep484_tower'" and isinstance(x.ctx, ast.Load):
                readers.append((mn, mm, x))
    bad = [(mn, mm, x) for mn, mm, x in readers if not mn.startswith('beartype._conf')]
    ctx.ob('C18.R3', 'tower:read-only-in-conf', 'beartype/_conf/conftest.py:0',
           f'{len(readers)} reads of is_pep484_tower, all under beartype/_conf', bool(readers) and not bad,
           f'{bad[0][0]}:{bad[0][2].lineno}' if bad else '')
    om = repo.mod('beartype._conf._confoverrides')
    # the expansion table, by role: the dictionary display of the overrides module whose keys are float and complex (inside a
    # factory function or at module level)
    cand = [x for x in ast.walk(om.tree) if isinstance(x, ast.Dict) and {norm(k) for k in x.keys if k is not None} == {'float', 'complex'}]
    ctx.require(len(cand) == 1, f'anchor vanished: the float / complex expansion table of {om.name} ({len(cand)} candidates)')
    tf = cand[0]
    pairs = {norm(k): norm(v) for k, v in zip(tf.keys, tf.values)}
    ok = pairs == {'float': 'Pep484TowerFloat', 'complex': 'Pep484TowerComplex'}
    tm = repo.mod('beartype._data.typing.datatyping')
    vals = {nm: norm(tm.assigns[nm][-1].value) for nm in ('Pep484TowerFloat', 'Pep484TowerComplex') if nm in tm.assigns}
    ok = ok and _union_of(vals.get('Pep484TowerFloat', '')) == {'float', 'int'} \
        and _union_of(vals.get('Pep484TowerComplex', '')) == {'complex', 'float', 'int'}
    ctx.ob('C18.R3', 'tower:expansion-table', om.where(tf), 'float → float | int, complex → complex | float | int', ok,
           f'{pairs} with {vals}')
    sf = om.defs.get('sanify_conf_kwargs_is_pep484_tower')
    ctx.require(sf is not None, 'anchor vanished: sanify_conf_kwargs_is_pep484_tower')
    st = [a for a in walk_shallow(sf) if isinstance(a, ast.Assign) and norm(a.targets[0]) == "conf_kwargs['hint_overrides']"]
    ok = len(st) == 1 and isinstance(st[0].value, ast.BinOp) and isinstance(st[0].value.op, ast.BitOr)
    ctx.ob('C18.R3', 'tower:merged-into-overrides', om.where(sf),
           'the expansion is merged into (not substituted for) the user overrides', ok, norm(st[0])[:100] if st else '')

    _tower_merge(ctx, om, sf)
    # where the tower is folded in, by role: the call sites of the merger under beartype/_conf (a helper of the validators, or
    # the constructor itself), each guarded by the option — and the constructor reaches one of them
    sites = []
    for mn_, mm_ in sorted(repo.modules.items()):
        if not mn_.startswith('beartype._conf'):
            continue
        for c in [x for x in ast.walk(mm_.tree) if isinstance(x, ast.Call) and (dotted(x.func) or '').split('.')[-1] == 'sanify_conf_kwargs_is_pep484_tower']:
            g = None
            p_ = parent(c)
            while p_ is not None and not isinstance(p_, (ast.FunctionDef, ast.AsyncFunctionDef, ast.Module)):
                if isinstance(p_, ast.If) and any(c is y for b_ in p_.body for y in ast.walk(b_)):
                    g = norm(p_.test)
                    break
                p_ = parent(p_)
            sites.append((mm_, c, g, enclosing_function(c)))
    ctx.ob('C18.R3', 'tower:applied-when-enabled', sites[0][0].where(sites[0][1]) if sites else om.where(sf),
           'the tower is folded into hint_overrides exactly when is_pep484_tower is set',
           len(sites) == 1 and sites[0][2] is not None and "'is_pep484_tower'" in sites[0][2] and 'not ' not in sites[0][2],
           f'calls under guards {[g for _, _, g, _ in sites]}')
    nw = repo.find_def('beartype._conf.confmain', 'BeartypeConf.__new__')
    host = sites[0][3] if sites else None
    reaches = host is nw or (host is not None and any(isinstance(c, ast.Call) and (dotted(c.func) or '').split('.')[-1] == host.name for c in walk_shallow(nw)))
    ctx.ob('C18.R3', 'tower:conf-constructor-sanifies', repo.mod('beartype._conf.confmain').where(nw),
           'BeartypeConf.__new__ folds the tower into the options it stores (itself or through the helper that does)', bool(reaches),
           f'the merger is called from {qualname_of(host) if host is not None else None}')

    # ---- R4 ----------------------------------------------------------------------
    ctx.rule('C18.R4', 'violation_* / _is_violation_*_warn are read only by errmain (class selection), checkmake '
             '(raise/warn selection), the dataclass helper and beartype/_conf — never under _check/code, '
             '_check/convert or _check/cls/logic: which exception reports a violation cannot change what is checked')
    n = 0
    for mn, mm in sorted(repo.modules.items()):
        if 'violation_' not in mm.src:
            continue
        for x in ast.walk(mm.tree):
            name = None
            if isinstance(x, ast.Attribute) and isinstance(x.ctx, ast.Load) and (
                    x.attr in ('violation_door_type', 'violation_param_type', 'violation_return_type', 'violation_type')
                    or x.attr.startswith('_is_violation_')):
                name = x.attr
            if name is None:
                continue
            if dotted(x.value) in ('self',) and mn.startswith('beartype._conf'):
                continue
            n += 1
            ok = mn in VIOLATION_READERS or mn.startswith('beartype._conf') or mn.startswith('beartype.door')
            ctx.ob('C18.R4', f'reader:{mn}:{name}', mm.where(x), f'{mn} may read conf.{name}', ok,
                   'the violation options are read outside the reporting layer')
    ctx.floor('C18.R4', n, 6, 'reads of the violation options')

    # ---- R9 (last: it interprets the union production, which a broken production may make impossible) ----------------
    from .c02 import union_members
    union_members(ctx, 'C18.R9')      # overrides expand into unions: the flattening must keep each member under its own parent metadata


def _anc(node, stop):
    p = parent(node)
    while p is not None and p is not stop:
        yield p
        p = parent(p)


def _union_of(txt: str):
    return {p.strip() for p in txt.replace('Union[', '').replace(']', '').replace(',', '|').split('|') if p.strip()}


def _provenance(fn, arg, producers, depth=0):
    """name of the sanifying producer an expression comes from, or None"""
    if depth > 4:
        return None
    if isinstance(arg, ast.Call):
        nm = (dotted(arg.func) or '').split('.')[-1]
        if nm in producers:
            return nm
        return None
    if isinstance(arg, ast.Attribute) and arg.attr == 'hint_sane':
        return 'already-sanified'
    if isinstance(arg, ast.Name):
        if arg.id in params_of(fn):
            return 'parameter (sanified by the caller)' if 'sane' in arg.id else None
        for a in walk_shallow(fn):
            if isinstance(a, ast.Assign) and any(dotted(t) == arg.id for t in a.targets):
                r = _provenance(fn, a.value, producers, depth + 1)
                if r:
                    return r
            if isinstance(a, ast.For):
                tg = a.target
                names = [e.id for e in (tg.elts if isinstance(tg, ast.Tuple) else [tg]) if isinstance(e, ast.Name)]
                if arg.id in names:
                    it = a.iter
                    if isinstance(it, ast.Call) and dotted(it.func) == 'enumerate' and it.args:
                        it = it.args[0]
                    txt = norm(it)
                    if 'hint_childs_sane' in txt or 'hints_child_sane' in txt:
                        return 'loop over sanified children'
                    if isinstance(it, ast.Call) and (dotted(it.func) or '').split('.')[-1] in producers:
                        return (dotted(it.func) or '').split('.')[-1]
                    if isinstance(it, ast.Call) and isinstance(it.func, ast.Attribute) and it.func.attr == 'keys':
                        r = _dict_filled_from(fn, dotted(it.func.value), producers)
                        if r:
                            return r
            if isinstance(a, ast.Subscript) and dotted(a.value) and isinstance(parent(a), ast.Assign):
                pass
        # subscript of a tuple of sanified children
        for a in walk_shallow(fn):
            if isinstance(a, ast.Assign) and any(dotted(t) == arg.id for t in a.targets) and isinstance(a.value, ast.Subscript):
                if 'hint_childs_sane' in norm(a.value.value):
                    return 'tuple of sanified children'
            if isinstance(a, ast.Assign) and any(dotted(t) == arg.id for t in a.targets) and isinstance(a.value, ast.IfExp):
                for br in (a.value.body, a.value.orelse):
                    r = _provenance(fn, br, producers, depth + 1)
                    if r:
                        return r
    if isinstance(arg, ast.Subscript) and 'hint_childs_sane' in norm(arg.value):
        return 'tuple of sanified children'
    return None


def _dict_filled_from(fn, dict_name, producers):
    """``D[x] = None`` where x iterates something returned by a flattening helper of sanified hints"""
    for a in walk_shallow(fn):
        if isinstance(a, ast.Assign) and isinstance(a.targets[0], ast.Subscript) and dotted(a.targets[0].value) == dict_name:
            key = a.targets[0].slice
            if isinstance(key, ast.Name) and 'sane' in key.id:
                return 'dictionary of sanified children'
    return None


def _tower_merge(ctx, om, sf, RULE='C18.R3'):
    """sanify_conf_kwargs_is_pep484_tower, interpreted over the abstract states of the user's hint_overrides."""
    from sa.fold import AObj, FuncVal, Sym, _Abort, _PyCallable, _Raise, _call_function
    from . import _gen
    F = _gen.engines(ctx)[0].f
    fn = F.const('beartype._conf._confoverrides', 'sanify_conf_kwargs_is_pep484_tower')
    ctx.require(isinstance(fn, FuncVal), 'anchor vanished: sanify_conf_kwargs_is_pep484_tower')
    FLOAT, COMPLEX = Sym('builtin', 'float'), Sym('builtin', 'complex')
    TF, TC, OTHER, X, Y = 'float|int', 'complex|float|int', 'something-else', 'UserClass', 'UserClass|Legacy'

    class AFrozen(dict):
        def __or__(self, o):
            return AFrozen({**self, **o})
        __hash__ = object.__hash__
    tower = AFrozen({FLOAT: TF, COMPLEX: TC})
    saved = dict(F.stubs)
    # the tower table, whichever way the module holds it: returned by a (memoised) factory function and / or bound to a
    # module-level name — both are replaced by the abstract table
    OVQ = 'beartype._conf._confoverrides'
    from sa.fold import ClassVal as _CV
    env_ov = F.module_env(OVQ)
    tower_patched = []
    for nm_, v_ in list(env_ov.items()):
        if 'tower' not in nm_.lower() or nm_.startswith('__'):
            continue
        if isinstance(v_, FuncVal):
            if v_.module == OVQ and not (v_.node.args.args or v_.node.args.kwonlyargs):
                F.stubs[v_.qual] = lambda e, a, k: tower
        elif not isinstance(v_, _CV):
            tower_patched.append((nm_, F.patch_global(OVQ, nm_, tower)))
    # every combination of {absent, restating the tower, conflicting} for float × complex, with and without an unrelated entry
    states = {}
    for fk, fv in (('absent', None), ('as-tower', TF), ('conflict', OTHER)):
        for ck, cv in (('absent', None), ('as-tower', TC), ('conflict', OTHER)):
            for uk in (False, True):
                user = {}
                if uk:
                    user[X] = Y
                if fv is not None:
                    user[FLOAT] = fv
                if cv is not None:
                    user[COMPLEX] = cv
                states[f'float-{fk}:complex-{ck}' + (':unrelated' if uk else '')] = user
    try:
        for nm, user in states.items():
            kw = {'hint_overrides': AFrozen(user), 'is_pep484_tower': True}
            raised = None
            try:
                _call_function(F, fn, [kw], {}, 1)
            except _Raise as ex:
                raised = getattr(ex.what, 'name', str(ex.what))
            except _Abort as ex:
                ctx.require(False, f'cannot interpret sanify_conf_kwargs_is_pep484_tower: {ex}')
            if 'conflict' in nm:
                ok = raised == 'BeartypeConfParamException'
                detail = f'raised {raised}; overrides afterwards {dict(kw["hint_overrides"])}'
            else:
                want = {**user, FLOAT: TF, COMPLEX: TC}
                got = dict(kw['hint_overrides'])
                ok = raised is None and got == want
                detail = f'raised {raised}; hint_overrides afterwards: {sorted(str(k) + "→" + str(v) for k, v in got.items())}'
            ctx.ob(RULE, f'tower-merge:user-overrides={nm}', om.where(sf),
                   'with is_pep484_tower the resulting overrides are the user\'s plus float → float | int and complex → '
                   'complex | float | int (a conflicting user entry for float / complex is rejected)', ok, detail)
    finally:
        for nm_, old_ in tower_patched:
            F.patch_global(OVQ, nm_, old_)
        F.stubs.clear()
        F.stubs.update(saved)


def _reduction_loop(ctx):
    """R5 by interpretation: reduce_hint (the fixed-point loop) with the real overrides reducer and a scripted second
    reducer, over abstract hints and abstract sanified-hint metadata."""
    from sa.fold import AObj, FuncVal, _Abort, _PyCallable, _Raise, _call_function
    from sa.gen import AConf
    from . import _gen
    repo = ctx.repo
    F = _gen.engines(ctx)[0].f
    m = repo.mod(REDMAIN)
    fn = F.const(REDMAIN, 'reduce_hint')
    ctx.require(isinstance(fn, FuncVal), 'anchor vanished: reduce_hint')
    ctx.rule('C18.R5', 'overrides compose, decided by interpreting reduce_hint with the repository\'s own overrides reducer and a '
             'scripted second reducer (Meters → float) over abstract hints: an overridden hint is replaced (float → float | '
             'int); a hint that only *reduces to* an overridden hint is replaced as well (Meters); an override applies '
             'beneath another override\'s replacement (float inside Vector → List[float]); a hint is not expanded again '
             'inside its own replacement')
    # the reducer tuple and the overrides reducer, by role (as in R1)
    tup = None
    for x in walk_shallow(m.defs['reduce_hint']):
        if isinstance(x, ast.For):
            for nm in [y.id for y in ast.walk(x.iter) if isinstance(y, ast.Name)]:
                v = F.module_env(REDMAIN).get(nm)
                if isinstance(v, tuple) and len(v) >= 2 and all(isinstance(e, FuncVal) for e in v):
                    tup = (nm, v)
    ctx.require(tup is not None, 'anchor vanished: the reducer tuple reduce_hint iterates')
    ov = tup[1][0]

    class _H(AObj):
        def __init__(self, n):
            self.n = n

        def __repr__(self):
            return f'<{self.n}>'

    class _Sane(AObj):
        def __init__(self, hint, table):
            self.hint, self.hint_recursable_to_depth = hint, dict(table)
            self.typearg_to_hint = {}

        def __repr__(self):
            return f'<sane {self.hint!r} recursable={list(self.hint_recursable_to_depth)}>'

    class _OV(AObj):
        def __init__(self, pairs):
            self.pairs = pairs

        def get(self, k, default=None):
            for a, b in self.pairs:
                if a is k:
                    return b
            return default

        def keys(self):
            return {a for a, _ in self.pairs}

        def __contains__(self, k):
            return any(a is k for a, _ in self.pairs)

        def __len__(self):
            return len(self.pairs)
    FLOAT, FI, METERS, VEC, LISTF, OTHER = _H('float'), _H('float | int'), _H('Meters'), _H('Vector'), _H('List[float]'), _H('str')
    conf = AConf(hint_overrides=_OV([(FLOAT, FI), (VEC, LISTF)]))
    saved, saved_i = dict(F.stubs), F.isinstance_hook
    table_of = lambda p: dict(getattr(p, 'hint_recursable_to_depth', {}) or {}) if p is not None else {}
    HS = 'beartype._check.cls.hint.hintsane.'
    RR = 'beartype._check.convert._reduce._redrecurse.'
    from sa.fold import bind_call
    fv_rec = F.const(RR[:-1], 'make_hint_sane_recursable')
    fv_isr = F.const(RR[:-1], 'is_hint_recursive')
    fv_mk = F.const(HS[:-1], 'make_hint_sane')
    ctx.require(all(isinstance(x, FuncVal) for x in (fv_rec, fv_isr, fv_mk)), 'anchor vanished: the recursion-guard helpers of the reducers')

    def st_rec(e, a, k):
        b = bind_call(fv_rec, a, k)
        return _Sane(b['hint_nonrecursable'], {**table_of(b.get('hint_parent_sane')), b['hint_recursable']: 1})

    def st_mk(e, a, k):
        b = bind_call(fv_mk, a, k)
        return _Sane(b.get('hint'), table_of(b.get('hint_parent_sane')))

    def st_isr(e, a, k):
        b = bind_call(fv_isr, a, k)
        return any(x is b['hint'] for x in table_of(b.get('hint_parent_sane')))
    F.stubs[RR + 'make_hint_sane_recursable'] = st_rec
    F.stubs[HS + 'make_hint_sane'] = st_mk
    F.stubs[RR + 'is_hint_recursive'] = st_isr
    F.stubs['beartype._util.error.utilerrraise.reraise_exception_placeholder'] = \
        lambda e, a, k: (_ for _ in ()).throw(_Abort(f'reduce_hint re-raises {k.get("exception", a[0] if a else None)!r}'))

    def ih(o, c):
        if isinstance(o, (_H, _Sane)):
            return isinstance(o, _Sane) and 'HintSane' in repr(c)
        return saved_i(o, c) if saved_i else None
    F.isinstance_hook = ih
    other = _PyCallable(lambda **kw: FLOAT if kw['hint'] is METERS else kw['hint'])
    old = F.patch_global(REDMAIN, tup[0], (ov, other))
    olds2 = [(n_, F.patch_global(REDMAIN, n_, _H(n_))) for n_ in ('HINT_SANE_IGNORABLE', 'HINT_IGNORABLE') if n_ in F.module_env(REDMAIN)]
    cases = [
        ('overridden-hint', FLOAT, None, FI),
        ('hint-that-reduces-to-an-overridden-hint', METERS, None, FI),
        ('unrelated-hint', OTHER, None, OTHER),
        ('override-beneath-another-replacement', FLOAT, _Sane(LISTF, {VEC: 1}), FI),
        ('not-expanded-inside-its-own-replacement', VEC, _Sane(LISTF, {VEC: 1}), VEC),
        ('not-expanded-inside-its-own-replacement(self-containing)', FLOAT, _Sane(FI, {FLOAT: 1}), FLOAT),
    ]
    try:
        for name, hint, parent, want in cases:
            try:
                out = _call_function(F, fn, [], dict(call_curr=AObj(), hint=hint, conf=conf, hint_parent_sane=parent), 1)
            except (_Abort, _Raise) as ex:
                ctx.require(False, f'cannot interpret reduce_hint ({name}): {ex}')
            got = getattr(out, 'hint', out)
            ctx.ob('C18.R5', f'reduce_hint:{name}', m.where(fn.node),
                   f'{hint!r}' + (f' beneath {parent!r}' if parent is not None else '') + f' reduces to {want!r}', got is want,
                   f'evaluates to {out!r}')
    finally:
        F.patch_global(REDMAIN, tup[0], old)
        for n_, o_ in olds2:
            F.patch_global(REDMAIN, n_, o_)
        F.isinstance_hook = saved_i
        F.stubs.clear()
        F.stubs.update(saved)


def derived_violation_flags(ctx, RULE):
    """Shared with C03.R10: the raise-or-warn flag of each kind of violation is derived from the option of that kind."""
    import re
    Q = 'beartype._conf.confmain'
    m = ctx.repo.mod(Q)
    fn = ctx.repo.find_def(Q, 'BeartypeConf.__new__')
    ctx.rule(RULE, 'the violation_type family changes only the class of the signal, per kind of violation: each private flag '
             '_is_violation_<kind>_warn that BeartypeConf.__new__ derives (it decides whether the wrapper raises or warns) is '
             'computed from the option of the same kind (_violation_<kind>_type) and from no other option — a flag derived from '
             'another kind\'s option raises a warning class or calls warn() with an exception class')
    n = 0
    # (in the constructor or in whatever private helper of the module it hands the new instance to)
    for a in [x for x in ast.walk(m.tree) if isinstance(x, ast.Assign) and len(x.targets) == 1]:
        t = a.targets[0]
        mt = re.fullmatch(r'_is_violation_(\w+)_warn', t.attr) if isinstance(t, ast.Attribute) and isinstance(t.value, ast.Name) else None
        if not mt:
            continue
        n += 1
        recv = t.value.id
        used = sorted({x.attr for x in ast.walk(a.value) if isinstance(x, ast.Attribute) and dotted(x.value) == recv})
        ctx.ob(RULE, f'derived-flag:{t.attr}', m.where(a), f'the flag is derived from _violation_{mt.group(1)}_type only',
               used == [f'_violation_{mt.group(1)}_type'], f'derived from {used}')
    ctx.floor(RULE, n, 3, 'derived raise-or-warn flags')


def _who_builds_metadata(ctx):
    """R8: who may build sanified metadata."""
    repo = ctx.repo
    ctx.rule('C18.R8', 'who may build sanified hint metadata: make_hint_sane(…) / HintSane(…) are called only by the conversion '
             'pipeline (beartype/_check/convert) and by the metadata module itself — metadata built anywhere else (the code '
             'generator, the explanation path) wraps a hint that has not passed the reducers, so overrides and the tower are '
             'silently not applied to it')
    inside = 0
    outside = []
    for mn, m in sorted(repo.modules.items()):
        for c in [x for x in ast.walk(m.tree) if isinstance(x, ast.Call) and (dotted(x.func) or '').split('.')[-1] in ('make_hint_sane', 'HintSane')]:
            if mn.startswith('beartype._check.convert') or mn == 'beartype._check.cls.hint.hintsane':
                inside += 1
            else:
                outside.append((m, c))
    for m, c in outside:
        fn = enclosing_function(c)
        ctx.ob('C18.R8', f'builds-metadata:{m.name.rsplit(".", 1)[-1]}.{qualname_of(fn) if fn is not None else "<module>"}', m.where(c),
               'sanified metadata is built by the conversion pipeline only', False, f'`{norm(c)[:90]}` builds metadata for an unreduced hint')
    ctx.ob('C18.R8', 'builds-metadata:conversion-pipeline', 'beartype/_check/convert/convmain.py:0',
           f'{inside} constructions inside the conversion pipeline, none outside', not outside, f'{len(outside)} outside')
    ctx.floor('C18.R8', inside, 4, 'metadata constructions in the conversion pipeline')
