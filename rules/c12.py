"""C12 — the validator algebra: callable and code representations agree, scopes are
merged, validator code is hygienic for every pith expression the generator hands it, and
the Annotated production is a conjunction of the metahint and every validator.

R1  sibling agreement  ``is_valid`` callable ≡ ``is_valid_code`` string (as terms) for
    every factory and operator;
R2  scopes are merged, not replaced (every name a code string uses is in its scope);
R3  hygiene of ``{obj}``: formatted with each syntactic category of pith expression the
    generator was observed to pass, the code still denotes the validator applied to that
    object;
R4  Annotated = metahint ∧ validator_1 ∧ … (generated code), and the explanation path
    consults every validator through ``is_valid``.
"""
from __future__ import annotations

import ast
import re

from sa.flow import walk_shallow
from sa.predterm import pred_term
from sa.repo import norm
from sa.spec import Spec, first_difference, match, objkey, vcode, vlocals
from sa.terms import TermError, Terms, show

from . import _gen


def run(ctx):
    G, V, cat, GC = _gen.engines(ctx)
    sw = _gen.sweep(ctx)
    F = G.f
    vale_files = {n: F.repo.mod(m).relpath for n, (m, _) in
                  {**__import__('sa.vale', fromlist=['FACTORIES']).FACTORIES,
                   **__import__('sa.vale', fromlist=['OPERATORS']).OPERATORS}.items()}

    # ---- R1 ---------------------------------------------------------------------
    ctx.rule('C12.R1', 'for every validator built by a factory or operator, the term of its is_valid callable '
             '(lambda / nested def, with helper predicates inlined and operand validators expanded) equals the '
             'term of its is_valid_code string applied to the same object')
    for name, v in cat.items():
        code = vcode(v)
        loc = vlocals(v)
        where = _where(v, vale_files)
        text = str.format(str(code), obj='__beartype_pith_7', indent='')
        T = Terms(scope_key=lambda n, loc=loc: (objkey(loc[n]) if n in loc else None),
                  extra_bound={'__beartype_pith_7': ('root',)})
        try:
            code_term = T.of(text)
        except TermError as ex:
            ctx.ob('C12.R1', f'validator:{name}', where, 'the code string is an expression', False, str(ex))
            continue
        fn = v.attrs.get('_is_valid')
        call_term = pred_term(F, fn, [('root',)])
        ok = match(call_term, code_term)
        ctx.ob('C12.R1', f'validator:{name}', where,
               f'is_valid and is_valid_code of {name} denote the same test', ok,
               '' if ok else f'callable: {show(call_term)[:200]}  code: {show(code_term)[:200]}')
    ctx.floor('C12.R1', len(cat), 10, 'catalogue validators (5 factories, 3 operators, nestings)')

    # ---- R2 ---------------------------------------------------------------------
    ctx.rule('C12.R2', 'every scope name used by a validator code string is bound in that validator\'s scope '
             '(binary operators merge both operand scopes, IsAttr adds its sentinel to the operand scope), and '
             'the Annotated production adds each validator scope to the wrapper scope')
    pref = GC.name_prefix
    for name, v in cat.items():
        code = str(vcode(v))
        loc = vlocals(v)
        used = set(re.findall(rf'\b{re.escape(pref)}object_\d+\b', code))
        missing = sorted(used - set(loc))
        ctx.ob('C12.R2', f'scope:{name}', _where(v, vale_files),
               'all scope names used by the code are bound in the validator scope', not missing,
               f'unbound: {missing}')
    # Annotated at the root or nested anywhere in the shape (a nested position localises the pith differently)
    ann = [d for d in sw if 'Annotated' in d['shape'] and d['status'] == 'ok']
    unresolved = [d for d in ann if d['unresolved']]
    ctx.ob('C12.R2', 'scope:Annotated-production', 'beartype/_check/code/codemain.py:0',
           'wrapper scope of every Annotated shape binds every name used by its validators',
           not unresolved, unresolved[0]['shape'] + ': ' + str(unresolved[0]['unresolved']) if unresolved else '')
    ctx.floor('C12.R2', len(ann), 20, 'Annotated shapes generated')

    # ---- R3 ---------------------------------------------------------------------
    ctx.rule('C12.R3', 'hygiene of {obj}: for each factory and each syntactic category of pith expression the '
             'generator passes to validators of that factory (observed on the interpreted generator: identifier, '
             'subscription/call atom, assignment expression), the formatted code parses and denotes the validator '
             'applied to that object (no identifier fusion, no re-association by operator precedence)')
    lh = _gen.leaf_hygiene(ctx, sw)
    for (f, category), (ok, detail, kind) in sorted(lh.items()):
        ctx.ob('C12.R3', f'validator-code:{f}:obj={category}', vale_files.get(f, 'beartype/vale/__init__.py') + ':0',
               f'code of {f} stays correct when {{obj}} is a {category} pith expression', ok, detail)
    ctx.floor('C12.R3', len(lh), 5, '(factory, category) pairs observed')

    # ---- R4 ---------------------------------------------------------------------
    ctx.rule('C12.R4', 'the Annotated production is the conjunction of the (unignorable) metahint and every '
             'validator, in order; the explanation path loops over all validators without slicing and tests '
             'each through is_valid')
    bad = _gen.bad_pairs(ctx, sw)
    groups = {}
    for d in ann:
        if _gen.tainted(d, bad):
            continue
        nvals = len(d.get('valtrace', []))
        k = f'{"metahint+" if "Annotated[Ignorable" not in d["shape"] and not d["root"].startswith("Annotated<") else ""}{nvals}-validators' + (
            '' if d['root'].startswith('Annotated') else ':nested')
        g = groups.setdefault(k, [0, None])
        g[0] += 1
        why = _gen.shape_failure(d, 'detect') or _gen.shape_failure(d, 'accept')
        if why and g[1] is None:
            g[1] = f'{d["shape"]}: {why}'
    for k, (n, why) in sorted(groups.items()):
        ctx.ob('C12.R4', f'annotated:{k}', 'beartype/_check/code/codemain.py:0',
               f'{n} Annotated shapes ({k}) equal metahint ∧ every validator', why is None, why or '')
    # explanation path: the Annotated cause finder interpreted with scripted validators (shared with C03.R8)
    from .c03 import _annotated_explanation_order
    _annotated_explanation_order(ctx, _gen.engines(ctx)[0].f, 'C12.R5')

    # ---- R6 ---------------------------------------------------------------------
    _operand_as_written(ctx, G, V)
    ctx.floor('C12.R4', sum(n for n, _ in groups.values()), 10, 'untainted Annotated shapes')


def _where(v, files):
    lab = v.attrs.get('label', '')
    for f, path in files.items():
        if lab.startswith(f + '[') or (f in '&|~' and (lab.startswith('(') or lab.startswith('~'))):
            return f'{path}:0'
    return 'beartype/vale/__init__.py:0'


def _operand_as_written(ctx, G, V):
    """R6: the object a leaf validator tests against is the object the user subscripted the factory with."""
    from sa.fold import FuncVal, _Abort, _Raise, _call_function
    from sa.gen import ALiteral, AType
    from sa.spec import objkey, vcode, vlocals
    ctx.rule('C12.R6', 'a validator means what the user wrote: interpreting Factory[argument] for IsEqual with argument ∈ {a literal, '
             'a 1-tuple of it, a 2-tuple, a list} the object placed in the scope of the generated code — the right operand of '
             '== — is that very argument (IsEqual[(3,)] compares with the tuple, not with 3); for IsInstance / IsSubclass with '
             'argument ∈ {a class, a builtin class, a 1-tuple, a 2-tuple of classes} the scope object denotes exactly the classes given '
             '(a class is reached through the scope of the generated code, never by a bare name the user\'s module may shadow)')
    lit, lit2 = ALiteral('five'), ALiteral('six')
    T1, T2 = AType('V'), AType('W')
    TB = AType('range', is_builtin=True)
    n = 0
    for factory, args in (('IsEqual', [('literal', lit), ('1-tuple', (lit,)), ('2-tuple', (lit, lit2)), ('list', [lit])]),
                          ('IsInstance', [('class', T1), ('builtin-class', TB), ('1-tuple', (T1,)), ('2-tuple', (T1, T2))]),
                          ('IsSubclass', [('class', T1), ('builtin-class', TB), ('1-tuple', (T1,)), ('2-tuple', (T1, T2))])):
        fobj = V.factories[factory]
        getitem = fobj.cls.find('__getitem__')
        ctx.require(isinstance(getitem, FuncVal), f'anchor vanished: {factory}.__getitem__')
        where = ctx.repo.mod(getitem.module).where(getitem.node)
        for shape, arg in args:
            try:
                v = _call_function(G.f, getitem, [fobj, arg], {}, 1)
            except (_Abort, _Raise) as ex:
                ctx.require(False, f'cannot interpret {factory}[{arg!r}]: {ex}')
            loc = vlocals(v)
            n += 1
            if factory == 'IsEqual':
                ok = any(o is arg or (type(o) is type(arg) and isinstance(arg, (tuple, list)) and len(o) == len(arg)
                                      and all(a is b for a, b in zip(o, arg))) for o in loc.values())
                ctx.ob('C12.R6', f'operand:{factory}:{shape}', where, 'the code compares with the argument as written', ok,
                       f'{factory}[{arg!r}] places {list(loc.values())!r} in the scope of `{str(vcode(v)).strip().splitlines()[-1].strip()[:60]}`')
            else:
                want = frozenset(objkey(x) for x in (arg if isinstance(arg, tuple) else (arg,)))
                got = [frozenset(objkey(x) for x in (o if isinstance(o, (tuple, list, set, frozenset)) else (o,))) for o in loc.values()]
                ctx.ob('C12.R6', f'operand:{factory}:{shape}', where, 'the code tests against exactly the classes given', want in got,
                       f'{factory}[{arg!r}] places {list(loc.values())!r} in the scope')
    ctx.floor('C12.R6', n, 10, 'factory subscriptions')
