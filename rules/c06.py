"""C06 — hook scoping after any history.

R1  lock discipline: the package registry, the path-hook slot and ``sys.path_hooks`` are
    only touched under ``claw_lock`` (lexically, or in every caller);
R2  lookup semantics: blacklist before whitelist; deepest registered prefix wins;
R3  conflict handling is atomic: no registry store precedes a conflict ``raise`` on any path;
R4  ``beartyping()`` restores what it changes (write set ⊆ restore set; the restore
    condition compares with the value that was actually stored);
R5  adding / removing the path hook is idempotent and paired with cache invalidation.
"""
from __future__ import annotations

import ast

from sa.astutil import dotted, inside_with
from sa.callgraph import CallGraph
from sa.flow import Flow, walk_shallow
from sa.repo import norm, qualname_of, enclosing_function, parent

STATE_FIELDS = ('packages_trie_whitelist', 'packages_trie_blacklist', 'beartype_path_hook')
LOCK = 'claw_lock'
EXEMPT = {
    'beartype.claw._clawstate.BeartypeClawState.__init__': 'constructor of the singleton (import time)',
    'beartype.claw._clawstate.BeartypeClawState._reinit_safe': 'constructor helper / test teardown API',
    'beartype.claw._clawstate.BeartypeClawState.reinit': 'test teardown API',
    'beartype.claw._clawstate.BeartypeClawState.__repr__': 'debug representation',
}


def _is_lock(e):
    return dotted(e) == LOCK


def _state_accesses(fn):
    out = []
    for n in walk_shallow(fn):
        if isinstance(n, ast.Attribute) and n.attr in STATE_FIELDS and dotted(n.value) in ('claw_state', 'self'):
            out.append(n)
        elif isinstance(n, ast.Name) and n.id == 'path_hooks':
            out.append(n)
        elif isinstance(n, ast.Attribute) and dotted(n) == 'sys.path_hooks':
            out.append(n)
    return out


def run(ctx):
    repo = ctx.repo
    cg = CallGraph(repo, prefixes=('beartype.claw',))
    lock_discipline(ctx, repo, cg, 'C06.R1')
    _rest(ctx, repo, cg)


def lock_discipline(ctx, repo, cg, RULE):
    # ---- R1 ----------------------------------------------------------------------
    ctx.rule(RULE, 'every read or write of claw_state.packages_trie_*, claw_state.beartype_path_hook and '
             'sys.path_hooks is lexically inside `with claw_lock` or in a function all of whose (resolved) call '
             'sites are, transitively; functions without any caller in the package count as unlocked entry points')
    memo = {}

    def locked_fn(q, depth=0):
        """every call site of q is under the lock"""
        if q in memo:
            return memo[q]
        memo[q] = (False, 'recursion')
        callers = cg.callers.get(q, [])
        if not callers:
            memo[q] = (False, f'{q.split(".")[-1]} has no caller under beartype.claw that holds the lock')
            return memo[q]
        if depth > 5:
            return memo[q]
        for cq, call in callers:
            if inside_with(call, _is_lock) or cq in EXEMPT:
                continue
            if cq.endswith('.<module>'):
                memo[q] = (False, f'called at module level of {cq}')
                return memo[q]
            ok, why = locked_fn(cq, depth + 1)
            if not ok:
                memo[q] = (False, f'called from {cq.split(".")[-1]} outside the lock ({why})')
                return memo[q]
        memo[q] = (True, '')
        return memo[q]
    n = 0
    for q, (m, fn) in sorted(cg.funcs.items()):
        acc = _state_accesses(fn)
        if not acc:
            continue
        for a in acc:
            n += 1
            if q in EXEMPT:
                continue
            if inside_with(a, _is_lock):
                ok, why = True, ''
            else:
                ok, why = locked_fn(q)
            ctx.ob(RULE, f'{q.replace("beartype.claw.", "")}:{norm(a)}:{"store" if isinstance(getattr(a, "ctx", None), ast.Store) else "access"}',
                   m.where(a), f'access of {norm(a)} is under {LOCK}', ok, why)
    ctx.floor(RULE, n, 15, 'accesses of the shared hook state')
    # one snapshot per operation: a function that consults the shared state in two separate critical sections lets a
    # registration land between them (it may see the exclusion list of before and the registrations of after)
    touch_memo = {}

    def touches(q, depth=0):
        if q in touch_memo:
            return touch_memo[q]
        touch_memo[q] = False
        if q not in cg.funcs:
            return False
        r = bool(_state_accesses(cg.funcs[q][1]))
        if not r and depth < 3:
            r = any(touches(cq, depth + 1) for _, cq in cg.calls.get(q, []) if cq)
        touch_memo[q] = r
        return r
    for q, (m, fn) in sorted(cg.funcs.items()):
        if q in EXEMPT:
            continue
        regions = [w for w in ast.walk(fn) if isinstance(w, ast.With) and any(_is_lock(i.context_expr) for i in w.items)
                   and enclosing_function(w) is fn]
        if not regions:
            continue
        site_callee = {id(c): cq for c, cq in cg.calls.get(q, [])}
        used = []
        for w in regions:
            acc_here = [a for a in _state_accesses(fn) if any(a is x for x in ast.walk(w))]
            calls_here = [c for c in ast.walk(w) if isinstance(c, ast.Call) and site_callee.get(id(c)) and touches(site_callee[id(c)])]
            if acc_here or calls_here:
                used.append(w)
        # the two halves of a context manager (before / after its yield) are two operations
        yields = sorted(y.lineno for y in ast.walk(fn) if isinstance(y, (ast.Yield, ast.YieldFrom)) and enclosing_function(y) is fn)
        segs = {}
        for w in used:
            segs.setdefault(sum(1 for y in yields if y < w.lineno), []).append(w)
        used = max(segs.values(), key=len) if segs else []
        ctx.ob(RULE, f'{q.replace("beartype.claw.", "")}:one-snapshot', m.where(fn),
               'the shared hook state is consulted within one critical section per operation', len(used) <= 1,
               f'{len(used)} separate `with {LOCK}` regions (lines {[w.lineno for w in used]}) consult the registry: a '
               f'registration may land between them')



def _rest(ctx, repo, cg):
    # ---- R2 ----------------------------------------------------------------------
    _lookup_semantics(ctx, repo)

    # ---- R3 ----------------------------------------------------------------------
    ctx.rule('C06.R3', 'in the call tree of hook_packages\' critical section no registry store may precede a '
             '`raise BeartypeClawHookException` on any path, including across loop iterations and across sibling '
             'callees (a conflict must be detected before anything is registered)')
    pm = repo.mod('beartype.claw._package.clawpkgmain')
    hp = pm.defs.get('hook_packages')
    ctx.require(hp is not None, 'anchor vanished: hook_packages')

    def stores_in(node):
        out = []
        for x in ast.walk(node):
            if isinstance(x, (ast.Assign, ast.AugAssign)):
                tgts = x.targets if isinstance(x, ast.Assign) else [x.target]
                for t in tgts:
                    if isinstance(t, ast.Subscript) and 'trie' in norm(t.value):
                        out.append(norm(t))
                    if isinstance(t, ast.Attribute) and t.attr == 'conf_if_hooked':
                        out.append(norm(t))
        return out
    summaries = {}
    # the registering helpers are found by role, not by name: the functions of this module that hook_packages calls
    # inside its critical section and that store into the registry.  role = what they register
    withs0 = [w for w in walk_shallow(hp) if isinstance(w, ast.With) and any(_is_lock(i.context_expr) for i in w.items)]
    ctx.require(len(withs0) == 1, 'hook_packages: expected one critical section')
    # the critical section: the body of the `with <lock>` statement — or, when that body merely delegates to a private
    # helper of the module (an extracted "…_locked" function), the body of that helper
    crit_fn, crit_body = hp, withs0[0].body
    for _ in range(3):
        only = crit_body[0] if len(crit_body) == 1 else None
        call = only.value if isinstance(only, (ast.Expr, ast.Return)) and isinstance(getattr(only, 'value', None), ast.Call) else None
        tgt = pm.defs.get(call.func.id) if call is not None and isinstance(call.func, ast.Name) else None
        if not isinstance(tgt, ast.FunctionDef):
            break
        crit_fn = tgt
        crit_body = [x for x in tgt.body if not (isinstance(x, ast.Expr) and isinstance(x.value, ast.Constant))]
    def private_callees(node):
        return [pm.defs[c.func.id] for c in ast.walk(node) if isinstance(c, ast.Call) and isinstance(c.func, ast.Name)
                and c.func.id.startswith('_') and isinstance(pm.defs.get(c.func.id), ast.FunctionDef)]

    def stores_t(node, depth=0):
        """registry stores made by the node itself or, transitively, by the private helpers of the module it calls"""
        out = list(stores_in(node))
        if depth < 2:
            for g in private_callees(node):
                out += stores_t(g, depth + 1)
        return out

    def raisers_t(node, depth=0):
        """names of the exception classes raised by the node itself or by the private helpers it calls"""
        out = [norm(r.exc.func) if isinstance(r.exc, ast.Call) else norm(r.exc) for r in ast.walk(node)
               if isinstance(r, ast.Raise) and r.exc is not None]
        if depth < 2:
            for g in private_callees(node):
                out += raisers_t(g, depth + 1)
        return out
    helpers = []
    for c in [x for st_ in crit_body for x in ast.walk(st_)]:
        if isinstance(c, ast.Call) and isinstance(c.func, ast.Name) and isinstance(pm.defs.get(c.func.id), ast.FunctionDef) \
                and c.func.id not in helpers and stores_t(pm.defs[c.func.id]):
            helpers.append(c.func.id)
    role_of = {}
    for name in helpers:
        fn = pm.defs[name]
        st = stores_t(fn)
        if any('blacklist' in x for x in st) or any('blacklist' in norm(a.value) for a in ast.walk(fn) if isinstance(a, ast.Assign)):
            role_of[name] = 'registration[skip-list]'
        elif any(isinstance(x, ast.For) for x in walk_shallow(fn)):
            role_of[name] = 'registration[some]'
        else:
            role_of[name] = 'registration[all]'
    ctx.require(sorted(role_of.values()) == ['registration[all]', 'registration[skip-list]', 'registration[some]'],
                f'hook_packages: expected one registering helper per role, found {role_of}')
    for name in helpers:
        fn = pm.defs.get(name)
        raises = [r for r in walk_shallow(fn) if isinstance(r, ast.Raise)]
        summaries[name] = (bool(stores_t(fn)), bool(raisers_t(fn)))
        bad = []
        indirect = {}       # statement calling a private helper that can raise -> (exception names, store may precede)

        def on_stmt(node, s_):
            if isinstance(node, (ast.Expr, ast.Assign, ast.AugAssign, ast.Return)):
                ex = [x for g in private_callees(node) for x in raisers_t(g)]
                if ex:
                    prev = indirect.get(id(node), (node, ex, False))
                    indirect[id(node)] = (node, ex, prev[2] or 'store' in s_)
        Flow(lambda node: ['store'] if (isinstance(node, ast.stmt) and not isinstance(node, (ast.For, ast.While, ast.If, ast.With, ast.Try))
                                       and stores_t(node)) else [], mode='may', on_stmt=on_stmt,
             on_exit=lambda node, kind, s: bad.append(node) if (kind == 'raise' and 'store' in s) else None).run(fn)
        for r in raises:
            ctx.ob('C06.R3', f'{role_of[name]}:raise-after-store:{norm(r.exc.func) if isinstance(r.exc, ast.Call) else norm(r.exc)}',
                   pm.where(r), f'no registry store can precede this raise inside {name}', r not in bad,
                   'a store into the registry (earlier loop iteration) may already have happened when this raises')
        for node, ex, after_store in indirect.values():
            for e_ in sorted(set(ex)):
                ctx.ob('C06.R3', f'{role_of[name]}:raise-after-store:{e_}', pm.where(node),
                       f'no registry store can precede the raise reached through `{norm(node)[:60]}` inside {name}', not after_store,
                       'a store into the registry (earlier loop iteration) may already have happened when the helper raises')
    # sibling callees in the critical section
    seq = [c for st_ in crit_body for c in ast.walk(st_) if isinstance(c, ast.Call) and dotted(c.func) in summaries]
    seq.sort(key=lambda c: c.lineno)
    from sa.flow import enumerate_paths

    def callee_events(node):
        return [dotted(c.func) for c in ([node] if isinstance(node, ast.expr) else ast.walk(node))
                if isinstance(c, ast.Call) and dotted(c.func) in summaries]
    pairs = set()
    for ev, kind in enumerate_paths(crit_body, callee_events):
        for i, a in enumerate(ev):
            for b in ev[i + 1:]:
                if summaries[a][0] and summaries[b][1]:
                    pairs.add((a, b))
    for a, b in sorted(pairs):
        c = next(x for x in seq if dotted(x.func) == a)
        ctx.ob('C06.R3', f'hook_packages:{role_of[a]}-then-{role_of[b]}', pm.where(c),
               f'{a} (which stores) is not followed on any path by a callee that can still raise a conflict',
               False, f'{b} may raise after {a} has modified the registry')
    ctx.floor('C06.R3', len(seq), 3, 'registry-modifying callees in the critical section')

    _registration(ctx, repo, cg)

    # ---- R4 ----------------------------------------------------------------------
    ctx.rule('C06.R4', 'beartyping(): (a) every registry field written by the try body (interprocedurally through '
             'beartype_all → hook_packages) is restored by the finally block; (b) the finally block\'s restore '
             'condition compares the registry with the value the body stored: the body stores '
             'make_conf_hookable^k(conf), k ≥ 1, so the comparand must be normalised at least once too')
    cm = repo.mod('beartype.claw._package.clawpkgcontext')
    bt = cm.defs.get('beartyping')
    ctx.require(bt is not None, 'anchor vanished: beartyping')
    tries = [t for t in walk_shallow(bt) if isinstance(t, ast.Try) and t.finalbody]
    ctx.ob('C06.R4', 'beartyping:restore-in-finally', cm.where(bt),
           'the restore runs in a finally block (also when the body of the with statement raises)', len(tries) == 1,
           f'{len(tries)} try/finally statements in beartyping()')
    if len(tries) != 1:
        return _r5(ctx, repo)
    t = tries[0]
    # write set
    writes = set()
    for st in t.body:
        for s in stores_in(st):
            writes.add('whitelist-root-conf' if 'conf_if_hooked' in s else 'trie')
    calls_all = any(isinstance(c, ast.Call) and dotted(c.func) == 'beartype_all' for st in t.body for c in ast.walk(st))
    if calls_all:
        # through hook_packages
        for c in seq:
            nm = dotted(c.func)
            if role_of.get(nm) == 'registration[skip-list]':
                writes.add('blacklist-trie')
            elif role_of.get(nm) == 'registration[all]':
                writes.add('whitelist-root-conf')
        if any(isinstance(c, ast.Call) and dotted(c.func) == 'add_beartype_path_hook' for f_ in {hp, crit_fn} for c in walk_shallow(f_)):
            writes.add('path-hook')
    restores = set()
    for st in t.finalbody:
        for s in stores_in(st):
            if 'conf_if_hooked' in s:
                restores.add('whitelist-root-conf')
            if 'blacklist' in s:
                restores.add('blacklist-trie')
        for c in ast.walk(st):
            if isinstance(c, ast.Call) and 'remove_beartype_path' in (dotted(c.func) or ''):
                restores.add('path-hook')
            if isinstance(c, ast.Call) and 'blacklist' in (dotted(c.func) or '').lower():
                restores.add('blacklist-trie')
    for w in sorted(writes):
        ctx.ob('C06.R4', f'beartyping:restores:{w}', cm.where(t), f'{w}, written inside the block, is restored on exit',
               w in restores, f'the finally block restores only {sorted(restores)}')
    # (a') the root configuration is restored to the value saved before the block overwrote it
    saved = {}
    for st in t.body:
        for a in ast.walk(st):
            if isinstance(a, ast.Assign) and isinstance(a.targets[0], ast.Name) and norm(a.value).endswith('packages_trie_whitelist.conf_if_hooked'):
                saved[a.targets[0].id] = a
    rest = [a for st in t.finalbody for a in ast.walk(st) if isinstance(a, ast.Assign)
            and norm(a.targets[0]).endswith('packages_trie_whitelist.conf_if_hooked')]
    if 'whitelist-root-conf' in writes and rest:
        ok = all(dotted(a.value) in saved for a in rest)
        first_store = min((x.lineno for st in t.body for x in ast.walk(st) if isinstance(x, ast.Assign)
                           and norm(x.targets[0]).endswith('packages_trie_whitelist.conf_if_hooked')), default=0)
        ok = ok and all(saved[dotted(a.value)].lineno < first_store for a in rest if dotted(a.value) in saved)
        ctx.ob('C06.R4', 'beartyping:restores-saved-root-conf', cm.where(rest[0]),
               'the root configuration is restored to the value read before the block first overwrote it', ok,
               f'restored with `{norm(rest[0].value)}`; saved copies: {sorted(saved)}')
    # (b)
    k = sum(1 for a in walk_shallow(hp) if isinstance(a, ast.Assign) and dotted(a.targets[0]) == 'conf'
            and isinstance(a.value, ast.Call) and dotted(a.value.func) == 'make_conf_hookable')
    cmp_ = [x for st in t.finalbody for x in ast.walk(st) if isinstance(x, ast.Compare) and 'conf_if_hooked' in norm(x.left)]
    ctx.require(cmp_, 'beartyping: no comparison of the registry in the finally block')
    comparand = cmp_[0].comparators[0]
    j = 0
    if isinstance(comparand, ast.Call) and dotted(comparand.func) == 'make_conf_hookable':
        j += 1
        comparand = comparand.args[0] if comparand.args else comparand
    cname = dotted(comparand)
    for a in walk_shallow(bt):
        if isinstance(a, ast.Assign) and dotted(a.targets[0]) == cname and isinstance(a.value, ast.Call) \
                and dotted(a.value.func) == 'make_conf_hookable' and a.lineno < cmp_[0].lineno:
            j += 1
    ctx.ob('C06.R4', 'beartyping:restore-condition-compares-stored-value', cm.where(cmp_[0]),
           'the comparand of the restore condition went through make_conf_hookable like the stored value',
           k == 0 or j >= 1, f'stored: make_conf_hookable applied {k}×; compared with `{norm(cmp_[0].comparators[0])}` '
           f'normalised {j}×: for any configuration without an explicit warning class the comparison is false and '
           f'nothing is restored')
    # normaliser idempotence: make_conf_hookable interpreted for both values of the "user set the warning class" flag
    # (shared with C05.R6): a configuration with an explicit class is returned as is (so normalising twice is
    # normalising once), any other is rebuilt with the hook's warning class
    from .c05 import _hookable
    pmm = repo.mod('beartype.claw._package._clawpkgmake')
    mk = pmm.defs.get('make_conf_hookable')
    ctx.require(mk is not None, 'anchor vanished: make_conf_hookable')
    _hookable(ctx, pmm, mk, 'C06.R4')

    _r5(ctx, repo)


class _ATrie(object):
    """Abstract registry node (whitelist or blacklist): a mapping of child nodes plus the slots of the real classes."""
    _track_attribute_stores = True

    def __init__(self, conf=None, **kids):
        self.kids = dict(kids)
        self.conf_if_hooked = conf
        self.package_basename = None

    def values(self):
        return list(self.kids.values())

    def keys(self):
        return list(self.kids.keys())

    def items(self):
        return list(self.kids.items())

    def get(self, k, d=None):
        return self.kids.get(k, d)

    def __iter__(self):
        return iter(list(self.kids))

    def __len__(self):
        return len(self.kids)

    def __contains__(self, k):
        return k in self.kids

    def __getitem__(self, k):
        return self.kids[k]

    def __setitem__(self, k, v):
        self.kids[k] = v

    def __repr__(self):
        return f'<trie conf={self.conf_if_hooked!r} {self.kids!r}>'


def _lookup_semantics(ctx, repo):
    """R2 by interpretation: get_package_conf_or_none('a.b.c') over every abstract registry shape."""
    from sa.fold import AObj, FuncVal, _Abort, _Raise, _WithValue, _call_function
    from . import _gen
    ctx.rule('C06.R2', 'lookup semantics, decided by interpreting get_package_conf_or_none (with is_package_blacklisted and '
             'iter_packages_trie) for the name a.b.c over every abstract registry shape: whitelist chain registered to '
             'depth 0–3 with a configuration set or unset at each depth (root = beartype_all), × blacklist ∈ {none, a, '
             'a.b, a.b.c, unrelated a.x}.  Expected: None when a prefix of the name is blacklisted; otherwise the '
             'configuration of the deepest registered prefix that has one, the root configuration failing that, else None')
    F = _gen.engines(ctx)[0].f
    tm = repo.mod('beartype.claw._package.clawpkgtrie')
    fn = F.const('beartype.claw._package.clawpkgtrie', 'get_package_conf_or_none')
    ctx.require(isinstance(fn, FuncVal), 'anchor vanished: get_package_conf_or_none')

    class _T(_ATrie, AObj):
        pass
    state = AObj()
    BLACKLISTED = _T()
    olds = [F.patch_global('beartype.claw._clawstate', 'claw_state', state),
            F.patch_global('beartype.claw._clawstate', 'claw_lock', _WithValue(None)),
            F.patch_global('beartype.claw._package.clawpkgtrie', 'PackagesTrieBlacklisted', BLACKLISTED)]
    prev_b = F.builtin_hook

    def bh(name, args, kwargs):
        if args and isinstance(args[0], _ATrie) and name in ('bool', 'len'):
            return len(args[0]) if name == 'len' else bool(len(args[0]))
        return prev_b(name, args, kwargs) if prev_b else NotImplemented
    F.builtin_hook = bh
    prev_i = F.isinstance_hook

    def ih(obj, cls):
        if isinstance(obj, (list, tuple)) and 'Collection' in repr(cls):
            return True
        return prev_i(obj, cls) if prev_i else None
    F.isinstance_hook = ih
    comps = ('a', 'b', 'c')
    confs = [f'CONF@{d}' for d in range(4)]        # symbolic configurations, one per depth
    agg = {}
    n = 0
    try:
        for depth in range(4):                       # how many components of a.b.c have a whitelist node
            for mask in range(2 ** (depth + 1)):     # which of root, a, a.b, … carry a configuration
                for bl in ('none', 'a', 'a.b', 'a.b.c', 'a.x', 'a:leaf-with-children', 'a.b:leaf-with-children'):
                    # the blacklisted leaf is one shared object: skipping a subpackage of an already skipped package gives it
                    # children — it is still the leaf (recognised by identity, not by being empty)
                    BLACKLISTED.kids.clear()
                    if bl.endswith(':leaf-with-children'):
                        BLACKLISTED['later'] = _T()
                        bl = bl.split(':')[0]
                    root = _T(confs[0] if mask & 1 else None)
                    cur = root
                    for d in range(1, depth + 1):
                        node = _T(confs[d] if mask & (1 << d) else None)
                        cur[comps[d - 1]] = node
                        cur = node
                    black = _T()
                    if bl != 'none':
                        parts = bl.split('.')
                        curb = black
                        for part in parts[:-1]:
                            nxt = _T()
                            curb[part] = nxt
                            curb = nxt
                        curb[parts[-1]] = BLACKLISTED
                    state.packages_trie_whitelist, state.packages_trie_blacklist = root, black
                    state.beartype_path_hook = None
                    try:
                        out = _call_function(F, fn, ['a.b.c'], {}, 1)
                    except (_Abort, _Raise) as ex:
                        ctx.require(False, f'cannot interpret get_package_conf_or_none: {ex}')
                    if bl in ('a', 'a.b', 'a.b.c'):
                        want = None
                    else:
                        have = [confs[d] for d in range(depth + 1) if mask & (1 << d)]
                        want = have[-1] if have else None
                    n += 1
                    key = ('blacklisted-prefix' if bl in ('a', 'a.b', 'a.b.c') else
                           'deepest-prefix-wins' if (mask & ~1) else 'root-configuration' if mask & 1 else 'nothing-registered')
                    a_ = agg.setdefault(key, [0, None])
                    a_[0] += 1
                    if out != want and a_[1] is None:
                        regs = [('<root>' if d == 0 else '.'.join(comps[:d])) + ('=' + confs[d] if mask & (1 << d) else '')
                                for d in range(depth + 1)]
                        a_[1] = (f'whitelist nodes {regs}, blacklist {bl}: get_package_conf_or_none("a.b.c") evaluates to {out!r}, '
                                 f'expected {want!r}')
    finally:
        F.builtin_hook, F.isinstance_hook = prev_b, prev_i
        F.patch_global('beartype.claw._clawstate', 'claw_state', olds[0])
        F.patch_global('beartype.claw._clawstate', 'claw_lock', olds[1])
        F.patch_global('beartype.claw._package.clawpkgtrie', 'PackagesTrieBlacklisted', olds[2])
    descr = {
        'blacklisted-prefix': 'a blacklisted prefix makes the lookup answer None whatever is whitelisted',
        'deepest-prefix-wins': 'the configuration of the deepest registered prefix that has one is returned',
        'root-configuration': 'with only beartype_all() registered its configuration is returned',
        'nothing-registered': 'without any registration the lookup answers None',
    }
    for key in sorted(descr):
        cnt, why = agg.get(key, [0, 'no shape of this class was evaluated'])
        ctx.ob('C06.R2', f'lookup:{key}', tm.where(fn.node), f'{descr[key]} ({cnt} registry shapes)', why is None and cnt > 0, why or '')
    ctx.floor('C06.R2', n, 150, 'registry shapes evaluated')


def _registration_semantics(ctx, repo):
    """R6 by interpretation: hook_packages() over abstract registry shapes."""
    from sa.fold import AObj, FuncVal, Sym, _Abort, _PyCallable, _Raise, _WithValue, _call_function
    from sa.gen import AConf
    from . import _gen
    ctx.rule('C06.R6', 'registration semantics, decided by interpreting hook_packages (and whatever private helpers it '
             'calls) over abstract registry shapes: registering the dotted name N = a.b / a.b.c with configuration C on a '
             'registry whose chain for N exists to depth 0–3, whose node for N carries no / the same / another '
             'configuration and whose parent carries no / the same / another configuration.  Expected: another '
             'configuration on the node of N ⇒ BeartypeClawHookException; otherwise afterwards the node of N exists and '
             'carries C, every other node keeps what it had; beartype_all likewise for the root; the skip list of C ends '
             'up blacklisted under its full name, and skipping accumulates: over every prior exclusion set × ordered skip '
             'list drawn from {a, a.b, a.b.c, d}, a name is excluded afterwards iff a prefix of it was excluded before or '
             'is in the skip list')
    F = _gen.engines(ctx)[0].f
    pm = repo.mod('beartype.claw._package.clawpkgmain')
    fn = F.const('beartype.claw._package.clawpkgmain', 'hook_packages')
    ctx.require(isinstance(fn, FuncVal), 'anchor vanished: hook_packages')
    cov = F.const('beartype.claw._package.clawpkgenum', 'BeartypeClawCoverage')

    class _T(_ATrie, AObj):
        pass
    state = AObj()
    BLACKLISTED = _T()
    saved = dict(F.stubs)
    mk = _PyCallable(lambda *a, **k: _T())
    patches = [('beartype.claw._clawstate', 'claw_state', state), ('beartype.claw._clawstate', 'claw_lock', _WithValue(None)),
               ('beartype.claw._package.clawpkgtrie', 'PackagesTrieBlacklisted', BLACKLISTED),
               ('beartype.claw._package.clawpkgtrie', 'PackagesTrieBlacklist', mk),
               ('beartype.claw._package.clawpkgtrie', 'PackagesTrieWhitelist', mk)]
    olds = [(m_, n_, F.patch_global(m_, n_, v_)) for m_, n_, v_ in patches]
    F.stubs['beartype._util.py.utilpyinterpreter.is_python_optimized'] = lambda e, a, k: False
    F.stubs['beartype.claw._package._clawpkgmake.make_conf_hookable'] = lambda e, a, k: (k.get('conf') if 'conf' in k else a[0])
    F.stubs['beartype.claw._package._clawpkgmake.make_package_names_from_args'] = \
        lambda e, a, k: (k.get('package_names') or ((k['package_name'],) if k.get('package_name') else None))
    F.stubs['beartype.claw._importlib.clawimpmain.add_beartype_path_hook'] = lambda e, a, k: None
    prev_i = F.isinstance_hook

    def ih(obj, cls):
        nm = repr(cls)
        if isinstance(obj, (list, tuple)) and ('Iterable' in nm or 'Collection' in nm):
            return True
        if isinstance(obj, AConf) and 'BeartypeConf' in nm:
            return True
        return prev_i(obj, cls) if prev_i else None
    F.isinstance_hook = ih
    prev_b = F.builtin_hook

    def bh(name, args, kwargs):
        if args and isinstance(args[0], _ATrie) and name in ('bool', 'len'):
            return len(args[0]) if name == 'len' else bool(len(args[0]))
        return prev_b(name, args, kwargs) if prev_b else NotImplemented
    F.builtin_hook = bh

    def member(name):
        from sa.fold import Unknown
        v = F.eval_in(pm, ast.parse(f'BeartypeClawCoverage.{name}', mode='eval').body)
        ctx.require(not isinstance(v, Unknown), f'anchor vanished: BeartypeClawCoverage.{name}')
        return v
    agg = {}
    n = 0

    def snapshot(t, path=()):
        out = {path: t.conf_if_hooked}
        for k_, v_ in t.kids.items():
            out.update(snapshot(v_, path + (k_,)))
        return out
    try:
        C, OTHER = AConf(claw_skip_package_names=()), AConf(claw_skip_package_names=())
        for name in ('a.b', 'a.b.c'):
            comps = tuple(name.split('.'))
            for depth in range(len(comps) + 1):                 # chain nodes that already exist
                for tconf in ('none', 'same', 'other'):
                    if tconf != 'none' and depth < len(comps):
                        continue                                # the node of N does not exist yet: it has no configuration
                    for pconf in ('none', 'same', 'other'):
                        if pconf != 'none' and depth < len(comps) - 1:
                            continue
                        root = _T()
                        cur = root
                        for d in range(depth):
                            node = _T()
                            if d == len(comps) - 1:
                                node.conf_if_hooked = {'none': None, 'same': C, 'other': OTHER}[tconf]
                            if d == len(comps) - 2:
                                node.conf_if_hooked = {'none': None, 'same': C, 'other': OTHER}[pconf]
                            cur[comps[d]] = node
                            cur = node
                        state.packages_trie_whitelist, state.packages_trie_blacklist = root, _T()
                        state.beartype_path_hook = None
                        before = snapshot(root)
                        raised = None
                        try:
                            _call_function(F, fn, [], dict(claw_coverage=member('PACKAGES_ONE'), conf=C, package_name=name), 1)
                        except _Raise as ex:
                            raised = getattr(ex.what, 'name', str(ex.what))
                        except _Abort as ex:
                            ctx.require(False, f'cannot interpret hook_packages: {ex}')
                        after = snapshot(root)
                        n += 1
                        if tconf == 'other':
                            ok = raised == 'BeartypeClawHookException' and after == before
                            key = 'conflict-raises-and-leaves-registry-unchanged'
                        else:
                            want = dict(before)
                            for d in range(1, len(comps) + 1):
                                want.setdefault(comps[:d], None)
                            want[comps] = C
                            ok = raised is None and after == want
                            key = 'name-registered-on-its-own-node'
                        a_ = agg.setdefault(key, [0, None])
                        a_[0] += 1
                        if not ok and a_[1] is None:
                            a_[1] = (f'registering {name} on a registry with {depth} chain node(s), node conf={tconf}, parent conf={pconf}: '
                                     f'raised {raised}; configurations afterwards ' +
                                     str({".".join(k_) or "<root>": ("C" if v_ is C else "OTHER" if v_ is OTHER else v_) for k_, v_ in after.items()}))
        # beartype_all
        for rconf in ('none', 'same', 'other'):
            root = _T({'none': None, 'same': C, 'other': OTHER}[rconf])
            state.packages_trie_whitelist, state.packages_trie_blacklist = root, _T()
            raised = None
            try:
                _call_function(F, fn, [], dict(claw_coverage=member('PACKAGES_ALL'), conf=C), 1)
            except _Raise as ex:
                raised = getattr(ex.what, 'name', str(ex.what))
            except _Abort as ex:
                ctx.require(False, f'cannot interpret hook_packages (all): {ex}')
            n += 1
            ok = (raised == 'BeartypeClawHookException' and root.conf_if_hooked is OTHER) if rconf == 'other' else \
                (raised is None and root.conf_if_hooked is C and not root.kids)
            a_ = agg.setdefault('beartype_all-registers-on-the-root', [0, None])
            a_[0] += 1
            if not ok and a_[1] is None:
                a_[1] = f'root configuration {rconf}: raised {raised}, root afterwards {root!r}'
        # skip list
        CS = AConf(claw_skip_package_names=('s.t.u', 'v'))
        root, black = _T(), _T()
        state.packages_trie_whitelist, state.packages_trie_blacklist = root, black
        try:
            _call_function(F, fn, [], dict(claw_coverage=member('PACKAGES_ONE'), conf=CS, package_name='a'), 1)
        except (_Abort, _Raise) as ex:
            ctx.require(False, f'cannot interpret hook_packages (skip list): {ex}')
        n += 1

        def at(t, path):
            for p_ in path:
                t = t.get(p_) if isinstance(t, _ATrie) else None
                if t is None:
                    return None
            return t
        ok = at(black, ('s', 't', 'u')) is BLACKLISTED and at(black, ('v',)) is BLACKLISTED and at(black, ('s', 't')) is not BLACKLISTED \
            and at(black, ('s',)) is not BLACKLISTED
        agg['skip-list-blacklisted-under-full-names'] = [1, None if ok else f'blacklist afterwards: {black!r}']
        # … and skipping accumulates: whatever was excluded before stays excluded, in any order of parents and children
        import itertools
        U = ['a', 'a.b', 'a.b.c', 'd']
        probes = ['a', 'a.b', 'a.b.c', 'a.x', 'a.b.y', 'd', 'd.e', 'z']

        def excluded(t, name):
            for p_ in name.split('.'):
                t = t.get(p_) if isinstance(t, _ATrie) else None
                if t is None:
                    return False
                if t is BLACKLISTED:
                    return True
            return False

        def build(names):
            t = _T()
            for nm in sorted(names, key=lambda x: -x.count('.')):        # children first: a parent overrides its subtree
                cur = t
                parts = nm.split('.')
                for p_ in parts[:-1]:
                    if p_ not in cur or cur[p_] is BLACKLISTED:
                        if p_ in cur and cur[p_] is BLACKLISTED:
                            break
                        cur[p_] = _T()
                    cur = cur[p_]
                else:
                    cur[parts[-1]] = BLACKLISTED
            return t
        a_ = agg.setdefault('skip-list-accumulates', [0, None])
        priors = [()] + [(x,) for x in U] + list(itertools.combinations(U, 2))
        skips = [(x,) for x in U] + list(itertools.permutations(U, 2))
        for prior in priors:
            for skip in skips:
                BLACKLISTED.kids.clear()
                black = build(prior)
                state.packages_trie_whitelist, state.packages_trie_blacklist = _T(), black
                try:
                    _call_function(F, fn, [], dict(claw_coverage=member('PACKAGES_ONE'), conf=AConf(claw_skip_package_names=skip),
                                                   package_name='q'), 1)
                except (_Abort, _Raise) as ex:
                    ctx.require(False, f'cannot interpret hook_packages (skip list {skip} on prior {prior}): {ex}')
                n += 1
                a_[0] += 1
                want = {p_: any(p_ == x or p_.startswith(x + '.') for x in prior + skip) for p_ in probes}
                got = {p_: excluded(state.packages_trie_blacklist, p_) for p_ in probes}
                if got != want and a_[1] is None:
                    diff = sorted(p_ for p_ in probes if got[p_] != want[p_])
                    a_[1] = (f'excluded before: {list(prior)}; registering a configuration that skips {list(skip)}: afterwards '
                             f'{", ".join(p_ + (" is excluded" if got[p_] else " is not excluded") for p_ in diff)} '
                             f'(expected the opposite)')
        BLACKLISTED.kids.clear()
    finally:
        F.builtin_hook, F.isinstance_hook = prev_b, prev_i
        for m_, n_, o_ in olds:
            F.patch_global(m_, n_, o_)
        F.stubs.clear()
        F.stubs.update(saved)
    for key in ('name-registered-on-its-own-node', 'conflict-raises-and-leaves-registry-unchanged',
                'beartype_all-registers-on-the-root', 'skip-list-blacklisted-under-full-names', 'skip-list-accumulates'):
        cnt, why = agg.get(key, [0, 'no shape of this class was evaluated'])
        ctx.ob('C06.R6', f'registration:{key}', pm.where(fn.node), f'{key} ({cnt} registry shapes)', why is None and cnt > 0, why or '')
    ctx.floor('C06.R6', n, 20, 'registry shapes × operations evaluated')


def _registration(ctx, repo, cg):
    """R6–R8: registering a name reaches the node of that name; the "anything registered?" test
    sees registrations at every depth; the registry is only written by the registration module."""
    pm = repo.mod('beartype.claw._package.clawpkgmain')
    # ---- R6 ----------------------------------------------------------------------
    _registration_semantics(ctx, repo)

    # ---- R7 ----------------------------------------------------------------------
    ctx.rule('C06.R7', 'is_packages_trie() — which decides whether the path hook may be removed — is true whenever '
             'anything is registered at any depth: interpreted over the abstract registry shapes {nothing, root '
             'configuration only, a registered top-level package, a registered sub-package below an unregistered '
             'parent (what registering "a.b" creates)} × {root configuration set / unset}')
    from sa.fold import AObj, FuncVal, _Abort, _Raise, _call_function
    from . import _gen
    F = _gen.engines(ctx)[0].f
    tm = repo.mod('beartype.claw._package.clawpkgtrie')
    fnv = F.const('beartype.claw._package.clawpkgtrie', 'is_packages_trie')
    ctx.require(isinstance(fnv, FuncVal), 'anchor vanished: is_packages_trie')

    class _Trie(AObj):
        """Abstract registry node: a mapping of child nodes plus the two slots of the real class."""

        def __init__(self, conf=None, **kids):
            self.kids = dict(kids)
            self.conf_if_hooked = conf
            self.package_basename = None

        def values(self):
            return list(self.kids.values())

        def keys(self):
            return list(self.kids.keys())

        def items(self):
            return list(self.kids.items())

        def get(self, k, d=None):
            return self.kids.get(k, d)

        def __iter__(self):
            return iter(list(self.kids))

        def __len__(self):
            return len(self.kids)

        def __contains__(self, k):
            return k in self.kids

        def __getitem__(self, k):
            return self.kids[k]

        def __repr__(self):
            return f'<trie conf={self.conf_if_hooked is not None} {self.kids!r}>'
    trie = _Trie
    prev_b = F.builtin_hook

    def bh(name, args, kwargs):
        if args and isinstance(args[0], _Trie) and name in ('bool', 'len'):
            return len(args[0]) if name == 'len' else bool(len(args[0]))
        return prev_b(name, args, kwargs) if prev_b else NotImplemented
    F.builtin_hook = bh
    conf = AObj()
    shapes = {
        'nothing': lambda: trie(),
        'top-level-package': lambda: trie(a=trie(conf)),
        'sub-package-below-unregistered-parent': lambda: trie(a=trie(None, b=trie(conf))),
        'sub-sub-package': lambda: trie(a=trie(None, b=trie(None, c=trie(conf)))),
    }
    state = AObj()
    old = F.patch_global('beartype.claw._clawstate', 'claw_state', state)
    try:
        for root_conf in (False, True):
            for nm, mk in shapes.items():
                t = mk()
                if root_conf:
                    t.conf_if_hooked = conf
                state.packages_trie_whitelist = t
                state.packages_trie_blacklist = _Trie()
                try:
                    out = _call_function(F, fnv, [], {}, 1)
                    if isinstance(out, _Trie):
                        out = bool(len(out))
                except (_Abort, _Raise) as ex:
                    ctx.require(False, f'cannot interpret is_packages_trie: {ex}')
                want = root_conf or nm != 'nothing'
                ctx.ob('C06.R7', f'is_packages_trie:{nm}:root-conf={root_conf}', tm.where(fnv.node),
                       'the registry counts as non-empty exactly when something is registered (at any depth)',
                       out is want,
                       f'is_packages_trie() evaluates to {out!r} for this registry shape; expected {want}: '
                       + ('leaving beartyping() would remove the path hook although a package is still registered' if want else
                          'the path hook would never be removed'))
    finally:
        F.patch_global('beartype.claw._clawstate', 'claw_state', old)
        F.builtin_hook = prev_b
    rm = tm.defs.get('remove_beartype_pathhook_unless_packages_trie')
    ctx.require(rm is not None, 'anchor vanished: remove_beartype_pathhook_unless_packages_trie')
    rmv = F.const('beartype.claw._package.clawpkgtrie', 'remove_beartype_pathhook_unless_packages_trie')
    saved_st = dict(F.stubs)
    removed = []
    try:
        for registered in (True, False):
            del removed[:]
            F.stubs['beartype.claw._package.clawpkgtrie.is_packages_trie'] = lambda e, a, k, r=registered: r
            F.stubs['beartype.claw._importlib.clawimpmain.remove_beartype_path_hook'] = lambda e, a, k: removed.append(1)
            try:
                _call_function(F, rmv, [], {}, 1)
            except (_Abort, _Raise) as ex:
                ctx.require(False, f'cannot interpret {rmv.qual}: {ex}')
            ctx.ob('C06.R7', f'remove-path-hook-only-when-registry-empty:registered={registered}', tm.where(rm),
                   'the path hook is removed exactly when nothing is registered any more',
                   len(removed) == (0 if registered else 1), f'remove_beartype_path_hook() called {len(removed)} time(s)')
    finally:
        F.stubs.clear()
        F.stubs.update(saved_st)

    # ---- R8 ----------------------------------------------------------------------
    ctx.rule('C06.R8', 'who may register: every public hook (beartype_all, beartype_package(s), beartype_this_package, '
             'beartyping via beartype_all) registers through hook_packages, which applies the skip list, the '
             'conflict check and the path hook; outside clawpkgmain the only stores into the registry are '
             'beartyping()\'s reset of the root configuration to None and its restore of the saved value, and the '
             'state constructor')
    mainq = 'beartype.claw._package.clawpkgmain'
    n = 0
    for q, (m, fn) in sorted(cg.funcs.items()):
        if q.startswith(mainq + '.') or q in EXEMPT:
            continue
        for a in ast.walk(fn):
            if not isinstance(a, (ast.Assign, ast.AugAssign)):
                continue
            for t in (a.targets if isinstance(a, ast.Assign) else [a.target]):
                txt = norm(t)
                if not ('packages_trie_whitelist' in txt or 'packages_trie_blacklist' in txt) or isinstance(t, ast.Name):
                    continue
                n += 1
                v = a.value
                # the value restored is a local that was read from that same registry field earlier in the function
                saved_here = {a2.targets[0].id for a2 in ast.walk(fn) if isinstance(a2, ast.Assign) and isinstance(a2.targets[0], ast.Name)
                              and norm(a2.value).endswith('packages_trie_whitelist.conf_if_hooked')}
                ok = q.endswith('.beartyping') and txt.endswith('packages_trie_whitelist.conf_if_hooked') and (
                    (isinstance(v, ast.Constant) and v.value is None) or
                    (isinstance(v, ast.Name) and v.id in saved_here))
                ctx.ob('C06.R8', f'registry-store:{q.replace("beartype.claw.", "")}:{txt}={norm(v)[:40]}', m.where(a),
                       'a store into the registry outside the registration module is the reset / restore of beartyping()',
                       ok, f'`{norm(a)[:100]}` registers a configuration without going through hook_packages '
                       f'(skip list, conflict check and path hook are bypassed)')
    cm = repo.mod('beartype.claw._clawmain')
    pubs = [f for f in cm.tree.body if isinstance(f, ast.FunctionDef) and f.name.startswith('beartype_')]
    ctx.require(len(pubs) >= 4, f'expected the four public hook functions in beartype.claw._clawmain, found {len(pubs)}')
    for f in pubs:
        calls = [c for c in walk_shallow(f) if isinstance(c, ast.Call) and dotted(c.func) == 'hook_packages']
        kw = {k.arg: norm(k.value) for c in calls for k in c.keywords}
        ctx.ob('C06.R8', f'public-hook:{f.name}:through-hook_packages', cm.where(f),
               'the public hook registers through hook_packages with the caller\'s configuration',
               len(calls) == 1 and kw.get('conf') == 'conf', f'{[norm(c)[:80] for c in calls]}')
    bt = repo.mod('beartype.claw._package.clawpkgcontext').defs.get('beartyping')
    calls = [c for c in ast.walk(bt) if isinstance(c, ast.Call) and dotted(c.func) in ('beartype_all', 'hook_packages')]
    kw = {k.arg: norm(k.value) for c in calls for k in c.keywords}
    ctx.ob('C06.R8', 'public-hook:beartyping:through-hook_packages', repo.mod('beartype.claw._package.clawpkgcontext').where(bt),
           'beartyping() registers its configuration through beartype_all() / hook_packages', len(calls) == 1 and kw.get('conf') == 'conf',
           f'{[norm(c)[:80] for c in calls]}')
    ctx.floor('C06.R8', n, 2, 'registry stores outside the registration module')


def _r5(ctx, repo):
    # ---- R5 ----------------------------------------------------------------------
    ctx.rule('C06.R5', 'add_beartype_path_hook / remove_beartype_path_hook are idempotent (early return on the '
             'state they establish), keep claw_state.beartype_path_hook in step with sys.path_hooks, and '
             'invalidate the importer caches after changing sys.path_hooks')
    im = repo.mod('beartype.claw._importlib.clawimpmain')
    invalidators = {}
    for fname, guard_txt, mutate in (('add_beartype_path_hook', 'is not None', 'insert'),
                                     ('remove_beartype_path_hook', 'is None', 'remove')):
        fn = im.defs.get(fname)
        ctx.require(fn is not None, f'anchor vanished: {fname}')
        first = next((s for s in fn.body if not (isinstance(s, ast.Expr) and isinstance(s.value, ast.Constant))
                      and not isinstance(s, (ast.Import, ast.ImportFrom))), None)
        idem = isinstance(first, ast.If) and f'claw_state.beartype_path_hook {guard_txt}' == norm(first.test) \
            and isinstance(first.body[-1], ast.Return)
        ctx.ob('C06.R5', f'{fname}:idempotent', im.where(fn), 'a second call is a no-op', idem,
               norm(first.test) if isinstance(first, ast.If) else 'no guard')
        order = []
        for st in fn.body:
            for x in ast.walk(st):
                if isinstance(x, ast.Call) and isinstance(x.func, ast.Attribute) and dotted(x.func.value) == 'path_hooks' \
                        and x.func.attr == mutate:
                    order.append('mutate')
                if isinstance(x, ast.Call) and isinstance(x.func, ast.Name):
                    # the cache invalidator is recognised by what it does (wherever it lives, whatever it is called)
                    r = repo.resolve_expr(im, x.func)
                    dm = repo.modules.get(getattr(r, 'module', None) or '')
                    fd = dm.defs.get(r.name) if dm is not None and getattr(r, 'name', None) else None
                    if isinstance(fd, ast.FunctionDef) and ('path_importer_cache' in norm(fd) or 'invalidate_caches' in norm(fd)):
                        order.append('clear')
                        invalidators[(dm.name, fd.name)] = (dm, fd)
            if isinstance(st, ast.Assign) and norm(st.targets[0]) == 'claw_state.beartype_path_hook':
                order.append('slot')
        ctx.ob('C06.R5', f'{fname}:mutate-slot-invalidate', im.where(fn),
               'sys.path_hooks is changed, the slot updated and the caches invalidated, in that order',
               order == ['mutate', 'slot', 'clear'], f'{order}')
    ctx.require(len(invalidators) == 1, f'expected one importer-cache invalidator called by the path-hook functions, found {sorted(invalidators)}')
    (dm, cl), = invalidators.values()
    txt = norm(cl)
    ctx.ob('C06.R5', 'clear-importlib-caches:both-caches', dm.where(cl),
           'both sys.path_importer_cache and the finders\' caches are invalidated',
           'path_importer_cache.clear()' in txt and 'invalidate_caches()' in txt, '')
