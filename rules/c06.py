"""C06 — hook scoping after any history.

R1  lock discipline: the package registry, the path-hook slot and ``sys.path_hooks`` are
    only touched under ``claw_lock`` (lexically, or in every caller);
R2  lookup semantics: blacklist before whitelist; deepest registered prefix wins;
R3  conflict handling is atomic: no registry store precedes a conflict ``raise`` on any path;
R4  ``beartyping()`` restores what it changes (write set ⊆ restore set; the restore
    condition compares with the value that was actually stored);
R5  adding / removing the path hook is idempotent and paired with cache invalidation.
"""
from __future__ import annotations

import ast

from sa.astutil import dotted, inside_with
from sa.callgraph import CallGraph
from sa.flow import Flow, walk_shallow
from sa.repo import norm, qualname_of, enclosing_function, parent

STATE_FIELDS = ('packages_trie_whitelist', 'packages_trie_blacklist', 'beartype_path_hook')
LOCK = 'claw_lock'
EXEMPT = {
    'beartype.claw._clawstate.BeartypeClawState.__init__': 'constructor of the singleton (import time)',
    'beartype.claw._clawstate.BeartypeClawState._reinit_safe': 'constructor helper / test teardown API',
    'beartype.claw._clawstate.BeartypeClawState.reinit': 'test teardown API',
    'beartype.claw._clawstate.BeartypeClawState.__repr__': 'debug representation',
}


def _is_lock(e):
    return dotted(e) == LOCK


def _state_accesses(fn):
    out = []
    for n in walk_shallow(fn):
        if isinstance(n, ast.Attribute) and n.attr in STATE_FIELDS and dotted(n.value) in ('claw_state', 'self'):
            out.append(n)
        elif isinstance(n, ast.Name) and n.id == 'path_hooks':
            out.append(n)
        elif isinstance(n, ast.Attribute) and dotted(n) == 'sys.path_hooks':
            out.append(n)
    return out


def run(ctx):
    repo = ctx.repo
    cg = CallGraph(repo, prefixes=('beartype.claw',))

    # ---- R1 ----------------------------------------------------------------------
    ctx.rule('C06.R1', 'every read or write of claw_state.packages_trie_*, claw_state.beartype_path_hook and '
             'sys.path_hooks is lexically inside `with claw_lock` or in a function all of whose (resolved) call '
             'sites are, transitively; functions without any caller in the package count as unlocked entry points')
    memo = {}

    def locked_fn(q, depth=0):
        """every call site of q is under the lock"""
        if q in memo:
            return memo[q]
        memo[q] = (False, 'recursion')
        callers = cg.callers.get(q, [])
        if not callers:
            memo[q] = (False, f'{q.split(".")[-1]} has no caller under beartype.claw that holds the lock')
            return memo[q]
        if depth > 5:
            return memo[q]
        for cq, call in callers:
            if inside_with(call, _is_lock) or cq in EXEMPT:
                continue
            if cq.endswith('.<module>'):
                memo[q] = (False, f'called at module level of {cq}')
                return memo[q]
            ok, why = locked_fn(cq, depth + 1)
            if not ok:
                memo[q] = (False, f'called from {cq.split(".")[-1]} outside the lock ({why})')
                return memo[q]
        memo[q] = (True, '')
        return memo[q]
    n = 0
    for q, (m, fn) in sorted(cg.funcs.items()):
        acc = _state_accesses(fn)
        if not acc:
            continue
        for a in acc:
            n += 1
            if q in EXEMPT:
                continue
            if inside_with(a, _is_lock):
                ok, why = True, ''
            else:
                ok, why = locked_fn(q)
            ctx.ob('C06.R1', f'{q.replace("beartype.claw.", "")}:{norm(a)}:{"store" if isinstance(getattr(a, "ctx", None), ast.Store) else "access"}',
                   m.where(a), f'access of {norm(a)} is under {LOCK}', ok, why)
    ctx.floor('C06.R1', n, 15, 'accesses of the shared hook state')

    # ---- R2 ----------------------------------------------------------------------
    ctx.rule('C06.R2', 'get_package_conf_or_none: the whitelist walk is inside `if not is_package_blacklisted(…)`; the '
             'fold keeps the last non-None configuration (`acc = node.conf or acc` / `if node.conf is not None: '
             'acc = node.conf`) seeded with the root (beartype_all) configuration; iter_packages_trie follows the '
             'dotted name from the root and stops at the first unregistered component')
    tm = repo.mod('beartype.claw._package.clawpkgtrie')
    g = tm.defs.get('get_package_conf_or_none')
    ctx.require(g is not None, 'anchor vanished: get_package_conf_or_none')
    loops = [x for x in walk_shallow(g) if isinstance(x, ast.For) and 'iter_packages_trie' in norm(x.iter)]
    ok, detail = False, 'no whitelist walk'
    acc_var = None
    if loops:
        lp = loops[0]
        guarded = False
        child, p = lp, parent(lp)
        while p is not None and p is not g:
            if isinstance(p, ast.If) and any(child is s for s in p.body) and norm(p.test).startswith('not is_package_blacklisted('):
                guarded = True
            child, p = p, parent(p)
        ok, detail = guarded, 'the whitelist walk is not guarded by the blacklist test'
        ctx.ob('C06.R2', 'lookup:blacklist-dominates-whitelist', tm.where(lp),
               'a blacklisted package is never looked up in the whitelist', ok, detail)
        fold_ok, fdetail = False, 'no fold'
        tv = lp.target.id if isinstance(lp.target, ast.Name) else None
        for st in lp.body:
            if isinstance(st, ast.Assign) and isinstance(st.targets[0], ast.Name):
                acc_var = st.targets[0].id
                v = st.value
                if isinstance(v, ast.BoolOp) and isinstance(v.op, ast.Or) and len(v.values) == 2 \
                        and norm(v.values[0]) == f'{tv}.conf_if_hooked' and dotted(v.values[1]) == acc_var:
                    fold_ok = True
                if isinstance(v, ast.IfExp) and norm(v.body) == f'{tv}.conf_if_hooked' and dotted(v.orelse) == acc_var \
                        and norm(v.test) in (f'{tv}.conf_if_hooked', f'{tv}.conf_if_hooked is not None'):
                    fold_ok = True
                fdetail = norm(st)[:100]
            if isinstance(st, ast.If) and norm(st.test) == f'{tv}.conf_if_hooked is not None' and len(st.body) == 1 \
                    and isinstance(st.body[0], ast.Assign) and norm(st.body[0].value) == f'{tv}.conf_if_hooked':
                acc_var = dotted(st.body[0].targets[0])
                fold_ok = True
        ctx.ob('C06.R2', 'lookup:deepest-prefix-wins', tm.where(lp),
               'the configuration of the deepest registered prefix overrides shallower ones', fold_ok, fdetail)
        seed = [a for a in walk_shallow(g) if isinstance(a, ast.Assign) and dotted(a.targets[0]) == acc_var
                and a.lineno < lp.lineno and 'packages_trie_whitelist.conf_if_hooked' in norm(a.value)]
        ctx.ob('C06.R2', 'lookup:seeded-with-root-conf', tm.where(lp),
               'the fold starts from the beartype_all() configuration', bool(seed) and acc_var is not None,
               f'{acc_var} is not seeded from the root of the whitelist')
        rets = [r for r in walk_shallow(g) if isinstance(r, ast.Return)]
        ctx.ob('C06.R2', 'lookup:returns-fold', tm.where(g), 'the folded configuration is what is returned',
               len(rets) == 1 and dotted(rets[0].value) == acc_var, f'{[norm(r) for r in rets]}')
    else:
        ctx.ob('C06.R2', 'lookup:blacklist-dominates-whitelist', tm.where(g), 'whitelist walk exists', False, detail)
    it = tm.defs.get('iter_packages_trie')
    ctx.require(it is not None, 'anchor vanished: iter_packages_trie')
    lp = [x for x in walk_shallow(it) if isinstance(x, ast.For)]
    ok = False
    if lp:
        body = lp[0].body
        gets = [s for s in body if isinstance(s, ast.Assign) and isinstance(s.value, ast.Call)
                and isinstance(s.value.func, ast.Attribute) and s.value.func.attr == 'get'
                and dotted(s.value.func.value) == dotted(s.targets[0]) and dotted(s.value.args[0]) == dotted(lp[0].target)]
        brk = [s for s in body if isinstance(s, ast.If) and norm(s.test).endswith('is None') and any(isinstance(b, ast.Break) for b in s.body)]
        yl = [s for s in body if isinstance(s, ast.Expr) and isinstance(s.value, ast.Yield)]
        ok = bool(gets and brk and yl) and body.index(gets[0]) < body.index(brk[0]) < body.index(yl[0])
        seed = [a for a in walk_shallow(it) if isinstance(a, (ast.Assign, ast.AnnAssign)) and a.value is not None
                and 'claw_state.packages_trie_whitelist' == norm(a.value)]
        ok = ok and bool(seed)
        p0 = it.args.args[0].arg if it.args.args else None
        whole = dotted(lp[0].iter) == p0
        if not whole:
            ok = False
        detail = '' if whole else f'the walk iterates `{norm(lp[0].iter)}`, not every component of `{p0}`'
    else:
        detail = 'no loop'
    ctx.ob('C06.R2', 'lookup:walk-from-root', tm.where(it),
           'the walk descends component by component (all of them, in order) from the root and stops at the first '
           'missing one', ok, detail)
    callers_arg = [c for c in walk_shallow(g) if isinstance(c, ast.Call) and dotted(c.func) == 'iter_packages_trie']
    split = [a for a in walk_shallow(g) if isinstance(a, ast.Assign) and norm(a.value) == f"{g.args.args[0].arg}.split('.')"]
    ctx.ob('C06.R2', 'lookup:walk-over-dotted-name', tm.where(g),
           'the walk receives the components of the looked-up package name',
           bool(callers_arg) and bool(split) and all(c.args and dotted(c.args[0]) == dotted(split[0].targets[0]) for c in callers_arg),
           f'{[norm(c) for c in callers_arg]}')

    # ---- R3 ----------------------------------------------------------------------
    ctx.rule('C06.R3', 'in the call tree of hook_packages\' critical section no registry store may precede a '
             '`raise BeartypeClawHookException` on any path, including across loop iterations and across sibling '
             'callees (a conflict must be detected before anything is registered)')
    pm = repo.mod('beartype.claw._package.clawpkgmain')
    hp = pm.defs.get('hook_packages')
    ctx.require(hp is not None, 'anchor vanished: hook_packages')

    def stores_in(node):
        out = []
        for x in ast.walk(node):
            if isinstance(x, (ast.Assign, ast.AugAssign)):
                tgts = x.targets if isinstance(x, ast.Assign) else [x.target]
                for t in tgts:
                    if isinstance(t, ast.Subscript) and 'trie' in norm(t.value):
                        out.append(norm(t))
                    if isinstance(t, ast.Attribute) and t.attr == 'conf_if_hooked':
                        out.append(norm(t))
        return out
    summaries = {}
    for name in ('_blacklist_packages', '_whitelist_packages_all', '_whitelist_packages_some'):
        fn = pm.defs.get(name)
        ctx.require(fn is not None, f'anchor vanished: {name}')
        raises = [r for r in walk_shallow(fn) if isinstance(r, ast.Raise)]
        summaries[name] = (bool(stores_in(fn)), bool(raises))
        bad = []
        Flow(lambda node: ['store'] if (isinstance(node, ast.stmt) and stores_in(node)) else [], mode='may',
             on_exit=lambda node, kind, s: bad.append(node) if (kind == 'raise' and 'store' in s) else None).run(fn)
        for r in raises:
            ctx.ob('C06.R3', f'{name}:raise-after-store:{norm(r.exc.func) if isinstance(r.exc, ast.Call) else norm(r.exc)}',
                   pm.where(r), f'no registry store can precede this raise inside {name}', r not in bad,
                   'a store into the registry (earlier loop iteration) may already have happened when this raises')
    # sibling callees in the critical section
    seq = [c for c in walk_shallow(hp) if isinstance(c, ast.Call) and dotted(c.func) in summaries and inside_with(c, _is_lock)]
    seq.sort(key=lambda c: c.lineno)
    from sa.flow import enumerate_paths
    withs = [w for w in walk_shallow(hp) if isinstance(w, ast.With) and any(_is_lock(i.context_expr) for i in w.items)]
    ctx.require(len(withs) == 1, 'hook_packages: expected one critical section')

    def callee_events(node):
        return [dotted(c.func) for c in ([node] if isinstance(node, ast.expr) else ast.walk(node))
                if isinstance(c, ast.Call) and dotted(c.func) in summaries]
    pairs = set()
    for ev, kind in enumerate_paths(withs[0].body, callee_events):
        for i, a in enumerate(ev):
            for b in ev[i + 1:]:
                if summaries[a][0] and summaries[b][1]:
                    pairs.add((a, b))
    for a, b in sorted(pairs):
        c = next(x for x in seq if dotted(x.func) == a)
        ctx.ob('C06.R3', f'hook_packages:{a}-then-{b}', pm.where(c),
               f'{a} (which stores) is not followed on any path by a callee that can still raise a conflict',
               False, f'{b} may raise after {a} has modified the registry')
    ctx.floor('C06.R3', len(seq), 3, 'registry-modifying callees in the critical section')

    # ---- R4 ----------------------------------------------------------------------
    ctx.rule('C06.R4', 'beartyping(): (a) every registry field written by the try body (interprocedurally through '
             'beartype_all → hook_packages) is restored by the finally block; (b) the finally block\'s restore '
             'condition compares the registry with the value the body stored: the body stores '
             'make_conf_hookable^k(conf), k ≥ 1, so the comparand must be normalised at least once too')
    cm = repo.mod('beartype.claw._package.clawpkgcontext')
    bt = cm.defs.get('beartyping')
    ctx.require(bt is not None, 'anchor vanished: beartyping')
    tries = [t for t in walk_shallow(bt) if isinstance(t, ast.Try) and t.finalbody]
    ctx.ob('C06.R4', 'beartyping:restore-in-finally', cm.where(bt),
           'the restore runs in a finally block (also when the body of the with statement raises)', len(tries) == 1,
           f'{len(tries)} try/finally statements in beartyping()')
    if len(tries) != 1:
        return _r5(ctx, repo)
    t = tries[0]
    # write set
    writes = set()
    for st in t.body:
        for s in stores_in(st):
            writes.add('whitelist-root-conf' if 'conf_if_hooked' in s else 'trie')
    calls_all = any(isinstance(c, ast.Call) and dotted(c.func) == 'beartype_all' for st in t.body for c in ast.walk(st))
    if calls_all:
        # through hook_packages
        for c in seq:
            nm = dotted(c.func)
            if nm == '_blacklist_packages':
                writes.add('blacklist-trie')
            elif nm == '_whitelist_packages_all':
                writes.add('whitelist-root-conf')
        if any(isinstance(c, ast.Call) and dotted(c.func) == 'add_beartype_path_hook' for c in walk_shallow(hp)):
            writes.add('path-hook')
    restores = set()
    for st in t.finalbody:
        for s in stores_in(st):
            if 'conf_if_hooked' in s:
                restores.add('whitelist-root-conf')
            if 'blacklist' in s:
                restores.add('blacklist-trie')
        for c in ast.walk(st):
            if isinstance(c, ast.Call) and 'remove_beartype_path' in (dotted(c.func) or ''):
                restores.add('path-hook')
            if isinstance(c, ast.Call) and 'blacklist' in (dotted(c.func) or '').lower():
                restores.add('blacklist-trie')
    for w in sorted(writes):
        ctx.ob('C06.R4', f'beartyping:restores:{w}', cm.where(t), f'{w}, written inside the block, is restored on exit',
               w in restores, f'the finally block restores only {sorted(restores)}')
    # (a') the root configuration is restored to the value saved before the block overwrote it
    saved = {}
    for st in t.body:
        for a in ast.walk(st):
            if isinstance(a, ast.Assign) and isinstance(a.targets[0], ast.Name) and norm(a.value).endswith('packages_trie_whitelist.conf_if_hooked'):
                saved[a.targets[0].id] = a
    rest = [a for st in t.finalbody for a in ast.walk(st) if isinstance(a, ast.Assign)
            and norm(a.targets[0]).endswith('packages_trie_whitelist.conf_if_hooked')]
    if 'whitelist-root-conf' in writes and rest:
        ok = all(dotted(a.value) in saved for a in rest)
        first_store = min((x.lineno for st in t.body for x in ast.walk(st) if isinstance(x, ast.Assign)
                           and norm(x.targets[0]).endswith('packages_trie_whitelist.conf_if_hooked')), default=0)
        ok = ok and all(saved[dotted(a.value)].lineno < first_store for a in rest if dotted(a.value) in saved)
        ctx.ob('C06.R4', 'beartyping:restores-saved-root-conf', cm.where(rest[0]),
               'the root configuration is restored to the value read before the block first overwrote it', ok,
               f'restored with `{norm(rest[0].value)}`; saved copies: {sorted(saved)}')
    # (b)
    k = sum(1 for a in walk_shallow(hp) if isinstance(a, ast.Assign) and dotted(a.targets[0]) == 'conf'
            and isinstance(a.value, ast.Call) and dotted(a.value.func) == 'make_conf_hookable')
    cmp_ = [x for st in t.finalbody for x in ast.walk(st) if isinstance(x, ast.Compare) and 'conf_if_hooked' in norm(x.left)]
    ctx.require(cmp_, 'beartyping: no comparison of the registry in the finally block')
    comparand = cmp_[0].comparators[0]
    j = 0
    if isinstance(comparand, ast.Call) and dotted(comparand.func) == 'make_conf_hookable':
        j += 1
        comparand = comparand.args[0] if comparand.args else comparand
    cname = dotted(comparand)
    for a in walk_shallow(bt):
        if isinstance(a, ast.Assign) and dotted(a.targets[0]) == cname and isinstance(a.value, ast.Call) \
                and dotted(a.value.func) == 'make_conf_hookable' and a.lineno < cmp_[0].lineno:
            j += 1
    ctx.ob('C06.R4', 'beartyping:restore-condition-compares-stored-value', cm.where(cmp_[0]),
           'the comparand of the restore condition went through make_conf_hookable like the stored value',
           k == 0 or j >= 1, f'stored: make_conf_hookable applied {k}×; compared with `{norm(cmp_[0].comparators[0])}` '
           f'normalised {j}×: for any configuration without an explicit warning class the comparison is false and '
           f'nothing is restored')
    # normaliser idempotence (structural)
    mk = repo.mod('beartype.claw._package._clawpkgmake').defs.get('make_conf_hookable')
    ctx.require(mk is not None, 'anchor vanished: make_conf_hookable')
    guard = [i for i in walk_shallow(mk) if isinstance(i, ast.If) and '_is_warning_cls_on_decorator_exception_set' in norm(i.test)]
    ok = bool(guard) and norm(guard[0].test).startswith('not ') and any(
        "'warning_cls_on_decorator_exception'" in norm(x) for x in ast.walk(guard[0]))
    ctx.ob('C06.R4', 'make_conf_hookable:idempotent', repo.mod('beartype.claw._package._clawpkgmake').where(mk),
           'the normaliser is the identity on configurations with an explicit warning class and produces such a '
           'configuration otherwise', ok, '')

    _r5(ctx, repo)


def _r5(ctx, repo):
    # ---- R5 ----------------------------------------------------------------------
    ctx.rule('C06.R5', 'add_beartype_path_hook / remove_beartype_path_hook are idempotent (early return on the '
             'state they establish), keep claw_state.beartype_path_hook in step with sys.path_hooks, and '
             'invalidate the importer caches after changing sys.path_hooks')
    im = repo.mod('beartype.claw._importlib.clawimpmain')
    for fname, guard_txt, mutate in (('add_beartype_path_hook', 'is not None', 'insert'),
                                     ('remove_beartype_path_hook', 'is None', 'remove')):
        fn = im.defs.get(fname)
        ctx.require(fn is not None, f'anchor vanished: {fname}')
        first = next((s for s in fn.body if not (isinstance(s, ast.Expr) and isinstance(s.value, ast.Constant))
                      and not isinstance(s, (ast.Import, ast.ImportFrom))), None)
        idem = isinstance(first, ast.If) and f'claw_state.beartype_path_hook {guard_txt}' == norm(first.test) \
            and isinstance(first.body[-1], ast.Return)
        ctx.ob('C06.R5', f'{fname}:idempotent', im.where(fn), 'a second call is a no-op', idem,
               norm(first.test) if isinstance(first, ast.If) else 'no guard')
        order = []
        for st in fn.body:
            for x in ast.walk(st):
                if isinstance(x, ast.Call) and isinstance(x.func, ast.Attribute) and dotted(x.func.value) == 'path_hooks' \
                        and x.func.attr == mutate:
                    order.append('mutate')
                if isinstance(x, ast.Call) and dotted(x.func) == '_clear_importlib_caches':
                    order.append('clear')
            if isinstance(st, ast.Assign) and norm(st.targets[0]) == 'claw_state.beartype_path_hook':
                order.append('slot')
        ctx.ob('C06.R5', f'{fname}:mutate-slot-invalidate', im.where(fn),
               'sys.path_hooks is changed, the slot updated and the caches invalidated, in that order',
               order == ['mutate', 'slot', 'clear'], f'{order}')
    cl = im.defs.get('_clear_importlib_caches')
    ctx.require(cl is not None, 'anchor vanished: _clear_importlib_caches')
    txt = norm(cl)
    ctx.ob('C06.R5', '_clear_importlib_caches:both-caches', im.where(cl),
           'both sys.path_importer_cache and the finders\' caches are invalidated',
           'path_importer_cache.clear()' in txt and 'invalidate_caches()' in txt, '')
