"""C06 — hook scoping after any history.

R1  lock discipline: the package registry, the path-hook slot and ``sys.path_hooks`` are
    only touched under ``claw_lock`` (lexically, or in every caller);
R2  lookup semantics: blacklist before whitelist; deepest registered prefix wins;
R3  conflict handling is atomic: no registry store precedes a conflict ``raise`` on any path;
R4  ``beartyping()`` restores what it changes (write set ⊆ restore set; the restore
    condition compares with the value that was actually stored);
R5  adding / removing the path hook is idempotent and paired with cache invalidation.
"""
from __future__ import annotations

import ast

from sa.astutil import dotted, inside_with
from sa.callgraph import CallGraph
from sa.flow import Flow, walk_shallow
from sa.repo import norm, qualname_of, enclosing_function, parent

STATE_FIELDS = ('packages_trie_whitelist', 'packages_trie_blacklist', 'beartype_path_hook')
LOCK = 'claw_lock'
EXEMPT = {
    'beartype.claw._clawstate.BeartypeClawState.__init__': 'constructor of the singleton (import time)',
    'beartype.claw._clawstate.BeartypeClawState._reinit_safe': 'constructor helper / test teardown API',
    'beartype.claw._clawstate.BeartypeClawState.reinit': 'test teardown API',
    'beartype.claw._clawstate.BeartypeClawState.__repr__': 'debug representation',
}


def _is_lock(e):
    return dotted(e) == LOCK


def _state_accesses(fn):
    out = []
    for n in walk_shallow(fn):
        if isinstance(n, ast.Attribute) and n.attr in STATE_FIELDS and dotted(n.value) in ('claw_state', 'self'):
            out.append(n)
        elif isinstance(n, ast.Name) and n.id == 'path_hooks':
            out.append(n)
        elif isinstance(n, ast.Attribute) and dotted(n) == 'sys.path_hooks':
            out.append(n)
    return out


def run(ctx):
    repo = ctx.repo
    cg = CallGraph(repo, prefixes=('beartype.claw',))
    lock_discipline(ctx, repo, cg, 'C06.R1')
    _rest(ctx, repo, cg)


def lock_discipline(ctx, repo, cg, RULE):
    # ---- R1 ----------------------------------------------------------------------
    ctx.rule(RULE, 'every read or write of claw_state.packages_trie_*, claw_state.beartype_path_hook and '
             'sys.path_hooks is lexically inside `with claw_lock` or in a function all of whose (resolved) call '
             'sites are, transitively; functions without any caller in the package count as unlocked entry points')
    memo = {}

    def locked_fn(q, depth=0):
        """every call site of q is under the lock"""
        if q in memo:
            return memo[q]
        memo[q] = (False, 'recursion')
        callers = cg.callers.get(q, [])
        if not callers:
            memo[q] = (False, f'{q.split(".")[-1]} has no caller under beartype.claw that holds the lock')
            return memo[q]
        if depth > 5:
            return memo[q]
        for cq, call in callers:
            if inside_with(call, _is_lock) or cq in EXEMPT:
                continue
            if cq.endswith('.<module>'):
                memo[q] = (False, f'called at module level of {cq}')
                return memo[q]
            ok, why = locked_fn(cq, depth + 1)
            if not ok:
                memo[q] = (False, f'called from {cq.split(".")[-1]} outside the lock ({why})')
                return memo[q]
        memo[q] = (True, '')
        return memo[q]
    n = 0
    for q, (m, fn) in sorted(cg.funcs.items()):
        acc = _state_accesses(fn)
        if not acc:
            continue
        for a in acc:
            n += 1
            if q in EXEMPT:
                continue
            if inside_with(a, _is_lock):
                ok, why = True, ''
            else:
                ok, why = locked_fn(q)
            ctx.ob(RULE, f'{q.replace("beartype.claw.", "")}:{norm(a)}:{"store" if isinstance(getattr(a, "ctx", None), ast.Store) else "access"}',
                   m.where(a), f'access of {norm(a)} is under {LOCK}', ok, why)
    ctx.floor(RULE, n, 15, 'accesses of the shared hook state')



def _rest(ctx, repo, cg):
    # ---- R2 ----------------------------------------------------------------------
    ctx.rule('C06.R2', 'get_package_conf_or_none: the whitelist walk is inside `if not is_package_blacklisted(…)`; the '
             'fold keeps the last non-None configuration (`acc = node.conf or acc` / `if node.conf is not None: '
             'acc = node.conf`) seeded with the root (beartype_all) configuration; iter_packages_trie follows the '
             'dotted name from the root and stops at the first unregistered component')
    tm = repo.mod('beartype.claw._package.clawpkgtrie')
    g = tm.defs.get('get_package_conf_or_none')
    ctx.require(g is not None, 'anchor vanished: get_package_conf_or_none')
    loops = [x for x in walk_shallow(g) if isinstance(x, ast.For) and 'iter_packages_trie' in norm(x.iter)]
    ok, detail = False, 'no whitelist walk'
    acc_var = None
    if loops:
        lp = loops[0]
        guarded = False
        child, p = lp, parent(lp)
        while p is not None and p is not g:
            if isinstance(p, ast.If) and any(child is s for s in p.body) and norm(p.test).startswith('not is_package_blacklisted('):
                guarded = True
            child, p = p, parent(p)
        ok, detail = guarded, 'the whitelist walk is not guarded by the blacklist test'
        ctx.ob('C06.R2', 'lookup:blacklist-dominates-whitelist', tm.where(lp),
               'a blacklisted package is never looked up in the whitelist', ok, detail)
        fold_ok, fdetail = False, 'no fold'
        tv = lp.target.id if isinstance(lp.target, ast.Name) else None
        for st in lp.body:
            if isinstance(st, ast.Assign) and isinstance(st.targets[0], ast.Name):
                acc_var = st.targets[0].id
                v = st.value
                if isinstance(v, ast.BoolOp) and isinstance(v.op, ast.Or) and len(v.values) == 2 \
                        and norm(v.values[0]) == f'{tv}.conf_if_hooked' and dotted(v.values[1]) == acc_var:
                    fold_ok = True
                if isinstance(v, ast.IfExp) and norm(v.body) == f'{tv}.conf_if_hooked' and dotted(v.orelse) == acc_var \
                        and norm(v.test) in (f'{tv}.conf_if_hooked', f'{tv}.conf_if_hooked is not None'):
                    fold_ok = True
                fdetail = norm(st)[:100]
            if isinstance(st, ast.If) and norm(st.test) == f'{tv}.conf_if_hooked is not None' and len(st.body) == 1 \
                    and isinstance(st.body[0], ast.Assign) and norm(st.body[0].value) == f'{tv}.conf_if_hooked':
                acc_var = dotted(st.body[0].targets[0])
                fold_ok = True
        ctx.ob('C06.R2', 'lookup:deepest-prefix-wins', tm.where(lp),
               'the configuration of the deepest registered prefix overrides shallower ones', fold_ok, fdetail)
        seed = [a for a in walk_shallow(g) if isinstance(a, ast.Assign) and dotted(a.targets[0]) == acc_var
                and a.lineno < lp.lineno and 'packages_trie_whitelist.conf_if_hooked' in norm(a.value)]
        ctx.ob('C06.R2', 'lookup:seeded-with-root-conf', tm.where(lp),
               'the fold starts from the beartype_all() configuration', bool(seed) and acc_var is not None,
               f'{acc_var} is not seeded from the root of the whitelist')
        rets = [r for r in walk_shallow(g) if isinstance(r, ast.Return)]
        ctx.ob('C06.R2', 'lookup:returns-fold', tm.where(g), 'the folded configuration is what is returned',
               len(rets) == 1 and dotted(rets[0].value) == acc_var, f'{[norm(r) for r in rets]}')
    else:
        ctx.ob('C06.R2', 'lookup:blacklist-dominates-whitelist', tm.where(g), 'whitelist walk exists', False, detail)
    it = tm.defs.get('iter_packages_trie')
    ctx.require(it is not None, 'anchor vanished: iter_packages_trie')
    lp = [x for x in walk_shallow(it) if isinstance(x, ast.For)]
    ok = False
    if lp:
        body = lp[0].body
        gets = [s for s in body if isinstance(s, ast.Assign) and isinstance(s.value, ast.Call)
                and isinstance(s.value.func, ast.Attribute) and s.value.func.attr == 'get'
                and dotted(s.value.func.value) == dotted(s.targets[0]) and dotted(s.value.args[0]) == dotted(lp[0].target)]
        brk = [s for s in body if isinstance(s, ast.If) and norm(s.test).endswith('is None') and any(isinstance(b, ast.Break) for b in s.body)]
        yl = [s for s in body if isinstance(s, ast.Expr) and isinstance(s.value, ast.Yield)]
        ok = bool(gets and brk and yl) and body.index(gets[0]) < body.index(brk[0]) < body.index(yl[0])
        seed = [a for a in walk_shallow(it) if isinstance(a, (ast.Assign, ast.AnnAssign)) and a.value is not None
                and 'claw_state.packages_trie_whitelist' == norm(a.value)]
        ok = ok and bool(seed)
        p0 = it.args.args[0].arg if it.args.args else None
        whole = dotted(lp[0].iter) == p0
        if not whole:
            ok = False
        detail = '' if whole else f'the walk iterates `{norm(lp[0].iter)}`, not every component of `{p0}`'
    else:
        detail = 'no loop'
    ctx.ob('C06.R2', 'lookup:walk-from-root', tm.where(it),
           'the walk descends component by component (all of them, in order) from the root and stops at the first '
           'missing one', ok, detail)
    callers_arg = [c for c in walk_shallow(g) if isinstance(c, ast.Call) and dotted(c.func) == 'iter_packages_trie']
    split = [a for a in walk_shallow(g) if isinstance(a, ast.Assign) and norm(a.value) == f"{g.args.args[0].arg}.split('.')"]
    ctx.ob('C06.R2', 'lookup:walk-over-dotted-name', tm.where(g),
           'the walk receives the components of the looked-up package name',
           bool(callers_arg) and bool(split) and all(c.args and dotted(c.args[0]) == dotted(split[0].targets[0]) for c in callers_arg),
           f'{[norm(c) for c in callers_arg]}')

    # ---- R3 ----------------------------------------------------------------------
    ctx.rule('C06.R3', 'in the call tree of hook_packages\' critical section no registry store may precede a '
             '`raise BeartypeClawHookException` on any path, including across loop iterations and across sibling '
             'callees (a conflict must be detected before anything is registered)')
    pm = repo.mod('beartype.claw._package.clawpkgmain')
    hp = pm.defs.get('hook_packages')
    ctx.require(hp is not None, 'anchor vanished: hook_packages')

    def stores_in(node):
        out = []
        for x in ast.walk(node):
            if isinstance(x, (ast.Assign, ast.AugAssign)):
                tgts = x.targets if isinstance(x, ast.Assign) else [x.target]
                for t in tgts:
                    if isinstance(t, ast.Subscript) and 'trie' in norm(t.value):
                        out.append(norm(t))
                    if isinstance(t, ast.Attribute) and t.attr == 'conf_if_hooked':
                        out.append(norm(t))
        return out
    summaries = {}
    for name in ('_blacklist_packages', '_whitelist_packages_all', '_whitelist_packages_some'):
        fn = pm.defs.get(name)
        ctx.require(fn is not None, f'anchor vanished: {name}')
        raises = [r for r in walk_shallow(fn) if isinstance(r, ast.Raise)]
        summaries[name] = (bool(stores_in(fn)), bool(raises))
        bad = []
        Flow(lambda node: ['store'] if (isinstance(node, ast.stmt) and stores_in(node)) else [], mode='may',
             on_exit=lambda node, kind, s: bad.append(node) if (kind == 'raise' and 'store' in s) else None).run(fn)
        for r in raises:
            ctx.ob('C06.R3', f'{name}:raise-after-store:{norm(r.exc.func) if isinstance(r.exc, ast.Call) else norm(r.exc)}',
                   pm.where(r), f'no registry store can precede this raise inside {name}', r not in bad,
                   'a store into the registry (earlier loop iteration) may already have happened when this raises')
    # sibling callees in the critical section
    seq = [c for c in walk_shallow(hp) if isinstance(c, ast.Call) and dotted(c.func) in summaries and inside_with(c, _is_lock)]
    seq.sort(key=lambda c: c.lineno)
    from sa.flow import enumerate_paths
    withs = [w for w in walk_shallow(hp) if isinstance(w, ast.With) and any(_is_lock(i.context_expr) for i in w.items)]
    ctx.require(len(withs) == 1, 'hook_packages: expected one critical section')

    def callee_events(node):
        return [dotted(c.func) for c in ([node] if isinstance(node, ast.expr) else ast.walk(node))
                if isinstance(c, ast.Call) and dotted(c.func) in summaries]
    pairs = set()
    for ev, kind in enumerate_paths(withs[0].body, callee_events):
        for i, a in enumerate(ev):
            for b in ev[i + 1:]:
                if summaries[a][0] and summaries[b][1]:
                    pairs.add((a, b))
    for a, b in sorted(pairs):
        c = next(x for x in seq if dotted(x.func) == a)
        ctx.ob('C06.R3', f'hook_packages:{a}-then-{b}', pm.where(c),
               f'{a} (which stores) is not followed on any path by a callee that can still raise a conflict',
               False, f'{b} may raise after {a} has modified the registry')
    ctx.floor('C06.R3', len(seq), 3, 'registry-modifying callees in the critical section')

    _registration(ctx, repo, cg)

    # ---- R4 ----------------------------------------------------------------------
    ctx.rule('C06.R4', 'beartyping(): (a) every registry field written by the try body (interprocedurally through '
             'beartype_all → hook_packages) is restored by the finally block; (b) the finally block\'s restore '
             'condition compares the registry with the value the body stored: the body stores '
             'make_conf_hookable^k(conf), k ≥ 1, so the comparand must be normalised at least once too')
    cm = repo.mod('beartype.claw._package.clawpkgcontext')
    bt = cm.defs.get('beartyping')
    ctx.require(bt is not None, 'anchor vanished: beartyping')
    tries = [t for t in walk_shallow(bt) if isinstance(t, ast.Try) and t.finalbody]
    ctx.ob('C06.R4', 'beartyping:restore-in-finally', cm.where(bt),
           'the restore runs in a finally block (also when the body of the with statement raises)', len(tries) == 1,
           f'{len(tries)} try/finally statements in beartyping()')
    if len(tries) != 1:
        return _r5(ctx, repo)
    t = tries[0]
    # write set
    writes = set()
    for st in t.body:
        for s in stores_in(st):
            writes.add('whitelist-root-conf' if 'conf_if_hooked' in s else 'trie')
    calls_all = any(isinstance(c, ast.Call) and dotted(c.func) == 'beartype_all' for st in t.body for c in ast.walk(st))
    if calls_all:
        # through hook_packages
        for c in seq:
            nm = dotted(c.func)
            if nm == '_blacklist_packages':
                writes.add('blacklist-trie')
            elif nm == '_whitelist_packages_all':
                writes.add('whitelist-root-conf')
        if any(isinstance(c, ast.Call) and dotted(c.func) == 'add_beartype_path_hook' for c in walk_shallow(hp)):
            writes.add('path-hook')
    restores = set()
    for st in t.finalbody:
        for s in stores_in(st):
            if 'conf_if_hooked' in s:
                restores.add('whitelist-root-conf')
            if 'blacklist' in s:
                restores.add('blacklist-trie')
        for c in ast.walk(st):
            if isinstance(c, ast.Call) and 'remove_beartype_path' in (dotted(c.func) or ''):
                restores.add('path-hook')
            if isinstance(c, ast.Call) and 'blacklist' in (dotted(c.func) or '').lower():
                restores.add('blacklist-trie')
    for w in sorted(writes):
        ctx.ob('C06.R4', f'beartyping:restores:{w}', cm.where(t), f'{w}, written inside the block, is restored on exit',
               w in restores, f'the finally block restores only {sorted(restores)}')
    # (a') the root configuration is restored to the value saved before the block overwrote it
    saved = {}
    for st in t.body:
        for a in ast.walk(st):
            if isinstance(a, ast.Assign) and isinstance(a.targets[0], ast.Name) and norm(a.value).endswith('packages_trie_whitelist.conf_if_hooked'):
                saved[a.targets[0].id] = a
    rest = [a for st in t.finalbody for a in ast.walk(st) if isinstance(a, ast.Assign)
            and norm(a.targets[0]).endswith('packages_trie_whitelist.conf_if_hooked')]
    if 'whitelist-root-conf' in writes and rest:
        ok = all(dotted(a.value) in saved for a in rest)
        first_store = min((x.lineno for st in t.body for x in ast.walk(st) if isinstance(x, ast.Assign)
                           and norm(x.targets[0]).endswith('packages_trie_whitelist.conf_if_hooked')), default=0)
        ok = ok and all(saved[dotted(a.value)].lineno < first_store for a in rest if dotted(a.value) in saved)
        ctx.ob('C06.R4', 'beartyping:restores-saved-root-conf', cm.where(rest[0]),
               'the root configuration is restored to the value read before the block first overwrote it', ok,
               f'restored with `{norm(rest[0].value)}`; saved copies: {sorted(saved)}')
    # (b)
    k = sum(1 for a in walk_shallow(hp) if isinstance(a, ast.Assign) and dotted(a.targets[0]) == 'conf'
            and isinstance(a.value, ast.Call) and dotted(a.value.func) == 'make_conf_hookable')
    cmp_ = [x for st in t.finalbody for x in ast.walk(st) if isinstance(x, ast.Compare) and 'conf_if_hooked' in norm(x.left)]
    ctx.require(cmp_, 'beartyping: no comparison of the registry in the finally block')
    comparand = cmp_[0].comparators[0]
    j = 0
    if isinstance(comparand, ast.Call) and dotted(comparand.func) == 'make_conf_hookable':
        j += 1
        comparand = comparand.args[0] if comparand.args else comparand
    cname = dotted(comparand)
    for a in walk_shallow(bt):
        if isinstance(a, ast.Assign) and dotted(a.targets[0]) == cname and isinstance(a.value, ast.Call) \
                and dotted(a.value.func) == 'make_conf_hookable' and a.lineno < cmp_[0].lineno:
            j += 1
    ctx.ob('C06.R4', 'beartyping:restore-condition-compares-stored-value', cm.where(cmp_[0]),
           'the comparand of the restore condition went through make_conf_hookable like the stored value',
           k == 0 or j >= 1, f'stored: make_conf_hookable applied {k}×; compared with `{norm(cmp_[0].comparators[0])}` '
           f'normalised {j}×: for any configuration without an explicit warning class the comparison is false and '
           f'nothing is restored')
    # normaliser idempotence (structural)
    mk = repo.mod('beartype.claw._package._clawpkgmake').defs.get('make_conf_hookable')
    ctx.require(mk is not None, 'anchor vanished: make_conf_hookable')
    guard = [i for i in walk_shallow(mk) if isinstance(i, ast.If) and '_is_warning_cls_on_decorator_exception_set' in norm(i.test)]
    ok = bool(guard) and norm(guard[0].test).startswith('not ') and any(
        "'warning_cls_on_decorator_exception'" in norm(x) for x in ast.walk(guard[0]))
    ctx.ob('C06.R4', 'make_conf_hookable:idempotent', repo.mod('beartype.claw._package._clawpkgmake').where(mk),
           'the normaliser is the identity on configurations with an explicit warning class and produces such a '
           'configuration otherwise', ok, '')

    _r5(ctx, repo)


def _registration(ctx, repo, cg):
    """R6–R8: registering a name reaches the node of that name; the "anything registered?" test
    sees registrations at every depth; the registry is only written by the registration module."""
    pm = repo.mod('beartype.claw._package.clawpkgmain')
    # ---- R6 ----------------------------------------------------------------------
    ctx.rule('C06.R6', 'registration descends to the node of the *full* dotted name: in _whitelist_packages_some and '
             '_blacklist_packages the component loop iterates the split of the name (minus the leaf for the '
             'blacklist), creates the missing child and descends in every iteration, and has no early exit '
             '(break / continue / return / raise); the configuration (or the blacklisted marker) is stored on the '
             'node the descent ended on')
    for fname, leaf in (('_whitelist_packages_some', False), ('_blacklist_packages', True)):
        fn = pm.defs.get(fname)
        ctx.require(fn is not None, f'anchor vanished: {fname}')
        # the loop over the package names that stores into the registry (a preceding read-only validation
        # pass, as a repair of F7 would add, is not a registration loop)
        outer = [x for x in walk_shallow(fn) if isinstance(x, ast.For) and parent(x) is fn and any(
            isinstance(a, ast.Assign) and isinstance(a.targets[0], (ast.Subscript, ast.Attribute)) for a in ast.walk(x))]
        ctx.require(len(outer) == 1, f'{fname}: expected one storing loop over the package names')
        name_var = dotted(outer[0].target)
        inner = [x for x in outer[0].body if isinstance(x, ast.For)]
        ctx.require(len(inner) == 1, f'{fname}: expected one descent loop per package name')
        lp = inner[0]
        comps = dotted(lp.iter)
        split = [a for a in outer[0].body if isinstance(a, ast.Assign) and dotted(a.targets[0]) == comps]
        ok_iter = bool(split) and norm(split[0].value) == f"{name_var}.split('.')"
        if leaf and ok_iter:
            # the blacklist stores the marker under the last component: the loop runs over components[:-1]
            ok_iter = len(split) == 2 and norm(split[1].value) == f'{comps}[:-1]'
        elif ok_iter:
            ok_iter = len(split) == 1
        ctx.ob('C06.R6', f'{fname}:descent-over-all-components', pm.where(lp),
               'the descent loop runs over every component of the registered name', ok_iter,
               f'loop over `{norm(lp.iter)}`; assignments to it: {[norm(a.value) for a in split]}')
        exits = [x for x in ast.walk(lp) if isinstance(x, (ast.Break, ast.Continue, ast.Return, ast.Raise))]
        ctx.ob('C06.R6', f'{fname}:descent-has-no-early-exit', pm.where(exits[0] if exits else lp),
               'the descent loop has no early exit: the node reached is the node of the full name', not exits,
               f'`{norm(exits[0])}` under `{norm(parent(exits[0]).test)[:80] if exits and isinstance(parent(exits[0]), ast.If) else ""}` '
               f'leaves the descent before the last component' if exits else '')
        cur = None
        desc = [a for a in lp.body if isinstance(a, ast.Assign) and isinstance(a.value, ast.Subscript)
                and dotted(a.value.value) == dotted(a.targets[0]) and dotted(a.value.slice) == dotted(lp.target)]
        ok_desc = len(desc) == 1 and lp.body[-1] is desc[0]
        if desc:
            cur = dotted(desc[0].targets[0])
        create = [i for i in lp.body if isinstance(i, ast.If) and norm(i.test) == f'{dotted(lp.target)} not in {cur}']
        ok_desc = ok_desc and len(create) == 1 and len(lp.body) == 2
        ctx.ob('C06.R6', f'{fname}:descent-creates-and-descends', pm.where(lp),
               'each iteration creates the missing child and then descends into it, unconditionally', ok_desc,
               f'loop body: {[norm(x)[:60] for x in lp.body]}')
        after = outer[0].body[outer[0].body.index(lp) + 1:]
        tgt_ok = False
        for st in after:
            for a in ast.walk(st):
                if isinstance(a, ast.Assign):
                    t = a.targets[0]
                    if leaf and isinstance(t, ast.Subscript) and dotted(t.value) == cur:
                        tgt_ok = True
                    if not leaf and isinstance(t, ast.Attribute) and t.attr == 'conf_if_hooked' and dotted(t.value) == cur:
                        tgt_ok = True
        ctx.ob('C06.R6', f'{fname}:stores-on-descended-node', pm.where(outer[0]),
               'the registration is stored on the node the descent ended on', tgt_ok and cur is not None, f'descent variable {cur}')

    # ---- R7 ----------------------------------------------------------------------
    ctx.rule('C06.R7', 'is_packages_trie() — which decides whether the path hook may be removed — is true whenever '
             'anything is registered at any depth: interpreted over the abstract registry shapes {nothing, root '
             'configuration only, a registered top-level package, a registered sub-package below an unregistered '
             'parent (what registering "a.b" creates)} × {root configuration set / unset}')
    from sa.fold import AObj, FuncVal, _Abort, _Raise, _call_function
    from . import _gen
    F = _gen.engines(ctx)[0].f
    tm = repo.mod('beartype.claw._package.clawpkgtrie')
    fnv = F.const('beartype.claw._package.clawpkgtrie', 'is_packages_trie')
    ctx.require(isinstance(fnv, FuncVal), 'anchor vanished: is_packages_trie')

    class _Trie(AObj):
        """Abstract registry node: a mapping of child nodes plus the two slots of the real class."""

        def __init__(self, conf=None, **kids):
            self.kids = dict(kids)
            self.conf_if_hooked = conf
            self.package_basename = None

        def values(self):
            return list(self.kids.values())

        def keys(self):
            return list(self.kids.keys())

        def items(self):
            return list(self.kids.items())

        def get(self, k, d=None):
            return self.kids.get(k, d)

        def __iter__(self):
            return iter(list(self.kids))

        def __len__(self):
            return len(self.kids)

        def __contains__(self, k):
            return k in self.kids

        def __getitem__(self, k):
            return self.kids[k]

        def __repr__(self):
            return f'<trie conf={self.conf_if_hooked is not None} {self.kids!r}>'
    trie = _Trie
    prev_b = F.builtin_hook

    def bh(name, args, kwargs):
        if args and isinstance(args[0], _Trie) and name in ('bool', 'len'):
            return len(args[0]) if name == 'len' else bool(len(args[0]))
        return prev_b(name, args, kwargs) if prev_b else NotImplemented
    F.builtin_hook = bh
    conf = AObj()
    shapes = {
        'nothing': lambda: trie(),
        'top-level-package': lambda: trie(a=trie(conf)),
        'sub-package-below-unregistered-parent': lambda: trie(a=trie(None, b=trie(conf))),
        'sub-sub-package': lambda: trie(a=trie(None, b=trie(None, c=trie(conf)))),
    }
    state = AObj()
    old = F.patch_global('beartype.claw._clawstate', 'claw_state', state)
    try:
        for root_conf in (False, True):
            for nm, mk in shapes.items():
                t = mk()
                if root_conf:
                    t.conf_if_hooked = conf
                state.packages_trie_whitelist = t
                state.packages_trie_blacklist = _Trie()
                try:
                    out = _call_function(F, fnv, [], {}, 1)
                    if isinstance(out, _Trie):
                        out = bool(len(out))
                except (_Abort, _Raise) as ex:
                    ctx.require(False, f'cannot interpret is_packages_trie: {ex}')
                want = root_conf or nm != 'nothing'
                ctx.ob('C06.R7', f'is_packages_trie:{nm}:root-conf={root_conf}', tm.where(fnv.node),
                       'the registry counts as non-empty exactly when something is registered (at any depth)',
                       out is want,
                       f'is_packages_trie() evaluates to {out!r} for this registry shape; expected {want}: '
                       + ('leaving beartyping() would remove the path hook although a package is still registered' if want else
                          'the path hook would never be removed'))
    finally:
        F.patch_global('beartype.claw._clawstate', 'claw_state', old)
        F.builtin_hook = prev_b
    rm = tm.defs.get('remove_beartype_pathhook_unless_packages_trie')
    ctx.require(rm is not None, 'anchor vanished: remove_beartype_pathhook_unless_packages_trie')
    ifs = [i for i in walk_shallow(rm) if isinstance(i, ast.If)]
    ok = len(ifs) == 1 and norm(ifs[0].test) == 'not is_packages_trie()' and not ifs[0].orelse and \
        [norm(x) for x in ifs[0].body] == ['remove_beartype_path_hook()']
    ctx.ob('C06.R7', 'remove-path-hook-only-when-registry-empty', tm.where(rm),
           'the path hook is removed only when is_packages_trie() is false', ok, f'{[norm(i.test) for i in ifs]}')

    # ---- R8 ----------------------------------------------------------------------
    ctx.rule('C06.R8', 'who may register: every public hook (beartype_all, beartype_package(s), beartype_this_package, '
             'beartyping via beartype_all) registers through hook_packages, which applies the skip list, the '
             'conflict check and the path hook; outside clawpkgmain the only stores into the registry are '
             'beartyping()\'s reset of the root configuration to None and its restore of the saved value, and the '
             'state constructor')
    mainq = 'beartype.claw._package.clawpkgmain'
    n = 0
    for q, (m, fn) in sorted(cg.funcs.items()):
        if q.startswith(mainq + '.') or q in EXEMPT:
            continue
        for a in ast.walk(fn):
            if not isinstance(a, (ast.Assign, ast.AugAssign)):
                continue
            for t in (a.targets if isinstance(a, ast.Assign) else [a.target]):
                txt = norm(t)
                if not ('packages_trie_whitelist' in txt or 'packages_trie_blacklist' in txt) or isinstance(t, ast.Name):
                    continue
                n += 1
                v = a.value
                ok = q.endswith('clawpkgcontext.beartyping') and txt.endswith('packages_trie_whitelist.conf_if_hooked') and (
                    (isinstance(v, ast.Constant) and v.value is None) or
                    (isinstance(v, ast.Name) and v.id.endswith('_old')))
                ctx.ob('C06.R8', f'registry-store:{q.replace("beartype.claw.", "")}:{txt}={norm(v)[:40]}', m.where(a),
                       'a store into the registry outside the registration module is the reset / restore of beartyping()',
                       ok, f'`{norm(a)[:100]}` registers a configuration without going through hook_packages '
                       f'(skip list, conflict check and path hook are bypassed)')
    cm = repo.mod('beartype.claw._clawmain')
    pubs = [f for f in cm.tree.body if isinstance(f, ast.FunctionDef) and f.name.startswith('beartype_')]
    ctx.require(len(pubs) >= 4, f'expected the four public hook functions in beartype.claw._clawmain, found {len(pubs)}')
    for f in pubs:
        calls = [c for c in walk_shallow(f) if isinstance(c, ast.Call) and dotted(c.func) == 'hook_packages']
        kw = {k.arg: norm(k.value) for c in calls for k in c.keywords}
        ctx.ob('C06.R8', f'public-hook:{f.name}:through-hook_packages', cm.where(f),
               'the public hook registers through hook_packages with the caller\'s configuration',
               len(calls) == 1 and kw.get('conf') == 'conf', f'{[norm(c)[:80] for c in calls]}')
    bt = repo.mod('beartype.claw._package.clawpkgcontext').defs.get('beartyping')
    calls = [c for c in ast.walk(bt) if isinstance(c, ast.Call) and dotted(c.func) in ('beartype_all', 'hook_packages')]
    kw = {k.arg: norm(k.value) for c in calls for k in c.keywords}
    ctx.ob('C06.R8', 'public-hook:beartyping:through-hook_packages', repo.mod('beartype.claw._package.clawpkgcontext').where(bt),
           'beartyping() registers its configuration through beartype_all() / hook_packages', len(calls) == 1 and kw.get('conf') == 'conf',
           f'{[norm(c)[:80] for c in calls]}')
    ctx.floor('C06.R8', n, 2, 'registry stores outside the registration module')


def _r5(ctx, repo):
    # ---- R5 ----------------------------------------------------------------------
    ctx.rule('C06.R5', 'add_beartype_path_hook / remove_beartype_path_hook are idempotent (early return on the '
             'state they establish), keep claw_state.beartype_path_hook in step with sys.path_hooks, and '
             'invalidate the importer caches after changing sys.path_hooks')
    im = repo.mod('beartype.claw._importlib.clawimpmain')
    for fname, guard_txt, mutate in (('add_beartype_path_hook', 'is not None', 'insert'),
                                     ('remove_beartype_path_hook', 'is None', 'remove')):
        fn = im.defs.get(fname)
        ctx.require(fn is not None, f'anchor vanished: {fname}')
        first = next((s for s in fn.body if not (isinstance(s, ast.Expr) and isinstance(s.value, ast.Constant))
                      and not isinstance(s, (ast.Import, ast.ImportFrom))), None)
        idem = isinstance(first, ast.If) and f'claw_state.beartype_path_hook {guard_txt}' == norm(first.test) \
            and isinstance(first.body[-1], ast.Return)
        ctx.ob('C06.R5', f'{fname}:idempotent', im.where(fn), 'a second call is a no-op', idem,
               norm(first.test) if isinstance(first, ast.If) else 'no guard')
        order = []
        for st in fn.body:
            for x in ast.walk(st):
                if isinstance(x, ast.Call) and isinstance(x.func, ast.Attribute) and dotted(x.func.value) == 'path_hooks' \
                        and x.func.attr == mutate:
                    order.append('mutate')
                if isinstance(x, ast.Call) and dotted(x.func) == '_clear_importlib_caches':
                    order.append('clear')
            if isinstance(st, ast.Assign) and norm(st.targets[0]) == 'claw_state.beartype_path_hook':
                order.append('slot')
        ctx.ob('C06.R5', f'{fname}:mutate-slot-invalidate', im.where(fn),
               'sys.path_hooks is changed, the slot updated and the caches invalidated, in that order',
               order == ['mutate', 'slot', 'clear'], f'{order}')
    cl = im.defs.get('_clear_importlib_caches')
    ctx.require(cl is not None, 'anchor vanished: _clear_importlib_caches')
    txt = norm(cl)
    ctx.ob('C06.R5', '_clear_importlib_caches:both-caches', im.where(cl),
           'both sys.path_importer_cache and the finders\' caches are invalidated',
           'path_importer_cache.clear()' in txt and 'invalidate_caches()' in txt, '')
