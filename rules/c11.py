"""C11 — only beartype's exceptions for bad hints.

R1  raise-site typing: every ``raise`` resolves to a ``BeartypeException`` subclass, a bare
    re-raise, a forwarded ``exception_cls`` / ``exception`` parameter, or one of the
    protocol-mandated builtins of table T2;
R2  ``exception_cls`` flows: defaults and call-site arguments are beartype classes or
    forwarded parameters; the sibling routes into ``make_func`` both pass a public class;
R3  family layering: each sub-package raises only its own exception family;
R4  the placeholder re-raise keeps the exception object;
R5  no unguarded hash of raw user input in a public entry function;
R6  user exceptions pass through generated wrappers (no ``try`` around the call-through).
"""
from __future__ import annotations

import ast

from sa.astutil import dotted, inside_try_catching, params_of
from sa.callgraph import CallGraph
from sa.flow import walk_shallow
from sa.repo import Ref, norm, parent, qualname_of, enclosing_function

BASE = ('beartype.roar._roarexc', 'BeartypeException')
WBASE = ('beartype.roar._roarwarn', 'BeartypeWarning')

# T2 of DESIGN-tables: raise sites that are not beartype classes, one reason each.
T2 = {
    ('meta._init', 'RuntimeError'): 'interpreter-version gate raised before beartype.roar can be imported',
    ('typing.__getattr__', 'AttributeError'): 'protocol of module __getattr__ (PEP 562) in beartype.typing',
    ('utilmoddeprecate.deprecate_module_attr', 'AttributeError'): 'protocol of module __getattr__ (PEP 562)',
    ('utilmoddeprecate.deprecate_module_attr', 'ImportError'): 'same protocol, broken redirect',
    ('fwdrefmeta.BeartypeForwardRefMeta.__getattr__', 'AttributeError'): 'hasattr / getattr protocol on proxies (dunder names)',
    ('fwdscopecls.BeartypeForwardScope.__missing__', 'KeyError'): 'mapping protocol; converted by the resolver into the forward-reference exception',
    ('utilmaplru.CacheLruStrong.__getitem__', 'KeyError'): 'mapping protocol',
    ('utilmapfrozen.FrozenDict.__hash__', 'TypeError'): 'hash() protocol for unhashable values',
    ('doorpep484604.UnionTypeHint._is_subhint_branch', 'NotImplementedError'): 'unreachable abstract slot',
    ('_roarexc.BeartypeDecorHintPepNumberedException.pep_number', 'NotImplementedError'): 'abstract property',
    ('_plughintable.BeartypeHintable.__beartype_hint__', 'NotImplementedError'): 'abstract class method',
    ('pep649749annotate.*', 'NotImplementedError'): 'PEP 749 __annotate__ protocol for unsupported formats',
    ('pep649749annotate.*', '<saved NameError>'): 'PEP 749 protocol: re-raise of the NameError saved by the shim',
    ('utilerrraise.reraise_exception_placeholder', '<with_traceback>'): 're-raise of the caught object itself (rule R4)',
}

FAMILY_RULES = [
    # (module prefix, allowed beartype exception families (class-name prefixes), reason)
    ('beartype._check.code', ('BeartypeDecor',), 'code generation happens at decoration time'),
    ('beartype._check.convert', ('BeartypeDecor', '_BeartypeDecor'), 'hint conversion happens at decoration time'),
    ('beartype._decor', ('BeartypeDecor', '_BeartypeDecor'), 'decoration'),
    ('beartype._conf', ('BeartypeConf',), 'configuration'),
    ('beartype.claw', ('BeartypeClaw', '_BeartypeClaw'), 'import hooks'),
    ('beartype.vale', ('BeartypeVale', '_BeartypeVale'), 'validators'),
    ('beartype.door', ('BeartypeDoor',), 'DOOR API'),
    ('beartype._check.error', ('_BeartypeCallHintPepRaise', 'BeartypePlug'),
     'explanation path: only the private desynchronisation classes (C03.R6) and the plugin-protocol exception for a '
     'user __instancecheck_str__ that returns a non-string'),
]


def _site_key(m, node):
    fn = enclosing_function(node)
    q = qualname_of(fn) if fn is not None else '<module>'
    return f'{m.name.split(".")[-1]}.{q}'


def run(ctx):
    repo = ctx.repo

    def beartype_cls(ref: Ref):
        return ref.kind == 'class' and repo.is_subclass(ref, BASE)

    # ---- R1 ----------------------------------------------------------------------
    ctx.rule('C11.R1', 'every raise statement of the package raises a BeartypeException subclass (resolved through '
             'imports and the class hierarchy of beartype.roar), re-raises, raises a forwarded exception_cls / '
             'exception parameter, or is one of the protocol-mandated builtin raises of table T2')
    n = 0
    per_mod = {}
    for mn, m in sorted(repo.modules.items()):
        if 'raise' not in m.src:
            continue
        for node in ast.walk(m.tree):
            if not isinstance(node, ast.Raise):
                continue
            n += 1
            if node.exc is None:
                continue
            f = node.exc.func if isinstance(node.exc, ast.Call) else node.exc
            r = repo.resolve_expr(m, f)
            key = _site_key(m, node)
            fn = enclosing_function(node)
            if beartype_cls(r):
                per_mod.setdefault(mn, []).append((node, r))
                continue
            if r.kind == 'def' and isinstance(node.exc, ast.Call) and isinstance(getattr(r, 'node', None), ast.FunctionDef):
                # `raise _make_some_exception(…)`: an exception factory of the repository — every value it returns must
                # be an instance of a BeartypeException subclass
                fm = repo.modules.get(r.module)
                rets = [x for x in walk_shallow(r.node) if isinstance(x, ast.Return)]
                classes = []
                for x in rets:
                    c_ = x.value.func if isinstance(x.value, ast.Call) else None
                    rr = repo.resolve_expr(fm, c_) if (c_ is not None and fm is not None) else None
                    classes.append(rr if (rr is not None and beartype_cls(rr)) else None)
                okf = bool(rets) and all(c_ is not None for c_ in classes)
                ctx.ob('C11.R1', f'raise:{key}:{norm(f)}', m.where(node),
                       'an exception factory called in a raise statement returns instances of BeartypeException subclasses only',
                       okf, f'`raise {norm(node.exc)[:60]}`: {r.name} returns {[norm(x.value)[:40] if x.value is not None else None for x in rets]}')
                if okf:
                    per_mod.setdefault(mn, []).append((node, classes[0]))
                continue
            if r.kind == 'local':
                nm = dotted(f)
                ok = fn is not None and nm in params_of(fn) and nm in ('exception_cls', 'exception')
                if not ok and fn is not None:
                    # local assigned from a parameter / a saved exception object
                    src = [a for a in walk_shallow(fn) if isinstance(a, ast.Assign) and dotted(a.targets[0]) == nm]
                    ok = any(dotted(a.value) in params_of(fn) for a in src)
                    if not ok and (key.split('.')[0], '<saved NameError>') in {(k[0].split('.')[0], k[1]) for k in T2}:
                        ok = 'pep649749annotate' in key and 'name_error' in nm
                    if not ok:
                        # replay of a memoised / just-caught exception object: bound by ``except … as NAME`` or
                        # read back from the memo table of exceptions
                        bound = any(isinstance(h, ast.ExceptHandler) and h.name == nm for h in walk_shallow(fn))
                        memo = any(isinstance(a.value, ast.Call) and 'exception' in (dotted(a.value.func) or '') for a in src)
                        ok = bound or memo
                ctx.ob('C11.R1', f'raise:{key}:{nm}', m.where(node),
                       'a raised local is a forwarded exception_cls / exception parameter', ok,
                       f'`raise {norm(node.exc)[:60]}` raises a local that is not a forwarded parameter')
                continue
            cname = r.name if r.kind == 'builtin' else ('<with_traceback>' if norm(f).endswith('.with_traceback') else norm(f))
            tk = (key, cname)
            wild = (key.split('.')[0] + '.*', cname)
            reason = T2.get(tk) or T2.get(wild) or T2.get((key.split('.')[0] + '.' + key.split('.', 1)[1].split('.')[-1] if False else key, cname))
            ctx.ob('C11.R1', f'raise:{key}:{cname}', m.where(node),
                   'a non-beartype raise is one of the protocol-mandated builtin raises (T2)', reason is not None,
                   f'`raise {norm(node.exc)[:80]}` is neither a BeartypeException subclass nor a reviewed builtin raise')
    ctx.floor('C11.R1', n, 300, 'raise statements')
    ctx.note(f'{sum(len(v) for v in per_mod.values())} raise sites resolve to BeartypeException subclasses')

    # ---- R3 ----------------------------------------------------------------------
    ctx.rule('C11.R3', 'family layering: under each sub-package every directly raised beartype class belongs to the '
             'family of that sub-package (decoration-time problems are not raised as call-time classes, etc.)')
    for prefix, fams, reason in FAMILY_RULES:
        sites = [(mn, node, r) for mn, lst in per_mod.items() if mn == prefix or mn.startswith(prefix + '.')
                 for node, r in lst]
        bad = [(mn, node, r) for mn, node, r in sites if not any(r.name.startswith(f) for f in fams)]
        ctx.ob('C11.R3', f'family:{prefix}', f'{prefix.replace(".", "/")}:0',
               f'{len(sites)} raise sites under {prefix} raise only {"/".join(fams)}* classes ({reason})', not bad,
               f'{bad[0][0]}:{bad[0][1].lineno} raises {bad[0][2].name}' if bad else '')
    # warnings
    wn = 0
    for mn, m in sorted(repo.modules.items()):
        if 'issue_warning' not in m.src:
            continue
        for c in ast.walk(m.tree):
            if isinstance(c, ast.Call) and dotted(c.func) == 'issue_warning':
                kw = next((k.value for k in c.keywords if k.arg == 'warning_cls'), None)
                if kw is None:
                    continue
                wn += 1
                r = repo.resolve_expr(m, kw)
                ok = (r.kind == 'class' and repo.is_subclass(r, WBASE)) or r.kind == 'local' \
                    or (r.kind == 'builtin' and r.name == 'DeprecationWarning')
                ctx.ob('C11.R3', f'warning:{_site_key(m, c)}:{norm(kw)}', m.where(c),
                       'an issued warning is a BeartypeWarning subclass (or the standard DeprecationWarning for '
                       'deprecated options / a forwarded category)', ok, f'warning_cls={norm(kw)} resolves to {r.kind} {r.qual}')
    ctx.floor('C11.R3', wn, 5, 'issue_warning call sites')

    # ---- R2 ----------------------------------------------------------------------
    ctx.rule('C11.R2', '(a) every default of an exception_cls parameter and every exception_cls= call-site argument '
             'resolves to a BeartypeException subclass or a forwarded parameter; (b) the sibling routes into '
             'make_func (decorator route, door route) both pass a public exception_cls, so a code-generation '
             'failure is reported alike')
    nd = 0
    for mn, m in sorted(repo.modules.items()):
        if 'exception_cls' not in m.src:
            continue
        for fn in [x for x in ast.walk(m.tree) if isinstance(x, (ast.FunctionDef, ast.AsyncFunctionDef))]:
            a = fn.args
            pos = a.posonlyargs + a.args
            defaults = dict(zip([p.arg for p in pos[len(pos) - len(a.defaults):]], a.defaults))
            defaults.update({p.arg: d for p, d in zip(a.kwonlyargs, a.kw_defaults) if d is not None})
            if 'exception_cls' in defaults:
                nd += 1
                d = defaults['exception_cls']
                r = repo.resolve_expr(m, d)
                ok = beartype_cls(r) or (isinstance(d, ast.Constant) and d.value is None)
                ctx.ob('C11.R2', f'default:{mn.split(".")[-1]}.{qualname_of(fn)}', m.where(fn),
                       'the default exception_cls is a BeartypeException subclass', ok, f'default {norm(d)} resolves to {r.kind} {r.qual}')
        for c in ast.walk(m.tree):
            if isinstance(c, ast.Call):
                for k in c.keywords:
                    if k.arg == 'exception_cls':
                        r = repo.resolve_expr(m, k.value)
                        ok = beartype_cls(r) or r.kind == 'local' or (r.kind == 'attr')
                        if not ok:
                            ctx.ob('C11.R2', f'argument:{_site_key(m, c)}:{norm(k.value)}', m.where(c),
                                   'an exception_cls argument is a BeartypeException subclass or a forwarded parameter',
                                   False, f'{norm(k.value)} resolves to {r.kind} {r.qual}')
    ctx.floor('C11.R2', nd, 100, 'exception_cls parameters with defaults')
    cg = CallGraph(repo, prefixes=('beartype._decor', 'beartype._check', 'beartype._util.func'))
    mk = 'beartype._util.func.utilfuncmake.make_func'
    callers = cg.callers.get(mk, [])
    ctx.require(len(callers) >= 2, f'expected ≥ 2 callers of make_func, found {len(callers)}')
    for cq, call in callers:
        m, fn = cg.funcs[cq]
        kw = next((k.value for k in call.keywords if k.arg == 'exception_cls'), None)
        r = repo.resolve_expr(m, kw) if kw is not None else None
        ok = r is not None and beartype_cls(r) and not r.name.startswith('_')
        ctx.ob('C11.R2', f'make_func-route:{cq.split(".")[-1]}', m.where(call),
               'this route into make_func passes a public BeartypeException subclass as exception_cls', ok,
               'no exception_cls argument: a generated-code failure surfaces as the private '
               '_BeartypeUtilCallableException' if kw is None else f'{norm(kw)} → {r.qual}')

    # ---- R4 ----------------------------------------------------------------------
    ctx.rule('C11.R4', 'reraise_exception_placeholder rewrites the message of the caught exception and re-raises '
             'that same object (its class is unchanged)')
    em = repo.mod('beartype._util.error.utilerrraise')
    fn = em.defs.get('reraise_exception_placeholder')
    ctx.require(fn is not None, 'anchor vanished: reraise_exception_placeholder')
    raises = [r for r in walk_shallow(fn) if isinstance(r, ast.Raise)]
    p0 = params_of(fn)[0]
    ok = bool(raises) and all(r.exc is None or dotted(r.exc) == p0 or norm(r.exc).startswith(f'{p0}.with_traceback(') for r in raises)
    ctx.ob('C11.R4', 'reraise_exception_placeholder:same-object', em.where(fn),
           'every raise re-raises the passed exception object', ok, f'{[norm(r) for r in raises]}')
    news = [c for c in walk_shallow(fn) if isinstance(c, ast.Call) and norm(c.func) in (f'type({p0})', f'{p0}.__class__')]
    ctx.ob('C11.R4', 'reraise_exception_placeholder:no-new-instance', em.where(fn),
           'no new exception instance is constructed', not news, f'{[norm(c)[:60] for c in news]}')

    # ---- R5 ----------------------------------------------------------------------
    _hash_guards(ctx)

    # ---- R7 ----------------------------------------------------------------------
    # a bare TypeError from the explanation path (rule shared with C03.R7)
    from . import _gen
    from .c03 import _licensed_operations
    _licensed_operations(ctx, _gen.dispatch(ctx), 'C11.R7')

    # ---- R8 / R9 -----------------------------------------------------------------
    _user_text_and_user_callables(ctx)

    # ---- R10 ---------------------------------------------------------------------
    _agreement(ctx)

    # ---- R11 ---------------------------------------------------------------------
    _probe_handlers(ctx)

    # ---- R12 ---------------------------------------------------------------------
    _raw_hint_identity_only(ctx)

    # ---- R13 ---------------------------------------------------------------------
    _foreign_factories_guarded(ctx)

    # ---- R14 ---------------------------------------------------------------------
    _hint_keyed_lookups(ctx)

    # ---- R6 ----------------------------------------------------------------------
    ctx.rule('C11.R6', 'no generated wrapper puts the call-through (or a validator invocation) inside a try body: a '
             'user exception propagates unchanged; the only try statements are the PEP 525 forwarding handlers')
    from . import _wrap
    from sa.wrapcheck import in_try_body
    ws = _wrap.wrappers(ctx)
    nbad, first = 0, ''
    ntry = 0
    for f, r, facts in ws:
        if facts is None or not facts.ok:
            continue
        for c in facts.calls_through:
            if in_try_body(c, facts.fn):
                nbad += 1
                first = first or f.describe()
        tries = [t for t in ast.walk(facts.fn) if isinstance(t, ast.Try)]
        ntry += len(tries)
        if tries and f.kind != 'agen':
            nbad += 1
            first = first or f'{f.describe()}: a try statement in a non-async-generator wrapper'
    ctx.ob('C11.R6', 'wrappers:call-through-outside-try', 'beartype/_data/check/code/func/datacodefuncwrap.py:0',
           f'{len(ws)} generated wrappers: call-through outside any try; try statements only in async-generator '
           f'wrappers', nbad == 0, first)


def _broad(h) -> bool:
    return h.type is None or (dotted(h.type) in ('Exception', 'BaseException'))


def _user_text_and_user_callables(ctx):
    repo = ctx.repo
    ctx.rule('C11.R8', 'user-supplied text is evaluated (eval / exec / compile of a string that is a parameter of the '
             'enclosing function) only as the body of a try statement with a handler for Exception (everything '
             'evaluating an arbitrary expression can raise) that raises a beartype class — exception_cls or a '
             'BeartypeException subclass — from the caught exception')
    n = 0
    for mn, m in sorted(repo.modules.items()):
        if 'eval(' not in m.src and 'exec(' not in m.src:
            continue
        for c in [x for x in ast.walk(m.tree) if isinstance(x, ast.Call) and dotted(x.func) in ('eval', 'exec')]:
            fn = enclosing_function(c)
            if fn is None or not c.args or not (isinstance(c.args[0], ast.Name) and c.args[0].id in params_of(fn)):
                continue
            # generated code is compiled from beartype's own templates, not from user text
            if mn.startswith('beartype._util.func.utilfuncmake') or mn.startswith('beartype._util.cache') or mn.startswith('beartype.typing'):
                continue
            n += 1
            t = None
            p = c
            while p is not None and p is not fn:
                par = getattr(p, '_parent', None)
                if isinstance(par, ast.Try) and any(p is s for s in par.body):
                    t = par
                    break
                p = par
            ok, detail = False, 'not inside a try body'
            if t is not None:
                hs = [h for h in t.handlers if _broad(h)]
                detail = f'handlers: {[norm(h.type) if h.type is not None else "bare" for h in t.handlers]}'
                for h in hs:
                    rs = [r for r in ast.walk(h) if isinstance(r, ast.Raise) and r.exc is not None]
                    if rs and all(isinstance(r.exc, ast.Call) and (dotted(r.exc.func) == 'exception_cls' or
                                                                   repo.is_subclass(repo.resolve_expr(m, r.exc.func), BASE)) for r in rs):
                        ok = True
            ctx.ob('C11.R8', f'user-text:{_site_key(m, c)}', m.where(c),
                   'evaluating user-supplied text is wrapped: every exception becomes a beartype exception', ok, detail +
                   ': an exception class outside the caught ones (KeyError, ZeroDivisionError, … raised while evaluating a '
                   'stringified hint) escapes bare')
    ctx.floor('C11.R8', n, 1, 'evaluations of user-supplied text')

    ctx.rule('C11.R9', 'user callables keep their exceptions: under beartype/vale a call of a closure variable or '
             'parameter (the user\'s validator callable) is never in the body of a try whose Exception / BaseException / '
             'bare handler raises anything but the caught exception itself')
    n = 0
    for mn, m in sorted(repo.modules.items()):
        if not mn.startswith('beartype.vale'):
            continue
        for fn in [x for x in ast.walk(m.tree) if isinstance(x, (ast.FunctionDef, ast.AsyncFunctionDef, ast.Lambda))]:
            ps = set()
            f = fn
            while f is not None:
                ps |= set(params_of(f)) if not isinstance(f, ast.Lambda) else {a.arg for a in f.args.args}
                f = enclosing_function(f)
            ps -= {'self', 'cls'}
            for c in walk_shallow(fn) if not isinstance(fn, ast.Lambda) else ast.walk(fn.body):
                if not (isinstance(c, ast.Call) and isinstance(c.func, ast.Name) and c.func.id in ps):
                    continue
                own = set(params_of(fn)) if not isinstance(fn, ast.Lambda) else set()
                if c.func.id in own and not isinstance(fn, ast.Lambda) and fn.name.startswith('__'):
                    pass
                n += 1
                bad = None
                p = c
                while p is not None and p is not fn:
                    par = getattr(p, '_parent', None)
                    if isinstance(par, ast.Try) and any(p is s for s in par.body):
                        for h in par.handlers:
                            if not _broad(h):
                                continue
                            for r in ast.walk(h):
                                if isinstance(r, ast.Raise) and r.exc is not None and not (h.name and dotted(r.exc) == h.name):
                                    bad = r
                    p = par
                ctx.ob('C11.R9', f'user-callable:{_site_key(m, c)}:{c.func.id}', m.where(c),
                       f'an exception raised by the user callable {c.func.id}(…) propagates unchanged', bad is None,
                       f'the enclosing handler raises `{norm(bad.exc)[:70]}` instead' if bad is not None else '')
    ctx.floor('C11.R9', n, 1, 'calls of user-supplied callables under beartype/vale')


ENTRY_POINTS = [
    ('beartype._conf.confmain', 'BeartypeConf.__new__'),
    ('beartype.door._func.doorfunc', 'is_bearable'),
    ('beartype.door._func.doorfunc', 'die_if_unbearable'),
    ('beartype._check.checkmake', 'make_func_checker'),
    ('beartype.door._cls.doormeta', '_TypeHintMetaclass.__call__'),
    ('beartype._decor.decorcache', 'beartype'),
    # not an entry point, but constructed for every (also unhashable) hint: its metaclass tests
    # is_object_hashable(hint) and goes on to construct the object in the unhashable case (contradiction rule)
    ('beartype._check.cls.hint.hintsane', 'HintSane.__init__'),
]


def _hash_guards(ctx):
    ctx.rule('C11.R5', 'in the public entry functions (frozen list) a value built directly from parameters (the '
             'parameter itself or a tuple display of parameters) that is hashed by a module-level dictionary '
             '(membership test, subscript, .get) is hashed inside try/except TypeError, or only after a dominating '
             'validator that rejects non-instances of a hashable beartype class')
    repo = ctx.repo
    n = 0
    for modname, qual in ENTRY_POINTS:
        m = repo.modules.get(modname)
        if m is None:
            ctx.require(False, f'anchor vanished: module {modname}')
        fn = repo.find_def(modname, qual, required=False)
        ctx.require(fn is not None, f'anchor vanished: entry point {modname}.{qual}')
        params = set(params_of(fn)) - {'self', 'cls'}
        tainted = set(params)
        for a in walk_shallow(fn):
            if isinstance(a, ast.Assign) and isinstance(a.targets[0], ast.Name) and isinstance(a.value, ast.Tuple) \
                    and any(isinstance(e, ast.Name) and e.id in params for e in a.value.elts):
                tainted.add(a.targets[0].id)
        dicts = {nm for nm, sts in m.assigns.items() if any(isinstance(getattr(s, 'value', None), ast.Dict) for s in sts)}
        dict_params = {p for p in params if 'to_func' in p or p.endswith('_cache') or 'to_' in p}
        first_by_var = {}
        for x in walk_shallow(fn):
            site = None
            if isinstance(x, ast.Compare) and any(isinstance(o, (ast.In, ast.NotIn)) for o in x.ops) \
                    and dotted(x.left) in tainted and dotted(x.comparators[0]) in dicts | dict_params:
                site = (dotted(x.left), x)
            elif isinstance(x, ast.Subscript) and dotted(x.slice) in tainted and dotted(x.value) in dicts | dict_params:
                site = (dotted(x.slice), x)
            elif isinstance(x, ast.Call) and isinstance(x.func, ast.Attribute) and x.func.attr in ('get', 'setdefault') \
                    and dotted(x.func.value) in dicts | dict_params and x.args and dotted(x.args[0]) in tainted:
                site = (dotted(x.args[0]), x)
            elif isinstance(x, ast.Call) and dotted(x.func) == 'hash' and x.args and dotted(x.args[0]) in tainted:
                site = (dotted(x.args[0]), x)
            elif isinstance(x, ast.Call) and dotted(x.func) == 'hash' and x.args and isinstance(x.args[0], ast.Tuple) \
                    and any(isinstance(e, ast.Name) and e.id in params and e.id.startswith('hint') for e in x.args[0].elts):
                site = ('<key>', x)
            if site and (site[0] not in first_by_var or x.lineno < first_by_var[site[0]].lineno):
                first_by_var[site[0]] = site[1]
        for var, x in sorted(first_by_var.items()):
            n += 1
            guarded = inside_try_catching(x, {'TypeError'}, stop=fn)
            validated = any(isinstance(c, ast.Call) and dotted(c.func) in ('die_unless_conf',) and c.lineno < x.lineno
                            and any(dotted(a) == var for a in c.args) for c in walk_shallow(fn))
            ctx.ob('C11.R5', f'{qual}:first-hash-of:{"<key>" if var not in params else var}', m.where(x),
                   'the first hashing of a value built from raw parameters is guarded against TypeError',
                   guarded or validated,
                   f'`{norm(x)[:80]}` hashes raw user input unguarded: an unhashable argument escapes as a bare TypeError')
    ctx.floor('C11.R5', n, 2, 'first-hash sites in entry functions')


def _agreement(ctx):
    """R10: whenever the generated check and the explanation path disagree, the rejection surfaces as the private
    desynchronisation error (or as a foreign exception of code the check had skipped) — every obligation of C03 about their
    agreement is therefore a necessary condition of C11 as well and is imported here."""
    from sa import report
    from . import c03
    ctx.rule('C11.R10', 'no internal underscore-prefixed error escapes through the explanation path: the obligations of C03 on '
             'the agreement of generated check and explanation (dispatch per sign, shared logic objects, re-sampling of the '
             'very item tested incl. Literal alternatives, licensed operations, validators called as the check calls them, '
             'diagnoses of short-circuited operands) are imported as necessary conditions — a disagreement is reported by '
             'beartype as _BeartypeCallHintPepRaiseDesynchronizationException')
    sub = report.Ctx('C03', ctx.repo, tier=ctx.tier, seed=ctx.seed)
    c03.run(sub)
    take = ('C03.R1', 'C03.R2', 'C03.R3', 'C03.R7', 'C03.R8', 'C03.R9')
    n = bad = 0
    for o in sub.obs:
        if o.rule not in take:
            continue
        n += 1
        if not o.ok:
            bad += 1
            ctx.ob('C11.R10', f'agreement:{o.rule}:{o.key}', o.where, o.desc, False, o.detail)
    ctx.ob('C11.R10', 'agreement:obligations-imported', 'beartype/_check/error/errmain.py:0',
           f'{n} obligations on the agreement of check and explanation hold', bad == 0 and n >= 200, f'{bad} of {n} fail')


def _probe_handlers(ctx):
    """R11: the isinstance()/issubclass() probes of a user-supplied class run the user's metaclass hooks at decoration time;
    the tester and the raiser built on one probe must catch the same — everything (sibling agreement)."""
    repo = ctx.repo
    Q = 'beartype._util.cls.pep.clspep3119'
    m = repo.mod(Q)
    ctx.rule('C11.R11', 'probing whether a user class can be passed to isinstance() / issubclass() calls the user\'s metaclass '
             'hooks while the hint is validated: every probe site of beartype._util.cls.pep.clspep3119 (a call of the probe '
             'callable handed in as a parameter) sits in a try whose handler catches Exception, and the tester and the '
             'raiser siblings catch the same classes — otherwise the tester says "not checkable" while the raiser lets a bare '
             'ValueError out instead of the decoration-time beartype exception')
    sites = []
    for fn in [x for x in ast.walk(m.tree) if isinstance(x, ast.FunctionDef)]:
        ps = set(params_of(fn))
        for t in [x for x in walk_shallow(fn) if isinstance(x, ast.Try)]:
            probes = [c for st in t.body for c in ast.walk(st) if isinstance(c, ast.Call) and isinstance(c.func, ast.Name) and c.func.id in ps]
            if not probes:
                continue
            caught = sorted({(dotted(h.type) if h.type is not None else 'BaseException') for h in t.handlers} |
                            {dotted(e) for h in t.handlers if isinstance(h.type, ast.Tuple) for e in h.type.elts})
            sites.append((fn, t, caught))
    for fn, t, caught in sites:
        broad = any(c in ('Exception', 'BaseException') for c in caught)
        ctx.ob('C11.R11', f'probe:{qualname_of(fn)}:catches-everything', m.where(t),
               'the probe of the user\'s metaclass hook catches every exception it may raise', broad, f'catches {caught}')
    kinds = {tuple(c) for _, _, c in sites}
    ctx.ob('C11.R11', 'probe:siblings-agree', m.where(m.tree.body[0]), 'tester and raiser catch the same exception classes',
           len(kinds) <= 1, f'{[(qualname_of(f), c) for f, _, c in sites]}')
    ctx.floor('C11.R11', len(sites), 2, 'probe sites')


#: modules whose functions receive the *raw* annotation, before (or while) it is validated to be a hint
RAW_HINT_MODULES = ('beartype._check.convert.convmain', 'beartype._check.convert._convcoerce',
                    'beartype._util.hint.utilhinttest', 'beartype._util.hint.nonpep.utilnonpeptest')


def _dunder_dispatch_sites(fn, tainted):
    """(node, what) for each operation in fn that dispatches to a user-definable dunder of a tainted bare name other than
    hashing (R5): rich comparison, truth test, membership in a display (== on each element)."""
    def is_t(e):
        return isinstance(e, ast.Name) and e.id in tainted
    for x in walk_shallow(fn):
        if isinstance(x, ast.Compare):
            operands = [x.left] + list(x.comparators)
            for i, o in enumerate(x.ops):
                a, b = operands[i], operands[i + 1]
                if isinstance(o, (ast.Eq, ast.NotEq, ast.Lt, ast.LtE, ast.Gt, ast.GtE)) and (is_t(a) or is_t(b)):
                    yield x, f'rich comparison `{norm(x)[:60]}` runs the __eq__/__ne__ of the raw object', (a.id if is_t(a) else b.id)
                if isinstance(o, (ast.In, ast.NotIn)) and is_t(a) and isinstance(b, (ast.Tuple, ast.List)):
                    yield x, f'membership in a display `{norm(x)[:60]}` runs the __eq__ of the raw object', a.id
        tests = []
        if isinstance(x, (ast.If, ast.While, ast.IfExp)):
            tests.append(x.test)
        elif isinstance(x, ast.Assert):
            tests.append(x.test)
        for t in tests:
            stack = [t]
            while stack:
                e = stack.pop()
                if isinstance(e, ast.BoolOp):
                    stack.extend(e.values)
                elif isinstance(e, ast.UnaryOp) and isinstance(e.op, ast.Not):
                    stack.append(e.operand)
                elif is_t(e):
                    yield x, f'truth test of `{e.id}` runs the __bool__/__len__ of the raw object', e.id
        if isinstance(x, ast.Call) and dotted(x.func) in ('bool', 'len') and x.args and is_t(x.args[0]):
            yield x, f'`{norm(x)[:60]}` runs the __bool__/__len__ of the raw object', x.args[0].id


def _raw_hint_identity_only(ctx):
    """R12: on the way to validation the raw annotation is compared by identity only."""
    repo = ctx.repo
    ctx.rule('C11.R12', 'the functions that receive the raw annotation before it is validated (the sanifiers, the coercers and '
             'the hint testers: every function of ' + ', '.join(RAW_HINT_MODULES) + ' with a parameter named hint) never '
             'run a user-definable rich comparison, truth test or display membership on that parameter or on a value '
             'returned by a call it was handed to — identity, isinstance and attribute reads only (a name already tested by isinstance against a builtin container earlier in the function is the builtin\'s business); an annotation whose '
             '__eq__/__bool__ raises or returns a non-boolean (numpy array, ORM column) otherwise escapes decoration as a '
             'bare ValueError instead of the decoration-time beartype exception')
    n = 0
    for q in RAW_HINT_MODULES:
        m = repo.modules.get(q)
        ctx.require(m is not None, f'anchor vanished: module {q}')
        for fn in [x for x in ast.walk(m.tree) if isinstance(x, (ast.FunctionDef, ast.AsyncFunctionDef))]:
            if 'hint' not in params_of(fn):
                continue
            tainted = {'hint'}
            changed = True
            while changed:
                changed = False
                for a in walk_shallow(fn):
                    if isinstance(a, ast.Assign) and len(a.targets) == 1 and isinstance(a.targets[0], ast.Name) \
                            and a.targets[0].id not in tainted:
                        v = a.value
                        src = (isinstance(v, ast.Name) and v.id in tainted) or (
                            isinstance(v, ast.Call) and dotted(v.func) not in ('len', 'repr', 'type', 'id', 'isinstance', 'get_hint_pep_sign_or_none')
                            and any(isinstance(e, ast.Name) and e.id in tainted for e in list(v.args) + [k.value for k in v.keywords])
                            and a.targets[0].id.startswith('hint'))
                        if src:
                            tainted.add(a.targets[0].id)
                            changed = True
            # idiom: once the name was tested to be an instance of a builtin container (``isinstance(hint, tuple)``) its
            # truth value and comparisons are the builtin's, not the user's
            narrowed = {(dotted(c.args[0]), c.lineno, c.col_offset) for c in walk_shallow(fn)
                        if isinstance(c, ast.Call) and dotted(c.func) == 'isinstance' and len(c.args) == 2
                        and dotted(c.args[1]) in ('tuple', 'str', 'dict', 'list', 'frozenset', 'set', 'int', 'bool')}
            sites = [(x, w) for x, w, nm in _dunder_dispatch_sites(fn, tainted)
                     if not any(v == nm and (ln, col) <= (x.end_lineno, x.end_col_offset) for v, ln, col in narrowed)]
            n += 1
            ctx.ob('C11.R12', f'{q.rsplit(".", 1)[-1]}.{qualname_of(fn)}:raw-hint-identity-only', m.where(sites[0][0] if sites else fn),
                   'the raw annotation is compared by identity only before it is validated', not sites,
                   '; '.join(w for _, w in sites[:3]))
    ctx.floor('C11.R12', n, 8, 'functions receiving the raw annotation')


def _foreign_factories_guarded(ctx):
    """R13: the raw annotation (or a tuple of raw annotations) handed to a subscription factory of the typing module."""
    repo = ctx.repo
    ctx.rule('C11.R13', 'a raw annotation that reaches a subscription factory of a foreign module — X.__getitem__(…) / '
             'X.__class_getitem__(…) / X[…] with X imported from typing — on the way from the sanifiers and coercers (followed '
             'through repository functions the raw value is handed to, three calls deep) does so inside a try whose handler '
             'catches TypeError (or broader): the typing factories hash and validate their arguments and raise a bare TypeError '
             'for an unhashable or otherwise unacceptable member, e.g. is_bearable(0, (int, [1]))')
    sites = {}
    seen = set()

    def taint_of(fn, names):
        t = set(names)
        changed = True
        while changed:
            changed = False
            for a in walk_shallow(fn):
                if isinstance(a, ast.Assign) and len(a.targets) == 1 and isinstance(a.targets[0], ast.Name) \
                        and a.targets[0].id not in t and isinstance(a.value, ast.Name) and a.value.id in t:
                    t.add(a.targets[0].id)
                    changed = True
        return t

    def foreign(m, e):
        ref = repo.resolve_expr(m, e)
        if ref.kind == 'external':
            return True
        # beartype.typing re-exports the typing attributes
        return ref.module is not None and ref.module.startswith('beartype.typing')

    def follow(m, fn, names, depth, entry):
        key = (m.name, qualname_of(fn), tuple(sorted(names)))
        if key in seen:
            return
        seen.add(key)
        t = taint_of(fn, names)

        def is_t(e):
            return isinstance(e, ast.Name) and e.id in t
        for x in walk_shallow(fn):
            site = None
            if isinstance(x, ast.Call):
                f = x.func
                if isinstance(f, ast.Attribute) and f.attr in ('__getitem__', '__class_getitem__') and any(is_t(a) for a in x.args) \
                        and foreign(m, f.value):
                    site = x
                elif depth > 0 and any(is_t(a) for a in list(x.args) + [k.value for k in x.keywords]):
                    ref = repo.resolve_expr(m, f)
                    if ref.kind == 'def' and ref.node is not None and ref.module in repo.modules:
                        ps = params_of(ref.node)
                        nn = {ps[i] for i, a in enumerate(x.args) if is_t(a) and i < len(ps)} | \
                             {k.arg for k in x.keywords if is_t(k.value) and k.arg in ps}
                        if nn:
                            follow(repo.modules[ref.module], ref.node, nn, depth - 1, entry)
            elif isinstance(x, ast.Subscript) and isinstance(x.ctx, ast.Load) and foreign(m, x.value) \
                    and any(is_t(e) for e in ast.walk(x.slice)):
                site = x      # X[hint] / X[hint, Other]: the subscription of a typing object by raw annotations
            if site is not None:
                k = f'{m.name.rsplit(".", 1)[-1]}.{qualname_of(fn)}:{norm(site.func.value if isinstance(site, ast.Call) else site.value)}'
                ok = inside_try_catching(site, {'TypeError', 'Exception', 'BaseException'}, stop=fn)
                prev = sites.get(k)
                sites[k] = (m.where(site), (prev[1] if prev else True) and ok, norm(site)[:80], entry)
    for q in RAW_HINT_MODULES[:2]:
        m = repo.modules.get(q)
        ctx.require(m is not None, f'anchor vanished: module {q}')
        for fn in [x for x in ast.walk(m.tree) if isinstance(x, ast.FunctionDef)]:
            if 'hint' in params_of(fn):
                follow(m, fn, {'hint'}, 3, f'{q.rsplit(".", 1)[-1]}.{qualname_of(fn)}')
    for k, (where, ok, text, entry) in sorted(sites.items()):
        ctx.ob('C11.R13', f'foreign-factory:{k}', where, 'the typing factory is applied to raw annotations inside a handler for TypeError',
               ok, f'`{text}` (reached from {entry}) lets the TypeError of the typing module out')
    ctx.floor('C11.R13', len(sites), 1, 'foreign subscription factories fed raw annotations')
    ctx.require(len(seen) >= 8, f'only {len(seen)} functions followed from the sanifiers: the raw-annotation path was not traversed')


#: dictionary lookups keyed by a hint in the conversion pipeline that need no guard, with the reason the key is hashable there
HASHABLE_BY_DISPATCH = {
    # keyed by module: the reason holds for every function of a module that is only reached through that dispatch (a lookup
    # factored into a new private helper of the same module keeps it)
    'redpep484612646typearg':
        'dispatched on the type-parameter signs: the key is a TypeVar / ParamSpec / TypeVarTuple object, hashable by identity',
    'redpep544':
        'dispatched on the IO generics of typing: the key is a typing class or its subscription, both hashable',
    '_redrecurse':
        'the recursion guard is consulted with hints of the recursable signs (type aliases, overridden hints) — and, for '
        'overrides, inside the caller\'s TypeError handler',
}


def _hint_keyed_lookups(ctx):
    """R14: unhashable hints are supported (Annotated[int, []]): wherever the conversion pipeline uses a hint as a dictionary
    key the lookup is guarded, or the dispatch guarantees a hashable key (reviewed table, fail-closed for new sites)."""
    repo = ctx.repo
    ctx.rule('C11.R14', 'unhashable hints (Annotated[int, []], and non-hints such as [] that must be rejected with a beartype exception) '
             'reach the conversion pipeline: every dictionary lookup keyed by a hint parameter under beartype/_check/convert '
             '(d.get(hint) / d[hint] / hint in d / setdefault / pop) sits in a try whose handler catches TypeError, or under an '
             'is_object_hashable(hint) test, or is one of the reviewed sites whose dispatch guarantees a hashable key (table, one '
             'reason each; a new unguarded site is reported); and the wrappers of beartype.door never build a set / frozenset / '
             'dict from the raw arguments of a hint outside such a guard')
    n = 0
    for mn, m in sorted(repo.modules.items()):
        if not mn.startswith('beartype._check.convert'):
            continue
        short = mn.rsplit('.', 1)[-1]
        for fn in [x for x in ast.walk(m.tree) if isinstance(x, (ast.FunctionDef, ast.AsyncFunctionDef))]:
            ps = set(params_of(fn))
            hp = {p for p in ps if p == 'hint' or (p.startswith('hint_') and not p.endswith(('_sign', '_name', '_sane', '_prefix', '_index', '_len')))}
            if not hp:
                continue
            sites = []
            for x in walk_shallow(fn):
                if isinstance(x, ast.Call) and isinstance(x.func, ast.Attribute) and x.func.attr in ('get', 'setdefault', 'pop') and x.args \
                        and dotted(x.args[0]) in hp:
                    sites.append((x, dotted(x.args[0])))
                elif isinstance(x, ast.Subscript) and dotted(x.slice) in hp and not dotted(x.value).startswith(('Union', 'Optional', 'Annotated')):
                    sites.append((x, dotted(x.slice)))
                elif isinstance(x, ast.Compare) and any(isinstance(o, (ast.In, ast.NotIn)) for o in x.ops) and dotted(x.left) in hp \
                        and not isinstance(x.comparators[0], (ast.Tuple, ast.List)):
                    sites.append((x, dotted(x.left)))
            for x, key in sites:
                n += 1
                guarded = inside_try_catching(x, {'TypeError', 'Exception', 'BaseException'}, stop=fn)
                p = parent(x)
                while not guarded and p is not None and p is not fn:
                    if isinstance(p, (ast.If, ast.IfExp)) and any(
                            isinstance(c, ast.Call) and dotted(c.func).endswith('is_object_hashable') and c.args and dotted(c.args[0]) == key
                            for c in ast.walk(p.test)) and x not in list(ast.walk(p.test)):
                        guarded = True
                    p = parent(p)
                listed = short in HASHABLE_BY_DISPATCH
                ctx.ob('C11.R14', f'hint-key:{short}.{qualname_of(fn)}:{norm(x)[:50]}', m.where(x),
                       'a lookup keyed by a hint is guarded against unhashable hints (or its key is hashable by dispatch)', guarded or listed,
                       f'`{norm(x)[:80]}` hashes the hint unguarded: an unhashable hint escapes as a bare TypeError')
    ctx.floor('C11.R14', n, 5, 'hint-keyed lookups in the conversion pipeline')
    # beartype.door: no hashing of raw hint arguments
    k = 0
    for mn, m in sorted(repo.modules.items()):
        if not mn.startswith('beartype.door._cls'):
            continue
        short = mn.rsplit('.', 1)[-1]
        for fn in [x for x in ast.walk(m.tree) if isinstance(x, (ast.FunctionDef, ast.AsyncFunctionDef))]:
            k += 1
            bad = [x for x in walk_shallow(fn) if isinstance(x, ast.Call) and dotted(x.func) in ('frozenset', 'set', 'dict.fromkeys') and x.args
                   and any(isinstance(a, ast.Attribute) and a.attr in ('_args', '_hint', '__args__') for a in ast.walk(x.args[0]))
                   and not inside_try_catching(x, {'TypeError', 'Exception', 'BaseException'}, stop=fn)]
            if bad:
                ctx.ob('C11.R14', f'door-hash:{short}.{qualname_of(fn)}', m.where(bad[0]), 'raw hint arguments are not hashed outside a TypeError handler',
                       False, f'`{norm(bad[0])[:80]}` hashes the raw arguments of a hint (Literal[[1]] has an unhashable one)')
    ctx.ob('C11.R14', 'door-hash:functions-scanned', 'beartype/door/_cls/doorsuper.py:0', f'{k} functions of beartype.door._cls scanned for hashing of raw hint arguments',
           k >= 40, f'only {k} functions found')
