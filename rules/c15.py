"""C15 — thread safety (lock-set style necessary conditions).

R1  lockset consistency: state that is accessed under a lock anywhere is accessed under it
    everywhere; lock-free tables only see single atomic operations, or compound accesses
    that are listed with the reason they are benign;
R2  singleton creation is one critical section (lookup, construction and store inside the
    same ``with``);
R3  pooled objects: typestate acquired → released → dead (shared with C14.R5);
R4  the lock order is acyclic;
R5  no unsynchronised patch of a process-global of a foreign module.
"""
from __future__ import annotations

import ast

from sa.astutil import dotted, inside_with
from sa.callgraph import CallGraph
from sa.flow import walk_shallow
from sa.repo import enclosing_function, norm, parent, qualname_of

from .c14 import _module_tables, _writers, _import_time_only, pooled_typestate

# lock-free tables whose compound accesses were reviewed
BENIGN_COMPOUND = {
    'beartype._check.code.codescope._tuple_union_to_tuple_union':
        'interning of equal tuples: a lost race stores an equal tuple twice',
    'beartype._decor._type.decortype._BEARTYPED_MODULE_TO_TYPE_NAME':
        'redefinition heuristic: worst case one redundant or one missed clear_caches()',
    'beartype._check.cls.hint.hintsane._HINT_TO_HINTSANE':
        'get-then-store of an equal immutable value: duplicate work only',
    'beartype._decor.decorcache._bear_conf_to_decor': 'get-then-store of an equivalent closure: duplicate work only',
    'beartype._check.code.codemain._HINT_CONF_TO_CHECK_EXPR': 'get-then-store of an equal generated string: duplicate work only',
    'beartype._check.forward.reference._cls.fwdrefmeta._ref_proxy_to_resolved_hint': 'get-then-store of the same resolution: duplicate work only',
    'beartype._check.forward.reference._cls.fwdrefmeta._ref_proxy_to_resolved_type': 'get-then-store of the same resolution: duplicate work only',
}


#: the same reviews keyed by what the table is (module, constructor) rather than by its private name, so that a rename of the
#: table and of the function using it does not turn a reviewed access into a finding
BENIGN_BY_SHAPE = {
    ('beartype._decor._type.decortype', 'defaultdict(set)'): 'redefinition heuristic: worst case one redundant or one missed clear_caches()',
}


def _benign(q, tables):
    if q in BENIGN_COMPOUND:
        return True
    m_, st_ = tables[q]
    return (q.rsplit('.', 1)[0], norm(getattr(st_, 'value', None))) in BENIGN_BY_SHAPE


def _locks(repo):
    out = {}
    for mn, m in repo.modules.items():
        for nm, sts in m.assigns.items():
            for st in sts:
                v = getattr(st, 'value', None)
                if isinstance(v, ast.Call) and (dotted(v.func) or '').split('.')[-1] in ('Lock', 'RLock') and parent(st) is m.tree:
                    out[f'{mn}.{nm}'] = (m, st)
    return out


def _class_state(cls: ast.ClassDef):
    """(lock slots, mutable state slots) of a class, read off its __init__: a slot assigned the result of a call (Lock(),
    RLock(), lock_type()) that some method enters with `with self.<slot>` is a lock; a slot assigned a dictionary / list /
    set display or constructor call, or a bound method of such a slot, is mutable state."""
    init = next((f for f in cls.body if isinstance(f, ast.FunctionDef) and f.name == '__init__'), None)
    entered = {x.context_expr.attr for f in cls.body if isinstance(f, ast.FunctionDef) for w in ast.walk(f)
               if isinstance(w, ast.With) for x in w.items
               if isinstance(x.context_expr, ast.Attribute) and dotted(x.context_expr.value) == 'self'}
    locks, state = set(), set()
    if init is None:
        return locks, state
    for a in walk_shallow(init):
        if not isinstance(a, (ast.Assign, ast.AnnAssign)) or getattr(a, 'value', None) is None:
            continue
        t = a.targets[0] if isinstance(a, ast.Assign) else a.target
        if not (isinstance(t, ast.Attribute) and dotted(t.value) == 'self'):
            continue
        v = a.value
        if t.attr in entered:
            locks.add(t.attr)
        elif isinstance(v, (ast.Dict, ast.List, ast.Set)) or (isinstance(v, ast.Call) and (dotted(v.func) or '').split('.')[-1] in (
                'dict', 'list', 'set', 'defaultdict', 'deque', 'OrderedDict')):
            state.add(t.attr)
        elif isinstance(v, ast.Attribute) and isinstance(v.value, ast.Attribute) and dotted(v.value.value) == 'self' and v.value.attr in state:
            state.add(t.attr)          # self._get = self._table.get
    return locks, state


def _enclosing_lock_with(node, fn, locks):
    """id of the innermost `with self.<lock>` statement around node inside fn, or None."""
    w = parent(node)
    while w is not None and w is not fn:
        if isinstance(w, (ast.With, ast.AsyncWith)) and any(
                isinstance(i.context_expr, ast.Attribute) and i.context_expr.attr in locks and dotted(i.context_expr.value) == 'self'
                for i in w.items):
            return id(w)
        w = parent(w)
    return None


def run(ctx):
    repo = ctx.repo
    locks = _locks(repo)
    _LOCK_NAMES.clear()
    _LOCK_NAMES.update(q.rsplit('.', 1)[-1] for q in locks)
    tables = _module_tables(repo)
    writers = _writers(repo, tables)

    # ---- R1 ----------------------------------------------------------------------
    ctx.rule('C15.R1', 'for every module-level table written at run time: if any access is under a module-level lock, '
             'every access in a function is (lexically or in every caller); otherwise each access is a single atomic '
             'dictionary operation, or the table is listed with the reason its check-then-act is benign')
    n = 0
    for q, ws in sorted(writers.items()):
        live = [(m, fn, st) for m, fn, st in ws if not _import_time_only(repo, m, fn)]
        if not live:
            continue
        name = q.rsplit('.', 1)[1]
        mod = repo.mod(q.rsplit('.', 1)[0])
        # all accesses in the defining module
        acc = []
        for fn in [x for x in ast.walk(mod.tree) if isinstance(x, (ast.FunctionDef, ast.AsyncFunctionDef))]:
            for x in walk_shallow(fn):
                if isinstance(x, ast.Name) and x.id == name:
                    acc.append((fn, x))
        locked = [(fn, x) for fn, x in acc if _lock_of(x, locks, mod)]
        lock_names = {_lock_of(x, locks, mod) for fn, x in locked}
        n += 1
        if locked:
            bad = [(fn, x) for fn, x in acc if not _lock_of(x, locks, mod) and fn.name not in ('__init__', 'reinit', '_reinit_safe')]
            ctx.ob('C15.R1', f'lockset:{q}', mod.where(tables[q][1]),
                   f'every access of {name} is under {sorted(lock_names)}', not bad,
                   f'{qualname_of(bad[0][0])} line {bad[0][1].lineno} accesses it without the lock' if bad else '')
        else:
            compound = []
            for fn in {id(f): f for f, _ in acc}.values():
                xs = [x for f, x in acc if f is fn]
                stores = [x for x in xs if _is_store(x)]
                reads = [x for x in xs if not _is_store(x)]
                if stores and reads:
                    compound.append(fn)
            ok = not compound or _benign(q, tables)
            ctx.ob('C15.R1', f'lock-free:{q}', mod.where(tables[q][1]),
                   f'lock-free table {name} is only touched by single atomic operations (or its compound access is '
                   f'reviewed as benign)', ok,
                   f'{[qualname_of(f) for f in compound]} read and then write it without a lock (check-then-act)')
    ctx.floor('C15.R1', n, 8, 'run-time tables')
    # … the same through an alias: `v = TABLE[k]` followed by a test of v and a mutation of v (`v.pop() if v else make()`) is a
    # check-then-act on shared state although every single operation is atomic
    MUT = {'append', 'pop', 'add', 'remove', 'discard', 'clear', 'update', 'extend', 'insert', 'popitem', 'setdefault', 'appendleft', 'popleft'}
    n_alias = 0
    for q, (mod, st_) in sorted(tables.items()):
        name = q.rsplit('.', 1)[1]
        for fn in [x for x in ast.walk(mod.tree) if isinstance(x, (ast.FunctionDef, ast.AsyncFunctionDef))]:
            aliases = {}
            for a in walk_shallow(fn):
                if isinstance(a, ast.Assign) and len(a.targets) == 1 and isinstance(a.targets[0], ast.Name):
                    v = a.value
                    if (isinstance(v, ast.Subscript) and dotted(v.value) == name) or (
                            isinstance(v, ast.Call) and isinstance(v.func, ast.Attribute) and dotted(v.func.value) == name
                            and v.func.attr in ('get', 'setdefault')):
                        aliases[a.targets[0].id] = a
            for al, a in aliases.items():
                muts = [c for c in walk_shallow(fn) if isinstance(c, ast.Call) and isinstance(c.func, ast.Attribute)
                        and dotted(c.func.value) == al and c.func.attr in MUT]
                tests = [t for t in walk_shallow(fn) if isinstance(t, (ast.If, ast.IfExp, ast.While))
                         and any(isinstance(x, ast.Name) and x.id == al for x in ast.walk(t.test))]
                if not (muts and tests):
                    continue
                n_alias += 1
                locked = all(_lock_of(c, locks, mod) for c in muts) and all(_lock_of(t, locks, mod) for t in tests)
                ctx.ob('C15.R1', f'lock-free-alias:{q}:{qualname_of(fn)}', mod.where(muts[0]),
                       f'an element of the shared table {name} is tested and then mutated under one lock (or the table is reviewed as benign)',
                       locked or _benign(q, tables),
                       f'`{norm(tests[0].test)[:50]}` … `{norm(muts[0])[:50]}` without a lock: two threads pass the test before either acts')
    # the import-hook registry lives in attributes of the claw_state singleton rather than in module-level
    # names: same lock-set condition, decided by the rule shared with C06.R1
    from .c06 import lock_discipline
    lock_discipline(ctx, repo, CallGraph(repo, prefixes=('beartype.claw',)), 'C15.R1')

    # ---- R2 ----------------------------------------------------------------------
    ctx.rule('C15.R2', 'BeartypeConf.__new__ and the CacheUnboundedStrong / CacheLruStrong / KeyPool methods perform '
             'lookup, construction and store inside one `with <lock>` block (no release between check and act)')
    cm = repo.mod('beartype._util.cache.map.utilmapunbounded')
    ccls = cm.defs.get('CacheUnboundedStrong')
    ctx.require(ccls is not None, 'anchor vanished: CacheUnboundedStrong')
    clocks, cstate = _class_state(ccls)
    ctx.require(clocks and cstate, f'CacheUnboundedStrong: lock / table slots not recognised (locks {sorted(clocks)}, state {sorted(cstate)})')
    for meth in ('cache_or_get_cached_value', 'cache_or_get_cached_func_return_passed_arg', 'clear'):
        fn = repo.find_def(cm.name, f'CacheUnboundedStrong.{meth}')
        uses = [x for x in walk_shallow(fn) if isinstance(x, ast.Attribute) and x.attr in cstate and dotted(x.value) == 'self']
        regions = {_enclosing_lock_with(x, fn, clocks) for x in uses}
        ok = bool(uses) and None not in regions and len(regions) == 1
        ctx.ob('C15.R2', f'CacheUnboundedStrong.{meth}:one-critical-section', cm.where(fn),
               'all accesses of the table are inside one `with self.<lock>` block', ok,
               f'{len(regions)} regions; unlocked access: {None in regions}')
    pm = repo.mod('beartype._util.cache.pool.utilcachepool')
    pcls = pm.defs.get('KeyPool')
    ctx.require(pcls is not None, 'anchor vanished: KeyPool')
    plocks, pstate = _class_state(pcls)
    ctx.require(plocks and len(pstate) >= 2, f'KeyPool: lock / pool slots not recognised (locks {sorted(plocks)}, state {sorted(pstate)})')
    for meth in ('acquire', 'release'):
        fn = repo.find_def(pm.name, f'KeyPool.{meth}')
        uses = [x for x in walk_shallow(fn) if isinstance(x, ast.Attribute) and x.attr in pstate and dotted(x.value) == 'self']
        ok = bool(uses) and all(_enclosing_lock_with(x, fn, plocks) is not None for x in uses)
        ctx.ob('C15.R2', f'KeyPool.{meth}:locked', pm.where(fn), 'pool state is only touched under the pool lock', ok,
               f'{[norm(x) for x in uses if _enclosing_lock_with(x, fn, plocks) is None][:3]} outside `with self.<lock>`')
    lm = repo.mod('beartype._util.cache.map.utilmaplru')
    lc = lm.defs.get('CacheLruStrong')
    if lc is not None:
        nl = 0
        for fn in [x for x in lc.body if isinstance(x, ast.FunctionDef) and x.name not in ('__init__',)]:
            # the underlying dict is reached through super() or through parameters defaulted to dict.<method>
            a = fn.args
            dflt = dict(zip([p.arg for p in (a.posonlyargs + a.args)[len(a.posonlyargs + a.args) - len(a.defaults):]], a.defaults))
            raw = {p for p, d in dflt.items() if (dotted(d) or '').startswith('dict.')}
            uses = [x for x in walk_shallow(fn) if isinstance(x, ast.Call) and (
                norm(x.func).startswith('super().') or (isinstance(x.func, ast.Name) and x.func.id in raw)
                or (dotted(x.func) or '').startswith('dict.'))]
            if not uses:
                continue
            nl += 1
            bad = [x for x in uses if _enclosing_with(x, fn) is None]
            one = len({id(_enclosing_with(x, fn)) for x in uses}) == 1
            ctx.ob('C15.R2', f'CacheLruStrong.{fn.name}:locked', lm.where(fn),
                   'the underlying dict is only touched inside one `with self._lock` block', not bad and one,
                   f'`{norm(bad[0])[:60]}` runs without the lock' if bad else 'several critical sections')
        ctx.require(nl >= 3, f'CacheLruStrong: only {nl} methods touching the underlying dict were recognised')
    conf = repo.mod('beartype._conf.confmain')
    new = repo.find_def(conf.name, 'BeartypeConf.__new__')
    # the memo table, by role: the module-level empty dictionary (defined here or imported) that __new__ subscripts
    def _is_memo(nm):
        r = repo.resolve_name(conf, new, nm)
        dm = repo.modules.get(r.module) if getattr(r, 'module', None) else None
        sts = (dm.assigns.get(r.name, []) if dm is not None else []) or conf.assigns.get(nm, [])
        return any(isinstance(getattr(s_, 'value', None), ast.Dict) and not s_.value.keys for s_ in sts)
    memo = sorted({x.value.id for x in ast.walk(new) if isinstance(x, ast.Subscript) and isinstance(x.value, ast.Name) and _is_memo(x.value.id)})
    ctx.require(len(memo) == 1, f'BeartypeConf.__new__: expected one memo dictionary, found {memo}')
    acc = [x for x in walk_shallow(new) if isinstance(x, ast.Name) and x.id == memo[0]]
    withs = {id(_enclosing_with(x, new)) if _enclosing_with(x, new) is not None else None for x in acc}
    ctx.ob('C15.R2', 'BeartypeConf.__new__:one-critical-section', conf.where(new),
           'lookup and store of the configuration singleton share one critical section',
           len(withs) == 1 and None not in withs and len(acc) >= 2, f'{len(withs)} regions for {len(acc)} accesses')

    # ---- R3 ----------------------------------------------------------------------
    pooled_typestate(ctx, 'C15.R3')

    # ---- R4 ----------------------------------------------------------------------
    ctx.rule('C15.R4', 'lock order: an edge A → B is recorded when code inside `with A` (lexically, or a callee '
             'reached from it) acquires B; the resulting order graph must be acyclic')
    cg = CallGraph(repo)
    fn_locks = {}     # qual -> set of lock names acquired lexically
    for q, (m, fn) in cg.funcs.items():
        ls = set()
        for w in walk_shallow(fn):
            if isinstance(w, (ast.With, ast.AsyncWith)):
                for it in w.items:
                    nm = _lock_name(it.context_expr, m, repo, locks)
                    if nm:
                        ls.add(nm)
        if ls:
            fn_locks[q] = ls
    trans = {}

    def acquires(q, depth=0, seen=None):
        seen = seen if seen is not None else set()
        if q in trans:
            return trans[q]
        if q in seen or depth > 6:
            return set()
        seen.add(q)
        out = set(fn_locks.get(q, ()))
        for _, callee in cg.calls.get(q, ()):
            if callee:
                out |= acquires(callee, depth + 1, seen)
        trans[q] = out
        return out
    edges = set()
    for q, (m, fn) in cg.funcs.items():
        for w in walk_shallow(fn):
            if isinstance(w, (ast.With, ast.AsyncWith)):
                outer = [_lock_name(it.context_expr, m, repo, locks) for it in w.items]
                outer = [o for o in outer if o]
                if not outer:
                    continue
                for x in ast.walk(w):
                    if x is w:
                        continue
                    if isinstance(x, (ast.With, ast.AsyncWith)):
                        for it in x.items:
                            inner = _lock_name(it.context_expr, m, repo, locks)
                            if inner:
                                edges.update((o, inner) for o in outer if o != inner)
                    if isinstance(x, ast.Call):
                        callee = cg.resolve(m, fn, x)
                        if callee:
                            for inner in acquires(callee):
                                edges.update((o, inner) for o in outer if o != inner)
    cyc = _cycle(edges)
    ctx.ob('C15.R4', 'lock-order:acyclic', 'beartype:0',
           f'the lock order graph ({len(edges)} edges: {sorted(edges)}) has no cycle', cyc is None, f'cycle: {cyc}')
    ctx.floor('C15.R4', len(fn_locks), 8, 'functions acquiring a lock')

    # ---- R6 ----------------------------------------------------------------------
    _publish_once(ctx)

    # ---- R7 ----------------------------------------------------------------------
    _class_mark_last(ctx)

    # ---- R5 ----------------------------------------------------------------------
    global_patches(ctx, 'C15.R5')


def _is_store(x):
    p = parent(x)
    if isinstance(p, ast.Subscript) and isinstance(p.ctx, (ast.Store, ast.Del)):
        return True
    if isinstance(p, ast.Attribute) and isinstance(parent(p), ast.Call) and p.attr in (
            'add', 'append', 'update', 'setdefault', 'pop', 'clear', 'insert', 'remove', 'popitem'):
        return True
    return False


_LOCK_NAMES = set()     # names of the module-level locks of the repository (filled by run())


def _enclosing_with(node, fn):
    p = parent(node)
    while p is not None and p is not fn:
        if isinstance(p, (ast.With, ast.AsyncWith)) and any(
                'lock' in norm(i.context_expr).lower() or (dotted(i.context_expr) or '').split('.')[-1] in _LOCK_NAMES for i in p.items):
            return p
        p = parent(p)
    return None


def _lock_of(node, locks, mod):
    fn = enclosing_function(node)
    w = _enclosing_with(node, fn)
    if w is None:
        return None
    return norm(w.items[0].context_expr)


def _lock_name(expr, m, repo, locks):
    d = dotted(expr)
    if d is None:
        return None
    if d.startswith('self.') and 'lock' in d.lower():
        # instance locks are identified by class attribute
        fn = enclosing_function(expr)
        from sa.repo import enclosing_def_chain
        cls = [c for c in enclosing_def_chain(expr) if isinstance(c, ast.ClassDef)]
        return f'{m.name}.{cls[-1].name}.{d[5:]}' if cls else None
    r = repo.resolve_expr(m, expr)
    q = f'{r.module}.{r.name}' if r.kind == 'var' else None
    return q if q in locks else None


def _cycle(edges):
    graph = {}
    for a, b in edges:
        graph.setdefault(a, set()).add(b)
    color = {}

    def dfs(u, path):
        color[u] = 1
        for v in graph.get(u, ()):
            if color.get(v) == 1:
                return path + [u, v]
            if color.get(v) is None:
                r = dfs(v, path + [u])
                if r:
                    return r
        color[u] = 2
        return None
    for u in list(graph):
        if color.get(u) is None:
            r = dfs(u, [])
            if r:
                return r
    return None


def _restores(repo, m, fn, a, t):
    """The assignment puts back what the foreign module defines itself: the value is the library's own object of the
    same name (reached through an import alias), or a local saved earlier from reading the very attribute patched."""
    v = a.value
    if isinstance(v, ast.Name):
        r = repo.resolve_name(m, a, v.id)
        if r.kind == 'external' and r.name.split('.')[-1] == t.attr:
            return True
        for b in walk_shallow(fn):
            if isinstance(b, ast.Assign) and any(dotted(x) == v.id for x in b.targets) and norm(b.value) == norm(t) \
                    and b.lineno < a.lineno:
                return True
    return False


def _owners(m, fn, depth=0):
    """Qualified names a patch site is attributed to: a private module-level helper (e.g. an extracted context manager)
    counts as part of the functions that use it."""
    qn = qualname_of(fn)
    if depth >= 3 or not (fn.name.startswith('_') and not fn.name.startswith('__') and qn == fn.name):
        return [qn]
    out = []
    for other in ast.walk(m.tree):
        if isinstance(other, (ast.FunctionDef, ast.AsyncFunctionDef)) and other is not fn and any(
                isinstance(x, ast.Name) and x.id == fn.name for x in ast.walk(other)):
            out += _owners(m, other, depth + 1)
    return sorted(set(out)) or [qn]


def global_patches(ctx, rule):
    ctx.rule(rule, 'an assignment to an attribute of an imported foreign module (a process-global monkey-patch) made '
             'from a function must be serialised with every reader of that global; readers inside the foreign module '
             'take no beartype lock, so such a patch in code reachable from concurrent entry points (the import '
             'machinery) cannot be made safe by locking alone')
    repo = ctx.repo
    n = 0
    for mn, m in sorted(repo.modules.items()):
        ext_mods = {local for local, (sm, sn) in m.imports.items() if not sm.startswith('beartype')}
        for fn in [x for x in ast.walk(m.tree) if isinstance(x, (ast.FunctionDef, ast.AsyncFunctionDef))]:
            fb = repo.scope_bindings(m, fn)
            ext = ext_mods | {l for l, (sm, sn) in fb.items() if not sm.startswith('beartype')}
            for a in walk_shallow(fn):
                if isinstance(a, ast.Assign):
                    for t in a.targets:
                        if isinstance(t, ast.Attribute) and isinstance(t.value, ast.Name) and t.value.id in ext \
                                and repo.resolve_name(m, t, t.value.id).kind in ('module', 'external'):
                            n += 1
                            if _restores(repo, m, fn, a, t):
                                continue
                            for owner in _owners(m, fn):
                                ctx.ob(rule, f'global-patch:{mn.split(".")[-1]}.{owner}:{norm(t)}', m.where(a),
                                       'no process-global of a foreign module is patched from concurrently callable code',
                                       False, f'`{norm(a)[:90]}` replaces a global that other threads\' imports read without '
                                       f'any lock')
    ctx.floor(rule, n, 1, 'assignments to attributes of foreign modules')


def _publish_once(ctx):
    """R6: a lazily computed attribute of a shared object is published by one plain assignment of the finished value."""
    repo = ctx.repo
    ctx.rule('C15.R6', 'a lazily computed attribute of an object shared between threads (configurations are singletons) is published '
             'once: wherever a method computes self.X under `if self.X is None:`, the guarded block stores self.X exactly once, by '
             'a plain assignment (no augmented assignment, no second store) — a value assembled in place in the shared attribute '
             'is visible half-built to a thread that passes the guard meanwhile')
    n = 0
    for mn, m in sorted(repo.modules.items()):
        for fn in [x for x in ast.walk(m.tree) if isinstance(x, (ast.FunctionDef, ast.AsyncFunctionDef))]:
            for st in ast.walk(fn):
                if not (isinstance(st, ast.If) and isinstance(st.test, ast.Compare) and len(st.test.ops) == 1
                        and isinstance(st.test.ops[0], ast.Is) and isinstance(st.test.left, ast.Attribute)
                        and dotted(st.test.left.value) in ('self', 'cls') and isinstance(st.test.comparators[0], ast.Constant)
                        and st.test.comparators[0].value is None):
                    continue
                attr = st.test.left.attr
                stores = [x for b in st.body for x in ast.walk(b) if isinstance(x, (ast.Assign, ast.AugAssign, ast.AnnAssign)) and any(
                    isinstance(t, ast.Attribute) and t.attr == attr and dotted(t.value) in ('self', 'cls')
                    for t in (x.targets if isinstance(x, ast.Assign) else [x.target]))]
                if not stores:
                    continue
                n += 1
                ok = len(stores) == 1 and isinstance(stores[0], (ast.Assign, ast.AnnAssign))
                ctx.ob('C15.R6', f'publish-once:{mn.rsplit(".", 1)[-1]}.{qualname_of(fn)}:{attr}', m.where(stores[0]),
                       'the lazily computed attribute is stored once, complete', ok,
                       f'{len(stores)} stores into self.{attr} under the guard ({", ".join(type(x).__name__ for x in stores)})')
    ctx.floor('C15.R6', n, 1, 'lazily computed shared attributes')


def _class_mark_last(ctx):
    """R7: publication order of the "class already decorated" mark (the obligation is decided by C13's interpretation of
    beartype_type; a thread that sees the mark returns the class as it is)."""
    from sa import report
    from . import c13
    ctx.rule('C15.R7', 'a class is marked "already decorated" only after all its members were decorated and replaced: two threads '
             'decorating one class must not let the second return a class whose methods are still unchecked (the obligation '
             '"marks-the-class-last" of the interpreted beartype_type, imported from C13.R5)')
    sub = report.Ctx('C13', ctx.repo, tier=ctx.tier, seed=ctx.seed)
    c13._class_route(sub)
    n = 0
    for o in sub.obs:
        if ':marks-the-class-last:' in o.key:
            n += 1
            ctx.ob('C15.R7', o.key, o.where, o.desc, o.ok, o.detail)
    ctx.floor('C15.R7', n, 3, 'class decorations interpreted')
