"""Facts about the code generator shared by the rule modules C01, C02, C09, C10, C12.

* ``sweep(ctx)``          summaries of all enumerated abstract hint shapes (sa.genrun; cached);
* ``hygiene(ctx)``        for every catalogue validator and every syntactic category of pith
                          expression that the generator was observed to hand to a validator:
                          does the validator's code, formatted with such an expression, still
                          denote the validator applied to that object?
* ``tainted(summary, bad)``  whether a shape embeds a validator in a category for which the
                          hygiene table reports a failure (such shapes are accounted for by the
                          hygiene obligation and are excluded from the sweep obligations).
"""
from __future__ import annotations

import collections

from sa.gen import Generator
from sa.gencheck import GenCheck
from sa.genrun import sweep as _sweep
from sa.repo import AnalysisError
from sa.spec import Spec, first_difference, match, objkey, vcode, vlocals
from sa.terms import TermError, Terms, show
from sa.vale import Vale, pith_category

_CACHE = {}

PROBES = {
    # category -> [(obj string, bindings needed, path term)]
    'IDENT': [('__beartype_pith_7', {'__beartype_pith_7': ('root',)}, ('root',))],
    'ATOM': [
        ('__beartype_pith_0[__beartype_random_int % len(__beartype_pith_0)]', {},
         ('sub', ('root',), ('binop', '%', ('name', '__beartype_random_int'), ('call', 'len', ('root',))))),
        ('next(iter(__beartype_pith_0))', {}, ('call', 'next', ('call', 'iter', ('root',)))),
    ],
    'WALRUS': [
        ('__beartype_pith_1 := __beartype_pith_0[0]', {}, ('sub', ('root',), ('const', 0))),
    ],
}
WALRUS_VAR = '__beartype_pith_1'   # variable bound by the WALRUS probe: must end up bound to the item


def engines(ctx):
    key = ('engines', id(ctx.repo))
    if key not in _CACHE:
        G = Generator(ctx.repo)
        # issue_warning() is defined under a Python-version test the interpreter cannot decide; every interpreted
        # caller treats it as "emits a warning" (rules that care about the warning patch their own recorder in)
        from sa.fold import Unknown, _PyCallable
        try:
            ctx.repo.mod('beartype._util.error.utilerrwarn')
            env_w = G.f.module_env('beartype._util.error.utilerrwarn')
            if isinstance(env_w.get('issue_warning'), Unknown):
                env_w['issue_warning'] = _PyCallable(lambda *a, **k: None)
        except Exception:
            pass
        V = Vale(G)
        cat = V.catalogue()
        _CACHE[key] = (G, V, cat, GenCheck(G))
    return _CACHE[key]


def sweep(ctx) -> list[dict]:
    key = ('sweep', id(ctx.repo), ctx.tier, ctx.seed)
    if key not in _CACHE:
        out = _sweep(ctx.repo, ctx.tier, ctx.seed)
        errs = [d for d in out if d['status'] == 'analysis-error']
        if errs:
            raise AnalysisError(f'abstract interpretation of the generator failed for {len(errs)} shapes, e.g. '
                                f'{errs[0]["shape"]}: {errs[0].get("error")}')
        _CACHE[key] = out
    return _CACHE[key]


def observed_categories(sw) -> dict:
    """leaf factory -> set of pith categories the generator handed to it."""
    out = collections.defaultdict(set)
    for d in sw:
        for lab, leaves, cat, obj in d.get('valtrace', []):
            for f in leaves:
                out[f].add(cat)
    return out


def hygiene(ctx) -> dict:
    """(validator label, direct leaves, category) -> (ok, detail, kind) where kind is
    'syntax' (does not parse / identifier fusion) or 'meaning' (parses but denotes
    something else)."""
    key = ('hygiene', id(ctx.repo))
    if key in _CACHE:
        return _CACHE[key]
    G, V, cat, GC = engines(ctx)
    table = {}
    for name, v in cat.items():
        leaves = tuple(v.attrs['leaves'])
        code = vcode(v)
        loc = vlocals(v)
        for category, probes in PROBES.items():
            ok, detail, kind = True, '', ''
            for obj, binds, path in probes:
                text = str.format(str(code), obj=obj, indent='')
                T = Terms(scope_key=lambda n, loc=loc: (objkey(loc[n]) if n in loc else None), extra_bound=binds)
                want = Spec(G, None, GC.random_var).validator(v, path)
                try:
                    got = T.of(text)
                except TermError as ex:
                    ok, detail, kind = False, f'{name} formatted with obj={obj!r}: {ex}', 'syntax'
                    break
                if T.problems:
                    ok, detail, kind = False, f'{name} formatted with obj={obj!r}: {T.problems[0]}', 'syntax'
                    break
                if not match(want, got):
                    ok, kind = False, 'meaning'
                    detail = (f'{name} formatted with obj={obj!r} no longer tests the object: '
                              f'{first_difference(want, got)}')
                    break
                if category == 'WALRUS' and (T.final_env or {}).get(WALRUS_VAR) != path:
                    ok, kind = False, 'meaning'
                    detail = (f'{name} formatted with obj={obj!r}: the assignment expression is re-associated by '
                              f'operator precedence, the pith variable is bound to '
                              f'{show((T.final_env or {}).get(WALRUS_VAR))[:120]} instead of the object')
                    break
            table[(name, leaves, category)] = (ok, detail, kind)
    _CACHE[key] = table
    return table


def leaf_hygiene(ctx, sw):
    """Factory-level view: (factory, category) -> (ok, detail, kind), restricted to
    categories the generator actually hands to that factory.  A catalogue entry whose
    direct factories are all individually hygienic but which fails as a whole is reported
    under its own label (a composition failure)."""
    table = hygiene(ctx)
    obs = observed_categories(sw)
    out = {}
    # single-factory entries first
    for (name, leaves, category), (ok, detail, kind) in table.items():
        if len(leaves) == 1 and category in obs.get(leaves[0], ()):
            f = leaves[0]
            cur = out.get((f, category))
            if cur is None or (cur[0] and not ok):
                out[(f, category)] = (ok, detail, kind)
    for (name, leaves, category), (ok, detail, kind) in table.items():
        if len(leaves) > 1 and all(category in obs.get(f, ()) for f in leaves):
            explained = any(not out.get((f, category), (True,))[0] for f in leaves)
            if not explained:
                out[(name, category)] = (ok, detail, kind)
    return out


def bad_pairs(ctx, sw) -> set:
    return {k for k, (ok, _, _) in leaf_hygiene(ctx, sw).items() if not ok}


def tainted(d: dict, bad: set) -> bool:
    for lab, leaves, cat, obj in d.get('valtrace', []):
        for f in leaves:
            if (f, cat) in bad:
                return True
    return False


def shape_failure(d: dict, side: str) -> str | None:
    """Why a shape summary fails on the accept / detect side (None = passes)."""
    st = d['status']
    if st == 'raised':
        return f'the generator raises {d["raised"]} at {d["raised_where"]}'
    if st == 'parse':
        return d['parse_error']
    if st in ('specerr', 'nocode'):
        return f'no reference semantics: {d.get("spec_error")}'
    if d['placeholder_left']:
        return 'a child placeholder was never substituted'
    if d['problems']:
        return d['problems'][0]
    if d['unresolved']:
        return f'name {d["unresolved"][0]} is used but not placed in the wrapper scope'
    if side == 'accept':
        if d['safety']:
            return d['safety'][0]
        if not d['accept_ok']:
            return d['accept_detail']
    else:
        if not d['detect_ok']:
            return d['detect_detail']
    return None


# ---------------------------------------------------------------------------
# Exhaustive dispatch over the universe of hint signs (serves C03.R1, C10.R2, C09)
# ---------------------------------------------------------------------------
EXPECTED_FINDER = {
    # production family (reference semantics) -> explanation-path finder that re-implements it
    'shallow': 'find_cause_type_instance_origin',
    'nonpep': 'find_cause_nonpep',
    'union': 'find_cause_pep484604_union',
    'sequence': 'find_cause_pep484585_container_args_1',
    'reiterable': 'find_cause_pep484585_container_args_1',
    'deque': 'find_cause_pep484585_container_args_1',
    'quasi': 'find_cause_pep484585_container_args_1',
    'mapping': 'find_cause_pep484585_mapping',
    'tuple_fixed': 'find_cause_pep484585_tuple_fixed',
    'annotated': 'find_cause_pep593_annotated',
    'type': 'find_cause_pep484585_subclass',
    'generic': 'find_cause_pep484585_generic_unsubbed',
    'literal': 'find_cause_pep586_literal',
}
SPECIAL_FAMILY = {'Union': 'union', 'Optional': 'union', 'Pep484585TupleFixed': 'tuple_fixed',
                  'Annotated': 'annotated', 'Type': 'type', 'Pep484585GenericUnsubscripted': 'generic',
                  'Literal': 'literal'}


def _hint_for(G, cat, name: str, sname: str, subscripted: bool):
    from sa.spec import FAMILY
    C = G.cls
    if not subscripted:
        if sname == 'Pep484585GenericUnsubscripted':
            return None
        return G.shallow(name)
    fam = SPECIAL_FAMILY.get(sname) or FAMILY.get(sname)
    if fam == 'union':
        h = G.union(C('A'), G.subscripted('HintSignList', C('B')))
        h.sign = G.sign(name)
        h.label = sname
        return h
    if fam == 'tuple_fixed':
        return G.tuple_fixed(C('A'), C('B'))
    if fam == 'annotated':
        return G.annotated(C('M'), cat['IsInstance'])
    if fam == 'type':
        return G.type_of(C('S'))
    if fam == 'generic':
        return G.generic(G.subscripted('HintSignSequence', C('I')))
    if fam == 'literal':
        return G.literal('a', 'b')
    if fam == 'mapping':
        return G.subscripted(name, C('K')) if sname == 'Counter' else G.subscripted(name, C('K'), C('V'))
    if sname == 'Tuple':
        return G.subscripted(name, C('I'), C('...'))
    return G.subscripted(name, C('I'))


def cause_finder_table(ctx, F) -> dict:
    """The sign → cause-finder table of the explanation path, found by role (whatever it is called): the one
    module-level dictionary of beartype._check.error._errmap that folds to ≥ 20 entries with functions as values."""
    from sa.fold import FuncVal
    ctx.repo.mod('beartype._check.error._errmap')
    env = F.module_env('beartype._check.error._errmap')
    cands = {n: v for n, v in env.items() if isinstance(v, dict) and len(v) >= 20
             and all(isinstance(x, FuncVal) for x in v.values())}
    if len(cands) != 1:
        raise AnalysisError(f'anchor vanished: the sign → cause-finder table of beartype._check.error._errmap '
                            f'(candidates: {sorted(cands)})')
    return next(iter(cands.values()))


def dispatch(ctx) -> list[dict]:
    """For every sign × {unsubscripted, subscripted}: what the generator does and which
    cause finder the explanation path selects."""
    key = ('dispatch', id(ctx.repo))
    if key in _CACHE:
        return _CACHE[key]
    from sa.fold import FuncVal, _ObjVal, _call_function, _Abort, _Raise, AObj
    from sa.gen import AConf, ASane, sign_name
    from sa.spec import FAMILY
    G, V, cat, GC = engines(ctx)
    F = G.f
    # the explanation side
    errmap = cause_finder_table(ctx, F)
    HTE = F.const('beartype._check.cls.hint.tree.hinttreeerror', 'HintTreeError')
    find_cause = HTE.find('find_cause')
    if not isinstance(find_cause, FuncVal):
        raise AnalysisError('anchor vanished: HintTreeError.find_cause')
    finders = {v.qual: v for v in errmap.values() if isinstance(v, FuncVal)}
    tio = F.value('beartype._check.error._nonpep.errnonpeptype', 'find_cause_type_instance_origin')
    if isinstance(tio, FuncVal):
        finders[tio.qual] = tio
    saved = dict(F.stubs)
    for q, fv in finders.items():
        F.stubs[q] = (lambda fv: (lambda env, a, k: ('finder', fv.qualname)))(fv)

    class _HC(AObj):
        def __init__(self, sane, sign):
            self.hint_sane, self.hint_sign = sane, sign

    out = []
    try:
        signs = sorted(G.signs.items())
        seen = set()
        for name, sv in signs:
            sname = sign_name(sv)
            if sname in seen:       # aliases (HintSignTuple = HintSignPep484585TupleVariadic)
                continue
            seen.add(sname)
            for sub in (False, True):
                h = _hint_for(G, cat, name, sname, sub)
                if h is None:
                    continue
                row = {'sign': sname, 'subscripted': sub, 'shape': h.shape()}
                r = GC.analyse(h, AConf(is_random=True))
                if r.raised is not None:
                    row['code'] = 'raise'
                    row['raised'] = getattr(r.raised, 'name', str(r.raised))
                elif r.code is None:
                    row['code'] = 'none'
                else:
                    fam = SPECIAL_FAMILY.get(sname) or FAMILY.get(sname)
                    shallow = isinstance(r.term, tuple) and r.term[:2] == ('call', 'isinstance') \
                        and r.term[2] == ('root',)
                    row['code'] = 'shallow' if shallow else (fam if (sub and fam) else 'unknown-deep')
                    row['matches_reference'] = bool(r.accept_ok and r.detect_ok) if r.spec_error is None else None
                    row['touches_items'] = any(
                        (op == 'subscript' or (isinstance(op, tuple) and op[1] in ('next', 'iter', 'len')))
                        for op, _ in r.ops)
                    row['term'] = show(r.term)[:300]
                # explanation side
                obj = _ObjVal(HTE)
                obj.attrs['hint_curr'] = _HC(ASane(h), sv)
                obj.attrs['exception_prefix'] = ''
                try:
                    fr = _call_function(F, find_cause, [obj], {}, 1)
                    row['finder'] = fr[1] if isinstance(fr, tuple) and fr[:1] == ('finder',) else repr(fr)
                except _Raise as ex:
                    row['finder'] = 'raise'
                    row['finder_raised'] = getattr(ex.what, 'name', str(ex.what))
                except _Abort as ex:
                    raise AnalysisError(f'cannot interpret HintTreeError.find_cause for sign {sname}: {ex}')
                out.append(row)
        # non-PEP class
        h = G.cls('C')
        r = GC.analyse(h, AConf())
        obj = _ObjVal(HTE)
        obj.attrs['hint_curr'] = _HC(ASane(h), None)
        obj.attrs['exception_prefix'] = ''
        fr = _call_function(F, find_cause, [obj], {}, 1)
        out.append({'sign': None, 'subscripted': False, 'shape': 'C', 'code': 'nonpep' if r.code else 'raise',
                    'finder': fr[1] if isinstance(fr, tuple) else repr(fr), 'term': show(r.term)[:200] if r.term else ''})
    finally:
        F.stubs.clear()
        F.stubs.update(saved)
    _CACHE[key] = out
    return out
