"""C13 — class decoration.

R1  identity: ``beartype_type`` returns the class it was given on every path; the non-fatal
    route returns the object on failure;
R2  own members only: the loop iterates ``cls.__dict__``; nested classes are admitted only
    when their qualified name extends the parent's;
R3  no-op identities of ``beartype_func`` (unbeartypeable callables, empty wrapper code,
    the ``-O`` decorator);
R4  descriptor kind preserved (classmethod / staticmethod / property rebuilt as what they were);
R5  wrapper metadata and idempotence (``func_wrapped`` reaches ``update_wrapper``; writer and
    reader of the "already beartyped" marker agree).
"""
from __future__ import annotations

import ast

from sa.astutil import const_str, dotted, params_of
from sa.flow import walk_shallow
from sa.repo import norm

TYPE = 'beartype._decor._type.decortype'
NONTYPE = 'beartype._decor._nontype.decornontype'
CORE = 'beartype._decor.decorcore'
DESC = 'beartype._decor._nontype._builtin.decorbuiltindescriptor'
BEARFUNC = 'beartype._util.bear.utilbearfunc'


def run(ctx):
    repo = ctx.repo
    tm = repo.mod(TYPE)
    bt = tm.defs.get('beartype_type')
    ctx.require(bt is not None, 'anchor vanished: beartype_type')

    # ---- R1 ----------------------------------------------------------------------
    ctx.rule('C13.R1', 'every return of beartype_type returns its (never re-assigned) parameter cls; '
             '_beartype_object_nonfatal returns obj after a failed decoration')
    p = params_of(bt)[0]
    reassigned = [a for a in walk_shallow(bt) if isinstance(a, (ast.Assign, ast.AugAssign, ast.AnnAssign))
                  and any(dotted(t) == p for t in (a.targets if isinstance(a, ast.Assign) else [a.target]))]
    rets = [r for r in walk_shallow(bt) if isinstance(r, ast.Return)]
    for r in rets:
        ctx.ob('C13.R1', f'beartype_type:{norm(r)}', tm.where(r), 'returns the class object that was passed in',
               dotted(r.value) == p and not reassigned, f'returns {norm(r.value) if r.value else None}; '
               f'{p} re-assigned: {bool(reassigned)}')
    ctx.floor('C13.R1', len(rets), 2, 'returns of beartype_type')
    cm = repo.mod(CORE)
    nf = cm.defs.get('_beartype_object_nonfatal')
    ctx.require(nf is not None, 'anchor vanished: _beartype_object_nonfatal')
    last = nf.body[-1]
    ctx.ob('C13.R1', '_beartype_object_nonfatal:returns-obj-on-failure', cm.where(last),
           'after the handler the undecorated object is returned', isinstance(last, ast.Return) and dotted(last.value) == 'obj',
           norm(last)[:80])
    tries = [t for t in walk_shallow(nf) if isinstance(t, ast.Try)]
    ok = len(tries) == 1 and any(dotted(h.type) == 'Exception' for h in tries[0].handlers) \
        and not any(isinstance(x, ast.Raise) for h in tries[0].handlers for x in ast.walk(h))
    ctx.ob('C13.R1', '_beartype_object_nonfatal:handler-warns-not-raises', cm.where(nf),
           'the handler issues a warning and does not re-raise', ok and any(
               isinstance(c, ast.Call) and dotted(c.func) == 'issue_warning' for c in ast.walk(tries[0])) if tries else False, '')

    # ---- R2 ----------------------------------------------------------------------
    ctx.rule('C13.R2', 'the member loop iterates cls.__dict__ (own attributes, not dir() / the MRO); a nested class is '
             'decorated only if its __qualname__ starts with the parent\'s; members are replaced on the class itself')
    loops = [x for x in walk_shallow(bt) if isinstance(x, ast.For)]
    ctx.require(len(loops) >= 1, 'beartype_type: no member loop')
    lp = loops[0]
    it = norm(lp.iter)
    ctx.ob('C13.R2', 'beartype_type:iterates-own-dict', tm.where(lp), 'members come from cls.__dict__',
           it in (f'{p}.__dict__.items()', f'vars({p}).items()', f'tuple({p}.__dict__.items())', f'list({p}.__dict__.items())'), it)
    conds = [norm(i.test) for i in lp.body if isinstance(i, ast.If)]
    ok = any('__qualname__.startswith(' in c and f'{p}.__qualname__' in c and 'isinstance(' in c for c in conds)
    ctx.ob('C13.R2', 'beartype_type:nested-class-qualname-guard', tm.where(lp),
           'a class-valued attribute is decorated only when it is lexically nested in this class', ok, f'{conds}')
    sets = [c for c in ast.walk(lp) if isinstance(c, ast.Call) and dotted(c.func) in ('set_type_attr', 'setattr')]
    ok = bool(sets) and all(dotted(c.args[0]) == p for c in sets if c.args)
    ctx.ob('C13.R2', 'beartype_type:replaces-on-same-class', tm.where(lp), 'decorated members are set on cls itself', ok, '')

    # ---- R3 ----------------------------------------------------------------------
    ctx.rule('C13.R3', 'beartype_func returns the callable it was given when it is unbeartypeable (optimised '
             'interpreter, unannotated, @no_type_check, already wrapped, blacklisted, …) or when no wrapper code is '
             'generated; the O0 strategy marks no_type_check first; under -O the public decorator returns its argument')
    nm = repo.mod(NONTYPE)
    bf = nm.defs.get('beartype_func')
    ctx.require(bf is not None, 'anchor vanished: beartype_func')
    fp = params_of(bf)[0]
    ident = []
    for i in walk_shallow(bf):
        if isinstance(i, ast.If) and i.body and isinstance(i.body[-1], ast.Return):
            ident.append((norm(i.test), dotted(i.body[-1].value)))
    want = {'is_func_unbeartypeable(func_wrapper)': 'unbeartypeable callable', 'not func_wrapper_code': 'empty wrapper code'}
    for test, why in want.items():
        hit = [r for t, r in ident if t == test]
        ctx.ob('C13.R3', f'beartype_func:no-op:{test}', nm.where(bf), f'{why} ⇒ the callable itself is returned',
               hit == [fp], f'returns {hit}')
    o0 = [i for i in walk_shallow(bf) if isinstance(i, ast.If) and 'BeartypeStrategy.O0' in norm(i.test)]
    unb = [i for i in walk_shallow(bf) if isinstance(i, ast.If) and norm(i.test) == 'is_func_unbeartypeable(func_wrapper)']
    ok = bool(o0) and bool(unb) and o0[0].lineno < unb[0].lineno and any(
        isinstance(c, ast.Call) and dotted(c.func) == 'no_type_check' for c in ast.walk(o0[0]))
    ctx.ob('C13.R3', 'beartype_func:O0-marks-no_type_check-first', nm.where(bf),
           'under O0 the callable is marked @no_type_check before the unbeartypeable test', ok, '')
    um = repo.mod(BEARFUNC)
    uf = um.defs.get('is_func_unbeartypeable')
    ctx.require(uf is not None, 'anchor vanished: is_func_unbeartypeable')
    calls = {dotted(c.func) for c in walk_shallow(uf) if isinstance(c, ast.Call)}
    need = {'is_python_optimized', 'get_hintable_pep649749_annotations_or_none', 'is_func_pep484_notypechecked', 'is_func_beartyped'}
    ctx.ob('C13.R3', 'is_func_unbeartypeable:conditions', um.where(uf),
           'the no-op conditions include -O, unannotated, @no_type_check and already-wrapped', need <= calls,
           f'missing: {sorted(need - calls)}')
    dm = repo.mod('beartype._decor.decorcache')
    # the -O decorator
    main = repo.mod('beartype._decor.decormain') if 'beartype._decor.decormain' in repo.modules else None
    found = False
    for mod in [x for x in (main, dm) if x is not None]:
        for fn in [x for x in ast.walk(mod.tree) if isinstance(x, ast.FunctionDef) and x.name == 'beartype']:
            for i in ast.walk(mod.tree):
                if isinstance(i, ast.If) and 'is_python_optimized()' in norm(i.test):
                    inner = [f for f in ast.walk(i) if isinstance(f, ast.FunctionDef) and f.name == 'beartype']
                    for f in inner:
                        rets = [r for r in walk_shallow(f) if isinstance(r, ast.Return)]
                        found = found or any(dotted(r.value) == 'obj' for r in rets)
    ctx.ob('C13.R3', 'beartype:-O-identity', (main or dm).where((main or dm).tree.body[0]),
           'under python -O the module-level decorator returns the decorated object unchanged', found,
           'no `if is_python_optimized(): def beartype(obj …): return obj` definition found')

    # ---- R4 ----------------------------------------------------------------------
    ctx.rule('C13.R4', 'builtin descriptors keep their kind: the dispatch table maps classmethod / staticmethod / '
             'property to their decorators; the class/static decorator rebuilds with descriptor.__class__; the '
             'property decorator rebuilds property(fget, fset, fdel, doc) carrying all four parts')
    mp = repo.mod('beartype._decor._nontype._decornontypemap')
    txt = mp.src
    dd = repo.mod(DESC)
    table = {}
    for n in ast.walk(mp.tree):
        if isinstance(n, ast.Dict):
            for k, v in zip(n.keys, n.values):
                if const_str(k) in ('classmethod', 'staticmethod', 'property'):
                    table[const_str(k)] = dotted(v)
    want = {'classmethod': 'beartype_descriptor_decorator_builtin_class_or_static_method',
            'staticmethod': 'beartype_descriptor_decorator_builtin_class_or_static_method',
            'property': 'beartype_descriptor_decorator_builtin_property'}
    for k, v in want.items():
        ctx.ob('C13.R4', f'descriptor-dispatch:{k}', mp.where(mp.tree.body[0]), f'{k} objects are handled by {v}',
               table.get(k) == v, f'mapped to {table.get(k)}')
    cs = dd.defs.get('beartype_descriptor_decorator_builtin_class_or_static_method')
    ctx.require(cs is not None, 'anchor vanished: class_or_static_method decorator')
    rets = [r for r in walk_shallow(cs) if isinstance(r, ast.Return)]
    ok = len(rets) == 1 and isinstance(rets[0].value, ast.Call) and norm(rets[0].value.func) == 'descriptor.__class__' \
        and len(rets[0].value.args) == 1
    ctx.ob('C13.R4', 'class_or_static:rebuilt-with-own-class', dd.where(cs),
           'the descriptor is rebuilt with its own class around the checked wrappee', ok, norm(rets[0])[:100] if rets else '')
    pr = dd.defs.get('beartype_descriptor_decorator_builtin_property')
    ctx.require(pr is not None, 'anchor vanished: property decorator')
    rets = [r for r in walk_shallow(pr) if isinstance(r, ast.Return)]
    ok = False
    detail = ''
    if len(rets) == 1 and isinstance(rets[0].value, ast.Call) and dotted(rets[0].value.func) == 'property':
        kw = {k.arg: norm(k.value) for k in rets[0].value.keywords}
        pos = [norm(a) for a in rets[0].value.args]
        parts = dict(zip(('fget', 'fset', 'fdel', 'doc'), pos))
        parts.update(kw)
        ok = set(parts) >= {'fget', 'fset', 'fdel', 'doc'} and parts['doc'] == 'descriptor.__doc__'
        detail = str(parts)
    ctx.ob('C13.R4', 'property:rebuilt-with-all-four-parts', dd.where(pr),
           'getter, setter, deleter and docstring are carried over', ok, detail)
    src = {}
    for a in walk_shallow(pr):
        if isinstance(a, ast.Assign) and isinstance(a.targets[0], ast.Name) and isinstance(a.value, ast.Attribute) \
                and dotted(a.value.value) == 'descriptor':
            src[a.targets[0].id] = a.value.attr
    ctx.ob('C13.R4', 'property:parts-from-same-slots', dd.where(pr),
           'each part is read from the matching attribute of the original property',
           {v for v in src.values()} >= {'fget', 'fset', 'fdel'} and all(
               k.endswith(v[1:]) or v[1:] in k for k, v in src.items()), str(src))

    # ---- R5 ----------------------------------------------------------------------
    ctx.rule('C13.R5', 'beartype_func passes func_wrapped= to make_func, which reaches functools.update_wrapper; the '
             'attribute written by set_func_beartyped is the one is_func_beartyped tests, and that test is one of '
             'the no-op conditions')
    mk = [c for c in walk_shallow(bf) if isinstance(c, ast.Call) and dotted(c.func) == 'make_func']
    ok = len(mk) == 1 and any(k.arg == 'func_wrapped' for k in mk[0].keywords)
    ctx.ob('C13.R5', 'beartype_func:func_wrapped-passed', nm.where(bf), 'the wrapper is built with func_wrapped=', ok, '')
    # ... and what it exposes as __wrapped__ is the callable that was decorated (the class-dictionary entry
    # itself), not something unwrapped from it
    val = next((norm(k.value) for c in mk for k in c.keywords if k.arg == 'func_wrapped'), None)
    cd = repo.mod('beartype._check.cls.call.calldatadecorfunc')
    ri = repo.find_def(cd.name, 'BeartypeCallDecorFuncData.reinit')
    src_ok = False
    if val is not None and val.startswith('decor_func.'):
        attr = val.split('.', 1)[1]
        sets = [a for a in walk_shallow(ri) if isinstance(a, ast.Assign) and norm(a.targets[0]) == f'self.{attr}']
        # the attribute is set from reinit()'s own func_wrapper parameter, which defaults to the decorated callable
        dflt = [a for a in ast.walk(ri) if isinstance(a, ast.Assign) and norm(a.targets[0]) == 'func_wrapper' and norm(a.value) == 'func_wrappee']
        src_ok = len(sets) == 1 and norm(sets[0].value) == 'func_wrapper' and 'func_wrapper' in params_of(ri) and 'func_wrappee' in params_of(ri) \
            and len(dflt) == 1
    ctx.ob('C13.R5', 'beartype_func:__wrapped__-is-the-decorated-callable', nm.where(bf),
           'func_wrapped= is the callable that was passed to the decorator (reinit()\'s func_wrapper parameter, which '
           'defaults to the decorated callable)', src_ok,
           f'func_wrapped={val}: name, docstring, attributes and __wrapped__ of the wrapper come from another object '
           f'than the one that was decorated')
    mm = repo.mod('beartype._util.func.utilfuncmake')
    mf = mm.defs.get('make_func')
    ctx.require(mf is not None, 'anchor vanished: make_func')
    uw = [c for c in walk_shallow(mf) if isinstance(c, ast.Call) and (dotted(c.func) or '').endswith('update_wrapper')]
    ok = bool(uw) and any(any(dotted(a) == 'func_wrapped' for a in c.args) or any(dotted(k.value) == 'func_wrapped' for k in c.keywords)
                          for c in uw)
    ctx.ob('C13.R5', 'make_func:update_wrapper', mm.where(mf), 'name, docstring and __wrapped__ are copied from the wrappee', ok, '')
    sf, isf = um.defs.get('set_func_beartyped'), um.defs.get('is_func_beartyped')
    ctx.require(sf is not None and isf is not None, 'anchor vanished: set_func_beartyped / is_func_beartyped')
    written = {n.attr for n in ast.walk(sf) if isinstance(n, ast.Attribute) and isinstance(n.ctx, ast.Store)} | \
        {const_str(c.args[1]) for c in ast.walk(sf) if isinstance(c, ast.Call) and dotted(c.func) == 'setattr' and len(c.args) > 1}
    read = {const_str(c.args[1]) for c in ast.walk(isf) if isinstance(c, ast.Call) and dotted(c.func) in ('hasattr', 'getattr') and len(c.args) > 1} | \
        {n.attr for n in ast.walk(isf) if isinstance(n, ast.Attribute) and isinstance(n.ctx, ast.Load) and dotted(n.value) == 'func'}
    written.discard(None)
    read.discard(None)
    ctx.ob('C13.R5', 'beartyped-marker:writer-reader-agree', um.where(sf),
           'set_func_beartyped writes the attribute is_func_beartyped reads', bool(written) and written <= read | written and bool(written & read),
           f'written {sorted(written)}, read {sorted(read)}')
    marks = [c for c in walk_shallow(bf) if isinstance(c, ast.Call) and dotted(c.func) == 'set_func_beartyped']
    ctx.ob('C13.R5', 'beartype_func:marks-wrapper', nm.where(bf), 'the generated wrapper is marked as beartyped',
           len(marks) == 1 and marks[0].args and dotted(marks[0].args[0]) == dotted(mk[0]._parent.targets[0]) if mk and isinstance(getattr(mk[0], '_parent', None), ast.Assign) else bool(marks), '')

    # ---- R6 ----------------------------------------------------------------------
    # the "already beartyped" marker lives in the wrapper's __dict__, which functools.wraps copies: a reader that
    # trusts it treats a wraps-copy of a beartype wrapper as a beartype wrapper (rule shared with C14.R7)
    from .c14 import _function_attribute_memos
    _function_attribute_memos(ctx, 'C13.R6', marker=True)

    # ---- R7 ----------------------------------------------------------------------
    # class route == per-member route: members of a class being decorated take the same fatal / non-fatal route as
    # a module-level callable (interpreted route selection of beartype_object; shared with C05.R6)
    ctx.rule('C13.R7', 'beartype_object selects the non-fatal route exactly when the configuration names a warning class, '
             'whether or not a class stack is passed (members of a class being decorated are handled like the same '
             'callables decorated one by one)')
    from .c05 import _route_selection
    _route_selection(ctx, 'C13.R7')
