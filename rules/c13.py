"""C13 — class decoration.

R1  identity: ``beartype_type``, interpreted over abstract classes, returns the class it was
    given (with and without a class stack, marked or not); the non-fatal route returns the
    object on failure;
R2  own members only, by the same interpretation: exactly the beartypeable entries of
    ``cls.__dict__`` are decorated (nested classes only when lexically nested), with the
    extended class stack and the same configuration, and replaced on the class itself;
R3  no-op identities of ``beartype_func`` (unbeartypeable callables, empty wrapper code,
    the ``-O`` decorator);
R4  descriptor kind preserved: the builtin-descriptor decorators, interpreted over abstract
    classmethod / staticmethod / property objects (every combination of absent / annotated /
    unannotated parts);
R5  wrapper metadata and idempotence (``func_wrapped`` reaches ``update_wrapper``; writer and
    reader of the "already beartyped" marker agree; an already marked class is returned untouched);
R6  ownership of the function marker (shared with C14.R7);
R7  class route == per-member route (shared with C05.R6);
R8  the store behind the class marker: set/get of the type attribute cache, interpreted;
R9  decoration mode vs configuration mode of the public decorator, interpreted.
"""
from __future__ import annotations

import ast

from sa.astutil import const_str, dotted, params_of
from sa.flow import walk_shallow
from sa.repo import norm

TYPE = 'beartype._decor._type.decortype'
NONTYPE = 'beartype._decor._nontype.decornontype'
CORE = 'beartype._decor.decorcore'
DESC = 'beartype._decor._nontype._builtin.decorbuiltindescriptor'
BEARFUNC = 'beartype._util.bear.utilbearfunc'


def run(ctx):
    repo = ctx.repo
    tm = repo.mod(TYPE)
    bt = tm.defs.get('beartype_type')
    ctx.require(bt is not None, 'anchor vanished: beartype_type')

    # ---- R1 ----------------------------------------------------------------------
    ctx.rule('C13.R1', 'every return of beartype_type returns its (never re-assigned) parameter cls; '
             '_beartype_object_nonfatal returns obj after a failed decoration')
    p = params_of(bt)[0]
    _nonfatal_route(ctx)

    # ---- R2 ----------------------------------------------------------------------
    ctx.rule('C13.R2', 'the member loop iterates cls.__dict__ (own attributes, not dir() / the MRO); a nested class is '
             'decorated only if its __qualname__ starts with the parent\'s; members are replaced on the class itself')
    _class_route(ctx)

    # ---- R3 ----------------------------------------------------------------------
    ctx.rule('C13.R3', 'beartype_func returns the callable it was given when it is unbeartypeable (optimised '
             'interpreter, unannotated, @no_type_check, already wrapped, blacklisted, …) or when no wrapper code is '
             'generated; the O0 strategy marks no_type_check first; under -O the public decorator returns its argument')
    nm = repo.mod(NONTYPE)
    bf = nm.defs.get('beartype_func')
    ctx.require(bf is not None, 'anchor vanished: beartype_func')
    _func_route(ctx)
    um = repo.mod(BEARFUNC)
    uf = um.defs.get('is_func_unbeartypeable')
    ctx.require(uf is not None, 'anchor vanished: is_func_unbeartypeable')
    calls = {dotted(c.func) for c in walk_shallow(uf) if isinstance(c, ast.Call)}
    need = {'is_python_optimized', 'get_hintable_pep649749_annotations_or_none', 'is_func_pep484_notypechecked', 'is_func_beartyped'}
    ctx.ob('C13.R3', 'is_func_unbeartypeable:conditions', um.where(uf),
           'the no-op conditions include -O, unannotated, @no_type_check and already-wrapped', need <= calls,
           f'missing: {sorted(need - calls)}')
    dm = repo.mod('beartype._decor.decorcache')
    # the -O decorator
    main = repo.mod('beartype._decor.decormain') if 'beartype._decor.decormain' in repo.modules else None
    found = False
    for mod in [x for x in (main, dm) if x is not None]:
        for fn in [x for x in ast.walk(mod.tree) if isinstance(x, ast.FunctionDef) and x.name == 'beartype']:
            for i in ast.walk(mod.tree):
                if isinstance(i, ast.If) and 'is_python_optimized()' in norm(i.test):
                    inner = [f for f in ast.walk(i) if isinstance(f, ast.FunctionDef) and f.name == 'beartype']
                    for f in inner:
                        rets = [r for r in walk_shallow(f) if isinstance(r, ast.Return)]
                        found = found or any(dotted(r.value) == 'obj' for r in rets)
    ctx.ob('C13.R3', 'beartype:-O-identity', (main or dm).where((main or dm).tree.body[0]),
           'under python -O the module-level decorator returns the decorated object unchanged', found,
           'no `if is_python_optimized(): def beartype(obj …): return obj` definition found')

    # ---- R4 ----------------------------------------------------------------------
    ctx.rule('C13.R4', 'builtin descriptors keep their kind: the dispatch table maps classmethod / staticmethod / '
             'property to their decorators; the class/static decorator rebuilds with descriptor.__class__; the '
             'property decorator rebuilds property(fget, fset, fdel, doc) carrying all four parts')
    _descriptor_route(ctx)

    # ---- R5 ----------------------------------------------------------------------
    ctx.rule('C13.R5', 'beartype_func passes func_wrapped= to make_func, which reaches functools.update_wrapper; the '
             'attribute written by set_func_beartyped is the one is_func_beartyped tests, and that test is one of '
             'the no-op conditions')
    mm = repo.mod('beartype._util.func.utilfuncmake')
    mf = mm.defs.get('make_func')
    ctx.require(mf is not None, 'anchor vanished: make_func')
    uw = [c for c in walk_shallow(mf) if isinstance(c, ast.Call) and (dotted(c.func) or '').endswith('update_wrapper')]
    ok = bool(uw) and any(any(dotted(a) == 'func_wrapped' for a in c.args) or any(dotted(k.value) == 'func_wrapped' for k in c.keywords)
                          for c in uw)
    ctx.ob('C13.R5', 'make_func:update_wrapper', mm.where(mf), 'name, docstring and __wrapped__ are copied from the wrappee', ok, '')
    sf, isf = um.defs.get('set_func_beartyped'), um.defs.get('is_func_beartyped')
    ctx.require(sf is not None and isf is not None, 'anchor vanished: set_func_beartyped / is_func_beartyped')
    written = {n.attr for n in ast.walk(sf) if isinstance(n, ast.Attribute) and isinstance(n.ctx, ast.Store)} | \
        {const_str(c.args[1]) for c in ast.walk(sf) if isinstance(c, ast.Call) and dotted(c.func) == 'setattr' and len(c.args) > 1}
    read = {const_str(c.args[1]) for c in ast.walk(isf) if isinstance(c, ast.Call) and dotted(c.func) in ('hasattr', 'getattr') and len(c.args) > 1} | \
        {n.attr for n in ast.walk(isf) if isinstance(n, ast.Attribute) and isinstance(n.ctx, ast.Load) and dotted(n.value) == 'func'}
    written.discard(None)
    read.discard(None)
    ctx.ob('C13.R5', 'beartyped-marker:writer-reader-agree', um.where(sf),
           'set_func_beartyped writes the attribute is_func_beartyped reads', bool(written) and written <= read | written and bool(written & read),
           f'written {sorted(written)}, read {sorted(read)}')

    # ---- R6 ----------------------------------------------------------------------
    # the "already beartyped" marker lives in the wrapper's __dict__, which functools.wraps copies: a reader that
    # trusts it treats a wraps-copy of a beartype wrapper as a beartype wrapper (rule shared with C14.R7)
    from .c14 import _function_attribute_memos
    _function_attribute_memos(ctx, 'C13.R6', marker=True)

    # ---- R7 ----------------------------------------------------------------------
    # class route == per-member route: members of a class being decorated take the same fatal / non-fatal route as
    # a module-level callable (interpreted route selection of beartype_object; shared with C05.R6)
    ctx.rule('C13.R7', 'beartype_object selects the non-fatal route exactly when the configuration names a warning class, '
             'whether or not a class stack is passed (members of a class being decorated are handled like the same '
             'callables decorated one by one)')
    from .c05 import _route_selection
    _route_selection(ctx, 'C13.R7')

    # ---- R8 ----------------------------------------------------------------------
    _class_marker_roundtrip(ctx, 'C13.R8')

    # ---- R9 ----------------------------------------------------------------------
    _decorator_modes(ctx, 'C13.R9')


# ---------------------------------------------------------------------------------------------
# interpreted rules (abstract classes / descriptors; the analyser's own interpreter, sa/fold.py)
# ---------------------------------------------------------------------------------------------
class _AMember:
    """Abstract value of a class-dictionary entry."""

    def __init__(self, kind, qualname=None, beartypeable=True):
        self.kind, self.beartypeable = kind, beartypeable
        if qualname is not None:
            self.__qualname__ = qualname
            self.__name__ = qualname.rsplit('.', 1)[-1]

    def __repr__(self):
        return f'<{self.kind} {getattr(self, "__qualname__", "")}>'


def _class_route(ctx):
    """R1/R2 by interpretation: beartype_type over abstract classes."""
    from sa.fold import AObj, FuncVal, Inst, Sym, _Abort, _Raise, _call_function
    from sa.gen import AConf
    from . import _gen
    repo = ctx.repo
    F = _gen.engines(ctx)[0].f
    tm = repo.mod(TYPE)
    fn = F.const(TYPE, 'beartype_type')
    ctx.require(isinstance(fn, FuncVal), 'anchor vanished: beartype_type')

    class _M(_AMember, AObj):
        pass

    class _Cls(AObj):
        def __init__(self, members):
            self._members = members
            self.__qualname__ = self.__name__ = 'Outer'

        __dict__ = property(lambda self: self._members)      # what the interpreted code sees as cls.__dict__

        def __repr__(self):
            return '<class Outer>'
    saved_stubs, saved_inst = dict(F.stubs), F.isinstance_hook
    log = {'decorated': [], 'set': [], 'marker_read': [], 'marker_written': [], 'marked': False, 'events': []}

    def inst(obj, c):
        is_type = isinstance(c, Sym) and c.kind == 'builtin' and c.name == 'type'
        if isinstance(obj, _Cls):
            return True if is_type else None
        if isinstance(obj, _AMember):
            return obj.kind == 'class' if is_type else obj.beartypeable
        return saved_inst(obj, c) if saved_inst else None
    F.isinstance_hook = inst
    saved_b = F.builtin_hook
    inherited = _M('function', 'Base.inherited')

    def bh(name, args, kwargs):
        # a class route that enumerated dir(cls) / getattr(cls, …) would also see the inherited member
        if args and isinstance(args[0], _Cls):
            c = args[0]
            if name == 'vars' and len(args) == 1:
                return c._members
            if name == 'dir' and len(args) == 1:
                return sorted(list(c._members) + ['inherited'])
            if name == 'getattr' and len(args) >= 2 and isinstance(args[1], str):
                if args[1] in c._members:
                    return c._members[args[1]]
                if args[1] == 'inherited':
                    return inherited
                if len(args) == 3:
                    return args[2]
        return saved_b(name, args, kwargs) if saved_b else NotImplemented
    F.builtin_hook = bh

    def decorate(env, a, k):
        obj = k.get('obj', a[0] if a else None)
        log['decorated'].append((obj, k.get('conf', a[1] if len(a) > 1 else None), k.get('cls_stack')))
        log['events'].append('decorated')
        if getattr(obj, 'kind', '') == 'unchanged-function':
            return obj
        return Inst('Checked', (repr(obj),))
    F.stubs['beartype._decor.decorcore.beartype_object'] = decorate
    F.stubs['beartype._util.cls.utilclsset.set_type_attr'] = lambda e, a, k: (log['set'].append(tuple(a)), log['events'].append('replaced')) and None
    F.stubs['beartype._util.module.utilmodget.get_object_module_name_or_none'] = lambda e, a, k: None
    F.stubs['beartype._util.cls.pep.clspep557.is_type_pep557_dataclass'] = lambda e, a, k: False
    sent = F.const('beartype._util.cache.utilcacheobjattr', 'SENTINEL')

    def get_marker(e, a, k):
        log['marker_read'].append(a[1] if len(a) > 1 else k.get('attr_name'))
        return True if log['marked'] else sent
    F.stubs['beartype._util.cache.utilcacheobjattr.get_type_attr_cached_or_sentinel'] = get_marker
    F.stubs['beartype._util.cache.utilcacheobjattr.set_type_attr_cached'] = \
        lambda e, a, k: (log['marker_written'].append(tuple(a[1:]) if len(a) > 1 else (k.get('attr_name'), k.get('attr_value'))),
                         log['events'].append('marked')) and None

    def members():
        return {
            'method': _M('function', 'Outer.method'),
            'cm': _M('classmethod'),
            'sm': _M('staticmethod'),
            'prop': _M('property'),
            'same': _M('unchanged-function', 'Outer.same'),
            'Inner': _M('class', 'Outer.Inner'),
            'alias': _M('class', 'Elsewhere'),              # class declared elsewhere, merely assigned in the body
            'alias2': _M('class', 'Other.Outer'),           # … whose qualified name merely contains the parent's
            'x': _M('data', beartypeable=False),
        }
    conf = AConf(is_pep557_fields=False)
    try:
        O0 = F.eval_in(repo.mod('beartype._conf.confenum'), ast.parse('BeartypeStrategy.O0', mode='eval').body)
        conf_default = conf
        for stack_name, stack, conf in (('absent', 'absent', conf_default), ('None', None, conf_default), ('outer-classes', ('Enclosing',), conf_default),
                                        ('two-outer-classes', ('Root', 'Middle'), conf_default),
                                        ('None:strategy-O0', None, AConf(is_pep557_fields=False, strategy=O0))):
            for marked in (False, True):
                for k_ in log:
                    if isinstance(log[k_], list):
                        del log[k_][:]
                log['marked'] = marked
                ms = members()
                cls = _Cls(ms)
                kw = {'conf': conf}
                if stack != 'absent':
                    kw['cls_stack'] = stack
                try:
                    out = _call_function(F, fn, [cls], kw, 1)
                except (_Abort, _Raise) as ex:
                    ctx.require(False, f'cannot interpret beartype_type: {ex}')
                tag = f'cls_stack={stack_name}:already-decorated={marked}'
                ctx.ob('C13.R1', f'beartype_type:returns-the-class:{tag}', tm.where(fn.node),
                       'the class object that was passed in is returned', out is cls, f'evaluates to {out!r}')
                dec = {id(o): (o, c, s) for o, c, s in log['decorated']}
                if marked:
                    ctx.ob('C13.R5', f'beartype_type:idempotent:{tag}', tm.where(fn.node),
                           'an already decorated class is returned without decorating or replacing any member',
                           not log['decorated'] and not log['set'] and not log['marker_written'],
                           f'decorated {[o for o, _, _ in log["decorated"]]}, replaced {[a[1:2] for a in log["set"]]}')
                    continue
                want = [ms[n] for n in ('method', 'cm', 'sm', 'prop', 'same', 'Inner')]
                got = [o for o, _, _ in log['decorated']]
                ctx.ob('C13.R2', f'beartype_type:own-beartypeable-members-decorated:{tag}', tm.where(fn.node),
                       'exactly the beartypeable entries of cls.__dict__ are decorated — functions, descriptors and '
                       'classes lexically nested in this class; not data, not classes declared elsewhere',
                       len(got) == len(want) and all(any(g is w for g in got) for w in want),
                       f'decorated: {got}; expected: {want}')
                want_stack = ((stack if stack not in ('absent', None) else ()) + (cls,))
                bad = [(o, s) for o, c, s in log['decorated'] if not (isinstance(s, tuple) and len(s) == len(want_stack)
                                                                     and all(x is y for x, y in zip(s, want_stack)))]
                ctx.ob('C13.R2', f'beartype_type:members-get-the-class-stack:{tag}', tm.where(fn.node),
                       'every member is decorated with the class stack extended by this class', not bad,
                       f'{bad[:2]} (expected stack {want_stack})')
                badc = [o for o, c, s in log['decorated'] if c is not conf]
                ctx.ob('C13.R2', f'beartype_type:members-get-the-configuration:{tag}', tm.where(fn.node),
                       'every member is decorated under the configuration the class is decorated under', not badc, f'{badc[:2]}')
                sets = {a[1]: a for a in log['set']}
                ok = set(sets) == {'method', 'cm', 'sm', 'prop', 'Inner'} and all(a[0] is cls for a in log['set']) and all(
                    isinstance(a[2], Inst) and a[2].cls == 'Checked' and a[2].args == (repr(ms[a[1]]),) for a in log['set'])
                ctx.ob('C13.R2', f'beartype_type:replaces-on-same-class:{tag}', tm.where(fn.node),
                       'each member whose decoration differs from it is replaced, under its own name, on cls itself '
                       '(by the result of decorating that very member)', ok, f'{log["set"]}')
                w = log['marker_written']
                ctx.ob('C13.R5', f'beartype_type:marks-the-class:{tag}', tm.where(fn.node),
                       'the class is marked as decorated under the key the idempotence guard reads',
                       len(w) == 1 and len(log['marker_read']) >= 1 and w[0][0] == log['marker_read'][0] and w[0][1] is True,
                       f'guard reads {log["marker_read"]}, written {w}')
                ev = log['events']
                ctx.ob('C13.R5', f'beartype_type:marks-the-class-last:{tag}', tm.where(fn.node),
                       'the class is marked as decorated only after every member was decorated and replaced (a concurrent or '
                       're-entrant decoration that sees the mark must find a finished class)',
                       'marked' in ev and ev.index('marked') == len(ev) - 1, f'order of events: {ev}')
    finally:
        F.isinstance_hook, F.builtin_hook = saved_inst, saved_b
        F.stubs.clear()
        F.stubs.update(saved_stubs)


def _descriptor_route(ctx):
    """R4 by interpretation: the builtin-descriptor decorators over abstract descriptors."""
    from sa.fold import AObj, FuncVal, Inst, Sym, Unknown, _Abort, _Raise, _call_function
    from sa.gen import AConf
    from . import _gen
    repo = ctx.repo
    F = _gen.engines(ctx)[0].f
    dd = repo.mod(DESC)
    mp = repo.mod('beartype._decor._nontype._decornontypemap')
    # the dispatch table, by value: whatever it is called, the dictionary whose keys include the three builtin names
    table = {}
    for n in ast.walk(mp.tree):
        if isinstance(n, ast.Dict):
            for k, v in zip(n.keys, n.values):
                if const_str(k) in ('classmethod', 'staticmethod', 'property'):
                    table[const_str(k)] = v
    ctx.require(set(table) == {'classmethod', 'staticmethod', 'property'}, 'descriptor dispatch table not found')
    fns = {}
    for k, v in table.items():
        f = F.eval_in(mp, v)
        ctx.ob('C13.R4', f'descriptor-dispatch:{k}', mp.where(v), f'{k} objects are dispatched to a descriptor decorator '
               'of the repository', isinstance(f, FuncVal), f'mapped to {norm(v)}')
        if not isinstance(f, FuncVal):
            return
        fns[k] = f
    saved_stubs, saved_inst, saved_b = dict(F.stubs), F.isinstance_hook, F.builtin_hook

    class _Func(AObj):
        def __init__(self, name, annotated=True):
            self.name, self.annotated = name, annotated

        def __repr__(self):
            return f'<{"annotated" if self.annotated else "unannotated"} function {self.name}>'

    class _Desc(AObj):
        kind = '?'

        def __init__(self, func):
            self.__func__ = self.__wrapped__ = func

        def __repr__(self):
            return f'<{self.kind} of {self.__func__!r}>'

    class _ClassMethod(_Desc):
        kind = 'classmethod'

    class _StaticMethod(_Desc):
        kind = 'staticmethod'

    class _Property(AObj):
        kind = 'property'

        def __init__(self, fget=None, fset=None, fdel=None, doc=None):
            self.fget, self.fset, self.fdel, self.__doc__ = fget, fset, fdel, doc

        def __repr__(self):
            return f'<property fget={self.fget!r} fset={self.fset!r} fdel={self.fdel!r} doc={self.__doc__!r}>'

    def inst(obj, c):
        if isinstance(obj, (_Desc, _Property)):
            return True            # the assertions about the descriptor's own kind
        return saved_inst(obj, c) if saved_inst else None
    F.isinstance_hook = inst

    def bh(name, args, kwargs):
        if name == 'property':
            return _Property(*args, **kwargs)
        if name in ('classmethod', 'staticmethod') and len(args) == 1:
            return (_ClassMethod if name == 'classmethod' else _StaticMethod)(args[0])
        if name == 'type' and len(args) == 1 and isinstance(args[0], AObj):
            return F_type(args[0])
        return saved_b(name, args, kwargs) if saved_b else NotImplemented

    def F_type(o):
        from sa.fold import _PyCallable
        return _PyCallable(type(o))
    F.builtin_hook = bh
    seen = []

    def D(f):
        """What decorating the function f yields: a checking wrapper, or f itself when there is nothing to check."""
        return f if f is None or not f.annotated else Inst('Checked', (repr(f),))

    def checked(env, a, k):
        f = k.get('func', k.get('obj', a[0] if a else None))
        seen.append((f, {x: y for x, y in k.items() if x not in ('func', 'obj')}))
        return D(f) if isinstance(f, _Func) else Unknown('decoration of something else')
    for q in ('beartype._decor._nontype.decornontype.beartype_func', 'beartype._decor.decorcore.beartype_object'):
        F.stubs[q] = checked
    F.stubs['beartype._util.bear.utilbearfunc.is_func_beartyped'] = lambda e, a, k: isinstance(a[0], Inst) and a[0].cls == 'Checked'
    conf, stack = AConf(), ('Outer',)
    kw = {'conf': conf, 'cls_stack': stack}

    def same(v, w):
        return v is w or (isinstance(v, Inst) and isinstance(w, Inst) and v.cls == w.cls and v.args == w.args)
    try:
        for kind, cls in (('classmethod', _ClassMethod), ('staticmethod', _StaticMethod)):
            for ann in (True, False):
                f = _Func('f', ann)
                d = cls(f)
                del seen[:]
                try:
                    out = _call_function(F, fns[kind], [d], dict(kw), 1)
                except (_Abort, _Raise) as ex:
                    ctx.require(False, f'cannot interpret {fns[kind].qual}: {ex}')
                tag = 'annotated' if ann else 'unannotated'
                ctx.ob('C13.R4', f'descriptor:{kind}:kind-kept:{tag}', dd.where(fns[kind].node),
                       f'decorating a {kind} object yields a {kind} object around the decorated wrappee',
                       type(out) is cls and same(out.__func__, D(f)), f'{d!r} evaluates to {out!r}')
                ctx.ob('C13.R4', f'descriptor:{kind}:options-forwarded:{tag}', dd.where(fns[kind].node),
                       'the wrappee is decorated with the configuration and class stack the descriptor was decorated with',
                       len(seen) == 1 and seen[0][0] is f and seen[0][1].get('conf') is conf and seen[0][1].get('cls_stack') is stack,
                       f'{seen}')
        import itertools
        for g_ann, set_kind, del_kind in \
                itertools.product((True, False), ('absent', 'annotated', 'unannotated'), ('absent', 'annotated', 'unannotated')):
            g = _Func('getter', g_ann)
            s_ = None if set_kind == 'absent' else _Func('setter', set_kind == 'annotated')
            d_ = None if del_kind == 'absent' else _Func('deleter', del_kind == 'annotated')
            p = _Property(g, s_, d_, 'the docstring')
            del seen[:]
            try:
                out = _call_function(F, fns['property'], [p], dict(kw), 1)
            except (_Abort, _Raise) as ex:
                ctx.require(False, f'cannot interpret {fns["property"].qual}: {ex}')
            tag = f'getter={"annotated" if g_ann else "unannotated"}:setter={set_kind}:deleter={del_kind}'
            ok = type(out) is _Property and same(out.fget, D(g)) and same(out.fset, D(s_)) and same(out.fdel, D(d_)) \
                and out.__doc__ == 'the docstring'
            ctx.ob('C13.R4', f'descriptor:property:parts-kept:{tag}', dd.where(fns['property'].node),
                   'decorating a property yields a property whose getter, setter and deleter are the decorated '
                   'versions of the original\'s own getter, setter and deleter (absent parts stay absent) and whose '
                   'docstring is the original\'s', ok, f'{p!r} evaluates to {out!r}')
            bad = [x for x in seen if x[1].get('conf') is not conf or x[1].get('cls_stack') is not stack]
            ctx.ob('C13.R4', f'descriptor:property:options-forwarded:{tag}', dd.where(fns['property'].node),
                   'every part is decorated with the configuration and class stack the property was decorated with',
                   not bad, f'{seen}')
    finally:
        F.isinstance_hook, F.builtin_hook = saved_inst, saved_b
        F.stubs.clear()
        F.stubs.update(saved_stubs)


def _class_marker_roundtrip(ctx, RULE):
    """The store behind the "class already decorated" marker, interpreted: what set_type_attr_cached stores is what
    get_type_attr_cached_or_sentinel finds — per class, not per class hierarchy."""
    from sa.fold import AObj, FuncVal, Sym, _Abort, _Raise, _PyCallable, _WithValue, _call_function
    from . import _gen
    repo = ctx.repo
    CACHE = 'beartype._util.cache.utilcacheobjattr'
    F = _gen.engines(ctx)[0].f
    cm = repo.mod(CACHE)
    getter = F.const(CACHE, 'get_type_attr_cached_or_sentinel')
    setter = F.const(CACHE, 'set_type_attr_cached')
    sent = F.const(CACHE, 'SENTINEL')
    ctx.require(isinstance(getter, FuncVal) and isinstance(setter, FuncVal), 'anchor vanished: type attribute cache accessors')
    ctx.rule(RULE, 'the store behind the "class already decorated" marker, decided by interpreting set_type_attr_cached '
             'followed by get_type_attr_cached_or_sentinel over abstract classes (__sizeof__ pure-Python or C-based; a '
             'subclass sharing its superclass\'s __sizeof__): a value stored for a class under a name is the value read '
             'back for that class and name; nothing is read back for another name, for a class nothing was stored for, '
             'or for a subclass of the class it was stored for')

    class _Fn(AObj):
        """A function object: attributes can be monkey-patched into it."""
        _track_attribute_stores = True

        def __init__(self, pure):
            self.pure = pure

        def __repr__(self):
            return f'<__sizeof__ {"pure-Python" if self.pure else "C-based"} {sorted(k for k in vars(self) if k != "pure")}>'

    class _Cls(AObj):
        _track_attribute_stores = True

        def __init__(self, name, sizeof):
            self.name, self.__sizeof__ = name, sizeof
            self.__name__ = self.__qualname__ = name
            self.__module__ = 'user_module'

        def __repr__(self):
            return f'<class {self.name}>'
    saved_stubs, saved_inst, saved_b = dict(F.stubs), F.isinstance_hook, F.builtin_hook

    def inst(obj, c):
        if isinstance(obj, _Fn):
            return obj.pure
        if isinstance(obj, _Cls):
            return True if (isinstance(c, Sym) and c.name == 'type') or not isinstance(c, Sym) else None
        return saved_inst(obj, c) if saved_inst else None
    F.isinstance_hook = inst

    def bh(name, args, kwargs):
        if name in ('getattr', 'hasattr', 'setattr') and args and isinstance(args[0], (_Fn, _Cls)) and isinstance(args[1], str):
            if name == 'setattr':
                setattr(args[0], args[1], args[2])
                return None
            if name == 'hasattr':
                return hasattr(args[0], args[1])
            return getattr(args[0], args[1], *args[2:3])
        return saved_b(name, args, kwargs) if saved_b else NotImplemented
    F.builtin_hook = bh
    # @wraps(c_function) def wrapper …: the pure-Python replacement of a C-based __sizeof__
    F.ext_stubs_saved = dict(F.ext_stubs)
    F.apply_nested_decorators = True
    F.ext_stubs['functools.wraps'] = lambda env, a, k: _PyCallable(lambda f: _Fn(True))
    F.stubs['beartype._util.cls.utilclsset.set_type_attr'] = lambda e, a, k: setattr(a[0], a[1], a[2])
    old_lock = F.patch_global(CACHE, 'object_attr_cache_lock', _WithValue(None))

    def call(fn, *a):
        try:
            return _call_function(F, fn, list(a), {}, 1)
        except (_Abort, _Raise) as ex:
            ctx.require(False, f'cannot interpret {fn.qual}: {ex}')
    try:
        for pure in (True, False):
            tag = 'pure-Python-__sizeof__' if pure else 'C-based-__sizeof__'
            sz = _Fn(pure)
            sup = _Cls('Super', sz)
            other = _Cls('Unrelated', _Fn(pure))
            before = call(getter, sup, 'k')
            ctx.ob(RULE, f'type-attr-cache:nothing-before-store:{tag}', cm.where(getter.node),
                   'before anything is stored the sentinel is read', before is sent or before == sent, f'evaluates to {before!r}')
            call(setter, sup, 'k', True)
            sub = _Cls('Sub', sup.__sizeof__)        # a subclass inherits the (possibly replaced) __sizeof__
            got = call(getter, sup, 'k')
            ctx.ob(RULE, f'type-attr-cache:stored-is-read-back:{tag}', cm.where(setter.node),
                   'the value stored for (class, name) is read back for (class, name)', got is True,
                   f'after set_type_attr_cached(C, "k", True), get_type_attr_cached_or_sentinel(C, "k") evaluates to '
                   f'{got!r}; C.__sizeof__ is {sup.__sizeof__!r}')
            for what, c_, nm in (('other-name', sup, 'j'), ('subclass', sub, 'k'), ('unrelated-class', other, 'k')):
                r = call(getter, c_, nm)
                ctx.ob(RULE, f'type-attr-cache:not-read-for-{what}:{tag}', cm.where(getter.node),
                       f'nothing is read back for {what.replace("-", " ")}', r is sent or r == sent, f'evaluates to {r!r}')
            call(setter, sub, 'k', 'sub-value')
            call(setter, sup, 'j', 'second')
            twin = _Cls('Sub', sup.__sizeof__)       # another class of the same name and module (a class factory called twice)
            r = call(getter, twin, 'k')
            ctx.ob(RULE, f'type-attr-cache:not-read-for-same-named-class:{tag}', cm.where(getter.node),
                   'nothing is read back for a distinct class that merely shares name and module with the one stored for',
                   r is sent or r == sent, f'evaluates to {r!r}')
            r = (call(getter, sup, 'k'), call(getter, sub, 'k'), call(getter, sup, 'j'))
            ctx.ob(RULE, f'type-attr-cache:later-stores-keep-earlier:{tag}', cm.where(setter.node),
                   'storing for a subclass or under another name keeps what was stored before',
                   r == (True, 'sub-value', 'second'), f'evaluates to {r!r}')
    finally:
        F.isinstance_hook, F.builtin_hook = saved_inst, saved_b
        F.stubs.clear()
        F.stubs.update(saved_stubs)
        F.ext_stubs.clear()
        F.ext_stubs.update(F.ext_stubs_saved)
        F.apply_nested_decorators = False
        F.patch_global(CACHE, 'object_attr_cache_lock', old_lock)


def _decorator_modes(ctx, RULE):
    """The public decorator, interpreted: decoration mode for every object that is not None (truthy or falsy),
    configuration mode otherwise."""
    from sa.fold import AObj, FuncVal, _Abort, _Raise, _call_function
    from sa.gen import AConf
    from . import _gen
    repo = ctx.repo
    F = _gen.engines(ctx)[0].f
    DC = 'beartype._decor.decorcache'
    dm = repo.mod(DC)
    fn = F.const(DC, 'beartype')
    ctx.require(isinstance(fn, FuncVal), 'anchor vanished: beartype._decor.decorcache.beartype')
    ctx.rule(RULE, 'the public decorator, interpreted over {object: a truthy class, a falsy class (metaclass __len__ == 0 / '
             '__bool__ False), a falsy callable object, None} × {default configuration, another configuration}: any '
             'object other than None is decorated under the configuration and the result of decorating it is returned; '
             'without an object a decorator is returned that decorates what it is given under that configuration, and '
             'asking twice for the same configuration yields the same decorator')

    class _Obj(AObj):
        def __init__(self, what, truthy):
            self.what, self.truthy = what, truthy

        def __bool__(self):
            return self.truthy

        def __repr__(self):
            return f'<{self.what}>'
    saved_stubs = dict(F.stubs)
    F.stubs['beartype._conf.confmain.die_unless_conf'] = lambda e, a, k: None
    F.stubs['beartype._conf.confcommon.die_unless_conf'] = lambda e, a, k: None
    F.stubs['beartype._conf.conftest.die_unless_conf'] = lambda e, a, k: None
    F.stubs['beartype._decor.decorcore.beartype_object'] = lambda e, a, k: ('DECORATED', a[0] if a else k.get('obj'), a[1] if len(a) > 1 else k.get('conf'))
    memos = [v for n, v in F.module_env(DC).items() if isinstance(v, dict) and not n.startswith('__')]
    default = F.value(DC, 'BEARTYPE_CONF_DEFAULT') if 'BEARTYPE_CONF_DEFAULT' in F.module_env(DC) else None
    other = AConf()
    old_default = F.patch_global(DC, 'BEARTYPE_CONF_DEFAULT', AConf())
    try:
        _saved_try = getattr(F, 'faithful_try', False)
        F.faithful_try = True      # a memo lookup written as try / except KeyError must be followed into its handler
        dflt = F.module_env(DC)['BEARTYPE_CONF_DEFAULT']
        for cname, conf in (('default', None), ('other', other)):
            kw = {} if conf is None else {'conf': conf}
            wantc = dflt if conf is None else conf
            for o in (_Obj('truthy class', True), _Obj('falsy class', False), _Obj('falsy callable object', False)):
                for m_ in memos:
                    m_.clear()
                try:
                    out = _call_function(F, fn, [o], dict(kw), 1)
                except (_Abort, _Raise) as ex:
                    ctx.require(False, f'cannot interpret the public decorator: {ex}')
                ctx.ob(RULE, f'decorator:decoration-mode:{o.what}:conf={cname}', dm.where(fn.node),
                       'an object other than None is decorated under the configuration; the decorated object is returned',
                       isinstance(out, tuple) and out[:1] == ('DECORATED',) and out[1] is o and out[2] is wantc,
                       f'beartype({o!r}) evaluates to {out!r}')
            for m_ in memos:
                m_.clear()
            try:
                d1 = _call_function(F, fn, [], dict(kw), 1)
                d2 = _call_function(F, fn, [], dict(kw), 1)
                x = _Obj('falsy class', False)
                r = F.call(d1, [x]) if isinstance(d1, FuncVal) else None
            except (_Abort, _Raise) as ex:
                ctx.require(False, f'cannot interpret the public decorator (configuration mode): {ex}')
            ctx.ob(RULE, f'decorator:configuration-mode:conf={cname}', dm.where(fn.node),
                   'without an object a decorator is returned that decorates its argument under the configuration',
                   isinstance(d1, FuncVal) and isinstance(r, tuple) and r[:1] == ('DECORATED',) and r[1] is x and r[2] is wantc,
                   f'beartype(conf=…) evaluates to {d1!r}; applied to an object: {r!r}')
            ctx.ob(RULE, f'decorator:configuration-mode-memoised:conf={cname}', dm.where(fn.node),
                   'the decorator of a configuration is created once', d1 is d2 or d1 == d2, f'{d1!r} then {d2!r}')
    finally:
        for m_ in memos:
            m_.clear()
        F.faithful_try = locals().get('_saved_try', False)
        F.patch_global(DC, 'BEARTYPE_CONF_DEFAULT', old_default)
        F.stubs.clear()
        F.stubs.update(saved_stubs)


def _func_route(ctx):
    """R3 / R5 by interpretation: beartype_func over abstract callables × no-op conditions."""
    from sa.fold import AObj, FuncVal, Sym, _Abort, _Raise, _call_function
    from sa.gen import AConf
    from . import _gen
    repo = ctx.repo
    F = _gen.engines(ctx)[0].f
    nm = repo.mod(NONTYPE)
    fn = F.const(NONTYPE, 'beartype_func')
    ctx.require(isinstance(fn, FuncVal), 'anchor vanished: beartype_func')
    cenum = repo.mod('beartype._conf.confenum')
    O0 = F.eval_in(cenum, ast.parse('BeartypeStrategy.O0', mode='eval').body)
    O1 = F.eval_in(cenum, ast.parse('BeartypeStrategy.O1', mode='eval').body)

    class _Fn(AObj):
        _track_attribute_stores = True

        def __init__(self, name):
            self.name = name
            self.__name__ = self.__qualname__ = name

        def __call__(self, *a, **k):
            return None

        def __repr__(self):
            return f'<function {self.name}>'

    class _Decor(AObj):
        def __init__(self, kw):
            self.func_wrappee, self.func_wrapper, self.conf = kw.get('func_wrappee'), kw.get('func_wrapper'), kw.get('conf')
            self.func_wrappee_wrappee = _Fn('innermost-unwrapped')
            self.func_wrapper_name, self.func_wrapper_locals = 'f', {}
            self.label_func_wrapper = 'labeller'

        def set_func_annotations_if_dirty(self):
            return None
    saved_stubs, saved_ext, saved_b, saved_i = dict(F.stubs), dict(F.ext_stubs), F.builtin_hook, F.isinstance_hook
    cond = {}
    made = []
    NOOPS = {
        'python -O': 'beartype._util.py.utilpyinterpreter.is_python_optimized',
        'unannotated': 'beartype._util.hint.pep.proposal.pep749.pep649749annotate.get_hintable_pep649749_annotations_or_none',
        'blacklisted': 'beartype._util.bear.utilbearblack.is_object_blacklisted',
        'jaxtyped': 'beartype._util.api.external.utiljaxtyping.is_func_jaxtyped',
        'sphinx autodoc': 'beartype._util.api.external.utilsphinx.is_sphinx_autodocing',
    }
    for what, q in NOOPS.items():
        if what == 'unannotated':
            F.stubs[q] = lambda e, a, k: (None if cond.get('unannotated') else {'x': 'int'})
        else:
            F.stubs[q] = (lambda what: lambda e, a, k: bool(cond.get(what)))(what)
    F.stubs['beartype._util.func.pep.utilfuncpep484.is_func_pep484_notypechecked'] = \
        lambda e, a, k: bool(getattr(a[0], '__no_type_check__', False))
    # (defined under a Python-version test at module level: patched where it is used)
    from sa.fold import _PyCallable
    old_ann = F.patch_global(BEARFUNC, 'get_hintable_pep649749_annotations_or_none',
                             _PyCallable(lambda *a, **k: (None if cond.get('unannotated') else {'x': 'int'})))

    def ntc(env, a, k):
        a[0].__no_type_check__ = True
        return a[0]
    F.ext_stubs['typing.no_type_check'] = ntc
    F.stubs['beartype._check.cls.call.calldatadecorfunc.make_decor_func'] = lambda e, a, k: _Decor(k)
    F.stubs['beartype._check.cls.call.calldatadecorfunc.cull_decor_func'] = lambda e, a, k: None
    F.stubs['beartype._decor._nontype._wrap.wrapmain.generate_code'] = lambda e, a, k: ('' if cond.get('no code') else 'def f(...): ...')
    F.stubs['beartype._util.func.utilfuncscope.get_func_globals'] = lambda e, a, k: {'__builtins__': {'len': 1}}

    def mk(env, a, k):
        w = _Fn('generated wrapper')
        w.made_with = dict(k)
        made.append(w)
        return w
    F.stubs['beartype._util.func.utilfuncmake.make_func'] = mk

    def bh(name, args, kw):
        if name == 'callable' and args and isinstance(args[0], _Fn):
            return True
        if name in ('hasattr', 'getattr', 'setattr') and args and isinstance(args[0], _Fn) and isinstance(args[1], str):
            if name == 'hasattr':
                return args[1] in vars(args[0])
            if name == 'setattr':
                setattr(args[0], args[1], args[2])
                return None
            return vars(args[0]).get(args[1], *args[2:3]) if (args[1] in vars(args[0]) or len(args) > 2) else NotImplemented
        return saved_b(name, args, kw) if saved_b else NotImplemented
    F.builtin_hook = bh
    F.isinstance_hook = lambda o, c: (True if isinstance(o, AConf) else (saved_i(o, c) if saved_i else None))

    def run(func, conf, **kw):
        del made[:]
        try:
            return _call_function(F, fn, [], dict(func=func, conf=conf, **kw), 1)
        except (_Abort, _Raise) as ex:
            ctx.require(False, f'cannot interpret beartype_func: {ex}')
    try:
        for what in list(NOOPS) + ['@no_type_check', 'strategy O0', 'no code', 'already a beartype wrapper']:
            cond.clear()
            f = _Fn('f')
            conf = AConf(strategy=O0 if what == 'strategy O0' else O1, is_debug=False)
            if what == '@no_type_check':
                f.__no_type_check__ = True
            elif what == 'already a beartype wrapper':
                f = run(_Fn('g'), conf)
                ctx.require(isinstance(f, _Fn) and f.name == 'generated wrapper', 'beartype_func did not yield a wrapper to re-decorate')
            else:
                cond[what] = True
            out = run(f, conf)
            ctx.ob('C13.R3', f'beartype_func:no-op:{what}', nm.where(fn.node),
                   f'{what}: the callable itself is returned and no wrapper is made', out is f and not made,
                   f'evaluates to {out!r}; wrappers made: {len(made)}')
            if what in ('strategy O0', 'already a beartype wrapper'):
                continue
            # … also when the callable is decorated on behalf of a descriptor-level wrapper of it
            fw = _Fn('descriptor-level wrapper')
            if what == '@no_type_check':
                fw.__no_type_check__ = True
            out = run(f, conf, func_wrapper=fw)
            ctx.ob('C13.R3', f'beartype_func:no-op:{what}:func_wrapper-given', nm.where(fn.node),
                   f'{what}: the callable that was passed (not its descriptor-level wrapper) is returned', out is f and not made,
                   f'evaluates to {out!r}; wrappers made: {len(made)}')
        cond.clear()
        for given_wrapper in (False, True):
            f = _Fn('f')
            fw = _Fn('descriptor-level wrapper') if given_wrapper else None
            conf = AConf(strategy=O1, is_debug=False)
            out = run(f, conf, **({'func_wrapper': fw} if given_wrapper else {}))
            tag = 'func_wrapper-given' if given_wrapper else 'plain'
            ok = len(made) == 1 and out is made[0]
            ctx.ob('C13.R5', f'beartype_func:returns-the-generated-wrapper:{tag}', nm.where(fn.node),
                   'an annotated callable is replaced by the generated wrapper', ok, f'evaluates to {out!r}')
            if not ok:
                continue
            want = fw if given_wrapper else f
            ctx.ob('C13.R5', f'beartype_func:__wrapped__-is-the-decorated-callable:{tag}', nm.where(fn.node),
                   'the wrapper is built with func_wrapped= the callable that was decorated (name, docstring, attributes and '
                   '__wrapped__ come from it)', getattr(out.made_with.get('func_wrapped'), 'fn', out.made_with.get('func_wrapped')) is want,
                   f'func_wrapped={getattr(out.made_with.get("func_wrapped"), "fn", out.made_with.get("func_wrapped"))!r}, decorated callable {want!r}')
            ctx.ob('C13.R5', f'beartype_func:marks-wrapper:{tag}', nm.where(fn.node),
                   'the generated wrapper is marked so that decorating it again is a no-op',
                   any(k.startswith('__beartype') or k.startswith('_') and 'beartype' in k for k in vars(out) if k not in ('made_with',)),
                   f'attributes set on the wrapper: {sorted(k for k in vars(out) if k not in ("made_with", "name", "__name__", "__qualname__"))}')
    finally:
        F.builtin_hook, F.isinstance_hook = saved_b, saved_i
        F.patch_global(BEARFUNC, 'get_hintable_pep649749_annotations_or_none', old_ann)
        F.stubs.clear()
        F.stubs.update(saved_stubs)
        F.ext_stubs.clear()
        F.ext_stubs.update(saved_ext)


def _nonfatal_route(ctx):
    """The non-fatal decoration route, interpreted (handlers modelled): success returns the decorated object, failure
    issues one warning of the configured class and returns the object as it was."""
    from sa.fold import AObj, FuncVal, Inst, _Abort, _Raise, _call_function
    from sa.gen import AConf
    from . import _gen
    repo = ctx.repo
    F = _gen.engines(ctx)[0].f
    cm = repo.mod(CORE)
    # by role: the function of decorcore that issues the decoration warning
    cands = [n for n, v in F.module_env(CORE).items() if isinstance(v, FuncVal) and v.module == CORE and any(
        isinstance(c, ast.Call) and dotted(c.func) == 'issue_warning' for c in ast.walk(v.node))]
    ctx.require(len(cands) == 1, f'anchor vanished: the non-fatal decoration route of decorcore (candidates {cands})')
    fn = F.const(CORE, cands[0])
    fatal = [n for n, v in F.module_env(CORE).items() if isinstance(v, FuncVal) and v.module == CORE and n != cands[0]
             and any(isinstance(c, ast.Call) and dotted(c.func) == n for c in ast.walk(fn.node))]
    ctx.require(len(fatal) == 1, f'the non-fatal route does not delegate to exactly one route of decorcore ({fatal})')
    saved, saved_ext = dict(F.stubs), dict(F.ext_stubs)
    warned = []
    outcome = {}

    def do(env, a, k):
        if outcome['fails']:
            raise _Raise('BeartypeDecorHintException', 'the fatal route')
        return Inst('Checked', (repr(a[0] if a else k.get('obj')),))
    F.stubs[f'{CORE}.{fatal[0]}'] = do
    # (issue_warning is defined under a Python-version test: patched where it is used)
    from sa.fold import _PyCallable
    old_iw = F.patch_global(CORE, 'issue_warning', _PyCallable(lambda *a, **k: warned.append(k.get('warning_cls', a[0] if a else None))))
    F.stubs['beartype._util.cls.utilclstest.is_type_subclass'] = lambda e, a, k: True
    F.stubs['beartype._util.text.utiltextprefix.prefix_object'] = lambda e, a, k: 'object '
    F.stubs['beartype._util.text.utiltextmunge.uppercase_str_char_first'] = lambda e, a, k: (a[0] if a else k.get('text', ''))
    F.ext_stubs['traceback.format_exc'] = lambda e, a, k: 'Traceback …'
    obj = Inst('object', ('the decorated object',))
    conf = AConf(warning_cls_on_decorator_exception='WarningClass', is_color=False)
    try:
        F.faithful_try = True
        for fails in (False, True):
            outcome['fails'] = fails
            del warned[:]
            raised = out = None
            try:
                out = _call_function(F, fn, [obj], {'conf': conf}, 1)
            except _Raise as ex:
                raised = ex
            except _Abort as ex:
                ctx.require(False, f'cannot interpret {fn.qual}: {ex}')
            if fails:
                ctx.ob('C13.R1', 'nonfatal-route:returns-obj-on-failure', cm.where(fn.node),
                       'when decoration fails the object is returned as it was and nothing is raised', raised is None and out is obj,
                       f'evaluates to {out!r}' if raised is None else f'raises {raised}')
                ctx.ob('C13.R1', 'nonfatal-route:handler-warns-not-raises', cm.where(fn.node),
                       'one warning of the configured class is issued', warned == ['WarningClass'], f'warnings issued: {warned}')
            else:
                ctx.ob('C13.R1', 'nonfatal-route:returns-decorated-on-success', cm.where(fn.node),
                       'when decoration succeeds its result is returned and no warning is issued',
                       raised is None and isinstance(out, Inst) and out.cls == 'Checked' and not warned, f'evaluates to {out!r}; warnings {warned}')
    finally:
        F.faithful_try = False
        F.patch_global(CORE, 'issue_warning', old_iw)
        F.stubs.clear()
        F.stubs.update(saved)
        F.ext_stubs.clear()
        F.ext_stubs.update(saved_ext)
