"""C05 — the import hook preserves program meaning.

R1  the transformer only adds: every ``visit_*`` returns the visited node (once), possibly
    followed by freshly built nodes; original nodes are mutated only by decorator
    insertion and the one star-import insertion; fresh code binds only reserved names;
R2  every definition kind is visited, decorated and recursed; methods are not decorated
    (the class is); ``is_node_callable_typed`` consults every annotation position;
R3  location typestate: every constructed node reaches ``copy_node_metadata`` before it
    escapes; nothing else writes locations;
R4  the star import is inserted after the docstring / ``__future__`` prefix;
R5  annotated assignments: value ∧ option ∧ ¬class-scope ⇒ a check is appended, for every
    target kind of the grammar;
R6  decoration failures stay local (warning, not exception) under the hook;
R7  decorator placement is total over ``BeartypeDecorPlace`` and inserts exactly once.
"""
from __future__ import annotations

import ast

from sa.astutil import dotted, methods_of
from sa.flow import Flow, enumerate_paths, walk_shallow
from sa.fold import AObj, ClassVal, FuncVal, Sym, _Abort, _Raise, _call_function
from sa.repo import norm, qualname_of

MAIN = 'beartype.claw._ast.clawastmain'
MIXINS = [
    'beartype.claw._ast._kind.clawastassign', 'beartype.claw._ast._kind.clawastimport',
    'beartype.claw._ast._kind.clawastmodule', 'beartype.claw._ast._clawastutil',
    'beartype.claw._ast._pep.clawastpep695',
]
MAKE = 'beartype._util.ast.utilastmake'
AST_NODE_CLASSES = {n for n in dir(ast) if n[:1].isupper() and isinstance(getattr(ast, n), type)
                    and issubclass(getattr(ast, n), ast.AST)} | {'alias', 'keyword', 'arg', 'arguments'}


def _visitors(ctx):
    out = []
    for mn in [MAIN] + MIXINS:
        m = ctx.repo.mod(mn)
        for c in [n for n in m.tree.body if isinstance(n, ast.ClassDef)]:
            for name, fn in methods_of(c).items():
                out.append((m, c, fn))
            for st in c.body:
                if isinstance(st, ast.Assign) and isinstance(st.targets[0], ast.Name) and st.targets[0].id.startswith('visit_'):
                    out.append((m, c, st))
    return out


def run(ctx):
    repo = ctx.repo
    vis = _visitors(ctx)
    visit_defs = [(m, c, fn) for m, c, fn in vis if isinstance(fn, ast.FunctionDef) and
                  (fn.name.startswith('visit_') or fn.name == 'generic_visit')]
    ctx.require(len(visit_defs) >= 7, f'only {len(visit_defs)} visit_* methods found')

    # ---- R1 ----------------------------------------------------------------------
    ctx.rule('C05.R1', 'every return of every visit_* / generic_visit method is the visited node, '
             'self.generic_visit(node), or a list whose first element is that node followed only by other '
             '(freshly constructed) nodes; the original node is mutated only through decorator_list.insert/append '
             'and the one body slice insertion; names bound by generated statements are beartype-reserved')
    for m, c, fn in visit_defs:
        p = fn.args.args[1].arg if len(fn.args.args) > 1 else None
        ctx.require(p is not None, f'{m.relpath}: {fn.name} has no node parameter')
        aliases = {p}
        for a in walk_shallow(fn):
            if isinstance(a, ast.Assign) and len(a.targets) == 1 and isinstance(a.targets[0], ast.Name) \
                    and isinstance(a.value, ast.Call) and dotted(a.value.func) == 'self.generic_visit' \
                    and a.value.args and dotted(a.value.args[0]) in aliases:
                aliases.add(a.targets[0].id)
        rets = [r for r in walk_shallow(fn) if isinstance(r, ast.Return)]
        for r in rets:
            v = r.value
            ok, detail = False, f'returns {norm(v) if v is not None else None}'
            if v is None:
                ok = False
            elif isinstance(v, ast.Name) and v.id in aliases:
                ok = True
            elif isinstance(v, ast.Call) and dotted(v.func) == 'self.generic_visit' and v.args and dotted(v.args[0]) in aliases:
                ok = True
            elif isinstance(v, (ast.List, ast.Tuple)) and v.elts:
                first = dotted(v.elts[0]) in aliases
                rest_has_node = [norm(e) for e in v.elts[1:] if dotted(e) in aliases]
                ok = first and not rest_has_node
                if rest_has_node:
                    detail = f'the original statement occurs {1 + len(rest_has_node)} times in the returned list {norm(v)[:100]}'
            ctx.ob('C05.R1', f'{c.name}.{fn.name}:returns-original-once', m.where(r),
                   'the visitor returns the visited node exactly once (plus fresh nodes)', ok, detail)
        if not rets:
            ctx.ob('C05.R1', f'{c.name}.{fn.name}:returns-original-once', m.where(fn),
                   'the visitor returns the visited node', False, 'falls off the end (returns None: deletes the node)')
    # mutations of original nodes
    n_mut = 0
    for m, c, fn in vis:
        if not isinstance(fn, ast.FunctionDef):
            continue
        params = [a.arg for a in fn.args.args[1:]] + [a.arg for a in fn.args.kwonlyargs]
        nodes = {p for p in params if p.startswith('node')}
        for x in walk_shallow(fn):
            tgt = None
            if isinstance(x, (ast.Assign, ast.AugAssign, ast.AnnAssign, ast.Delete)):
                tgts = x.targets if isinstance(x, (ast.Assign, ast.Delete)) else [x.target]
                for t in tgts:
                    base = t
                    while isinstance(base, (ast.Attribute, ast.Subscript)):
                        base = base.value
                    if isinstance(base, ast.Name) and base.id in nodes and not isinstance(t, ast.Name):
                        n_mut += 1
                        ok = isinstance(t, ast.Subscript) and norm(t.value) == f'{base.id}.body' \
                            and isinstance(t.slice, ast.Slice) and norm(t.slice.upper) == '0' if isinstance(t, ast.Subscript) and isinstance(t.slice, ast.Slice) and t.slice.upper is not None else False
                        ctx.ob('C05.R1', f'{c.name}.{fn.name}:mutation:{norm(t)}', m.where(x),
                               'the only store into an original node is the star-import slice insertion '
                               'body[i:0] = (…)', ok, f'{norm(x)[:100]}')
            elif isinstance(x, ast.Call) and isinstance(x.func, ast.Attribute):
                base = x.func.value
                root = base
                while isinstance(root, (ast.Attribute, ast.Subscript)):
                    root = root.value
                if isinstance(root, ast.Name) and root.id in nodes and x.func.attr in (
                        'insert', 'append', 'extend', 'pop', 'remove', 'clear', 'sort', 'reverse', 'update', '__setitem__'):
                    n_mut += 1
                    ok = norm(base) == f'{root.id}.decorator_list' and x.func.attr in ('insert', 'append')
                    ctx.ob('C05.R1', f'{c.name}.{fn.name}:mutation:{norm(x.func)}', m.where(x),
                           'the only in-place mutation of an original node is decorator_list.insert/append', ok,
                           norm(x)[:100])
    ctx.floor('C05.R1', n_mut, 4, 'mutations of original nodes')
    # names bound by generated code
    for m, c, fn in vis:
        if not isinstance(fn, ast.FunctionDef):
            continue
        for x in walk_shallow(fn):
            if isinstance(x, ast.Call) and dotted(x.func) == 'make_node_name_store':
                nm = next((k.value for k in x.keywords if k.arg == 'name'), x.args[0] if x.args else None)
                val = ctx.folder.eval_in(m, nm) if nm is not None else None
                ok = isinstance(val, str) and val.startswith('__') and 'beartype' in val
                ctx.ob('C05.R1', f'{c.name}.{fn.name}:binds-name:{val if isinstance(val, str) else norm(nm)}', m.where(x),
                       'a name bound by generated code is beartype-reserved (cannot collide with a user name)', ok,
                       f'generated code assigns the user-visible name {val!r}')

    # ---- R2 ----------------------------------------------------------------------
    ctx.rule('C05.R2', 'visit_FunctionDef, visit_AsyncFunctionDef and visit_ClassDef exist, decorate and recurse '
             'through generic_visit; functions directly in class scope are not decorated; is_node_callable_typed '
             'consults returns, vararg, kwarg, args, kwonlyargs and posonlyargs')
    mm = repo.mod(MAIN)
    tcls = mm.defs.get('BeartypeNodeTransformer')
    ctx.require(isinstance(tcls, ast.ClassDef), 'anchor vanished: BeartypeNodeTransformer')
    meths = methods_of(tcls)
    aliases = {st.targets[0].id: dotted(st.value) for st in tcls.body
               if isinstance(st, ast.Assign) and isinstance(st.targets[0], ast.Name)}
    for kind in ('FunctionDef', 'AsyncFunctionDef', 'ClassDef'):
        name = f'visit_{kind}'
        fn = meths.get(name) or meths.get(aliases.get(name, ''))
        ok = fn is not None
        detail = 'no such visitor'
        if fn is not None:
            decor = any(isinstance(x, ast.Call) and dotted(x.func) == 'self._decorate_node_beartype' for x in walk_shallow(fn))
            rec = any(isinstance(x, ast.Call) and dotted(x.func) == 'self.generic_visit' for x in walk_shallow(fn))
            p = fn.args.args[1].arg if len(fn.args.args) > 1 else 'node'
            rec_names = {a.targets[0].id for a in walk_shallow(fn) if isinstance(a, ast.Assign) and len(a.targets) == 1
                         and isinstance(a.targets[0], ast.Name) and isinstance(a.value, ast.Call)
                         and dotted(a.value.func) == 'self.generic_visit'}
            if p in rec_names:
                # `node = self.generic_visit(node)`: the parameter itself carries the recursion only after that statement
                pass
            rets = [r for r in walk_shallow(fn) if isinstance(r, ast.Return)]
            unrec = [r for r in rets if not (
                (isinstance(r.value, ast.Call) and dotted(r.value.func) == 'self.generic_visit') or
                (isinstance(r.value, ast.Name) and r.value.id in rec_names))]
            rec = rec and not unrec
            ok = decor and rec
            detail = f'decorates: {decor}; recurses on every return: {rec}' + (
                f' (line {unrec[0].lineno} returns {norm(unrec[0].value) if unrec[0].value else None} without visiting the children)' if unrec else '')
        ctx.ob('C05.R2', f'visitor:{name}', mm.where(fn or tcls), f'{name} decorates and recurses', ok, detail)
    vf = meths.get('visit_FunctionDef')
    if vf is not None:
        guard = [norm(i.test) for i in walk_shallow(vf) if isinstance(i, ast.If)
                 and any(isinstance(x, ast.Call) and dotted(x.func) == 'self._decorate_node_beartype' for x in ast.walk(i))]
        ok = bool(guard) and 'not self._scopes.is_scope_class' in guard[0] and 'is_node_callable_typed(node)' in guard[0]
        ctx.ob('C05.R2', 'visit_FunctionDef:not-in-class-scope', mm.where(vf),
               'callables are decorated only outside class scope and only when annotated', ok, f'guard: {guard}')
    tm = repo.mod('beartype._util.ast.utilasttest')
    tf = tm.defs.get('is_node_callable_typed')
    ctx.require(tf is not None, 'anchor vanished: is_node_callable_typed')
    _typed_positions(ctx, tm, tf)

    # ---- R3 ----------------------------------------------------------------------
    _located(ctx)

    # ---- R4 ----------------------------------------------------------------------
    _module_prefix(ctx)

    # ---- R5 ----------------------------------------------------------------------
    _annassign(ctx)

    # ---- R6 ----------------------------------------------------------------------
    ctx.rule('C05.R6', 'under the hook a decoration failure is a warning, not an import failure: make_conf_hookable '
             'sets warning_cls_on_decorator_exception to BeartypeClawDecorWarning, and class decoration decorates '
             'each member through beartype_object (which applies that option)')
    pm = repo.mod('beartype.claw._package._clawpkgmake')
    hf = pm.defs.get('make_conf_hookable')
    ctx.require(hf is not None, 'anchor vanished: make_conf_hookable')
    _hookable(ctx, pm, hf)
    _dispatch_and_publication(ctx)
    tmod = repo.mod('beartype._decor._type.decortype')
    bt = tmod.defs.get('beartype_type')
    ctx.require(bt is not None, 'anchor vanished: beartype_type')
    calls = {dotted(c.func) for c in walk_shallow(bt) if isinstance(c, ast.Call)}
    ok = 'beartype_object' in calls and 'beartype_object_fatal' not in calls and 'beartype_func' not in calls
    ctx.ob('C05.R6', 'beartype_type:members-through-nonfatal-route', tmod.where(bt),
           'class members are decorated through beartype_object (non-fatal under the hook)', ok,
           f'calls: {sorted(x for x in calls if x and x.startswith("beartype_"))}')

    # ---- R7 ----------------------------------------------------------------------
    ctx.rule('C05.R7', 'the decorator-placement dispatch covers every BeartypeDecorPlace member and, on every path '
             'of every arm (including the decorator-hostile scan), inserts exactly one decorator')
    im = repo.mod('beartype.claw._ast._kind.clawastimport')
    dn = repo.find_def(im.name, 'BeartypeNodeTransformerImportMixin._decorate_node_beartype')
    enum = ctx.folder.const('beartype._conf.decorplace.confplaceenum', 'BeartypeDecorPlace')
    members = {k for k in enum.attrs if k.isupper()}
    tested = set()
    for i in walk_shallow(dn):
        if isinstance(i, ast.If):
            t = i.test
            if isinstance(t, ast.Compare) and isinstance(t.ops[0], ast.Is) and (dotted(t.comparators[0]) or '').startswith('BeartypeDecorPlace.'):
                tested.add(dotted(t.comparators[0]).split('.')[1])
    ctx.ob('C05.R7', 'placement:total', im.where(dn), 'every BeartypeDecorPlace member has an arm',
           members == tested and len(members) >= 3, f'members {sorted(members)}, arms {sorted(tested)}')

    def ev(node):
        out = []
        for x in ([node] if not isinstance(node, ast.stmt) else ast.walk(node)):
            if isinstance(x, ast.Call) and isinstance(x.func, ast.Attribute) and norm(x.func.value) == 'node.decorator_list' \
                    and x.func.attr in ('insert', 'append'):
                out.append('ins')
            if isinstance(x, ast.Call) and dotted(x.func) in helper_calls:
                out.append('helper')
        return out
    # helpers of the dispatch are found by role: methods of the same class that an arm of the dispatch calls
    # with the decorator node (whatever they are called)
    icls = repo.find_def(im.name, 'BeartypeNodeTransformerImportMixin')
    own = {f.name for f in icls.body if isinstance(f, ast.FunctionDef)}
    helper_calls = set()
    for c in walk_shallow(dn):
        if isinstance(c, ast.Call) and isinstance(c.func, ast.Attribute) and dotted(c.func.value) == 'self' and c.func.attr in own \
                and any(k.arg == 'node_beartype_decorator' or dotted(k.value) == 'node_beartype_decorator' for k in c.keywords):
            helper_calls.add(f'self.{c.func.attr}')
    for fname in ['_decorate_node_beartype'] + sorted(h.split('.', 1)[1] for h in helper_calls):
        fn = repo.find_def(im.name, f'BeartypeNodeTransformerImportMixin.{fname}')
        try:
            paths = enumerate_paths(fn.body, ev)
        except OverflowError:
            ctx.require(False, f'{fname}: too many paths')
        bad = [(e, s) for e, s in paths if s != 'raise' and len(e) != 1]
        role = 'dispatch' if fname == '_decorate_node_beartype' else 'decorator-hostile-helper'
        ctx.ob('C05.R7', f'placement:{role}:exactly-one-insertion', im.where(fn),
               f'every non-raising path of {fname} inserts the decorator exactly once ({len(paths)} paths)',
               not bad, f'a path performs {len(bad[0][0]) if bad else 0} insertions')


def _located(ctx):
    ctx.rule('C05.R3', 'typestate constructed → located: every ast node construction under beartype/claw/_ast and '
             'beartype/_util/ast/utilastmake.py reaches copy_node_metadata(node_trg=…) on every path before the '
             'function exits; only copy_node_metadata writes lineno / col_offset; fix_missing_locations / '
             'increment_lineno are never called')
    repo = ctx.repo
    mods = [mn for mn in repo.modules if mn.startswith('beartype.claw._ast')] + [MAKE]
    n = 0
    for mn in sorted(mods):
        m = repo.mod(mn)
        ast_names = {local for local, (sm, sn) in m.imports.items() if sm == 'ast' and sn in AST_NODE_CLASSES}
        for fn in [x for x in ast.walk(m.tree) if isinstance(x, (ast.FunctionDef, ast.AsyncFunctionDef))]:
            def is_ctor(e):
                return isinstance(e, ast.Call) and isinstance(e.func, ast.Name) and e.func.id in ast_names

            def ctor_in(e):
                return [x for x in ast.walk(e) if is_ctor(x)]

            def site_of(node):
                """(variable, value) when `node` binds a freshly constructed ast node to a local."""
                if isinstance(node, ast.Assign) and len(node.targets) == 1 and isinstance(node.targets[0], ast.Name) \
                        and ctor_in(node.value):
                    return node.targets[0].id, node.value
                if isinstance(node, ast.AnnAssign) and isinstance(node.target, ast.Name) and node.value is not None \
                        and ctor_in(node.value):
                    return node.target.id, node.value
                return None

            def located_by(node):
                out = []
                for c in ([node] if isinstance(node, ast.expr) else ast.walk(node)):
                    if isinstance(c, ast.Call) and dotted(c.func) == 'copy_node_metadata':
                        trg = next((k.value for k in c.keywords if k.arg == 'node_trg'), c.args[1] if len(c.args) > 1 else None)
                        for t in (trg.elts if isinstance(trg, (ast.Tuple, ast.List)) else [trg]):
                            if isinstance(t, ast.Name):
                                out.append(t.id)
                return out

            # typestate as a *may* analysis: the fact `unloc:v@line` means "on some path the node built
            # at that line and held by v has not been located yet"
            def gen(node):
                sv = site_of(node)
                return [f'unloc:{sv[0]}@{node.lineno}'] if sv else []
            live = set()

            def kill(node):
                vs = located_by(node)
                return [f for f in live if f.split(':', 1)[1].split('@')[0] in vs] if vs else []
            sites = [a for a in walk_shallow(fn) if site_of(a)]
            inline = [c for st in walk_shallow(fn) if isinstance(st, (ast.Return, ast.Expr)) and st.value is not None
                      for c in ctor_in(st.value)]
            if not sites and not inline:
                continue
            live.update(f'unloc:{site_of(a)[0]}@{a.lineno}' for a in sites)
            exits, rebound = [], []

            def on_stmt(node, st):
                sv = site_of(node)
                if sv:
                    rebound.extend((f, node) for f in st if f.startswith(f'unloc:{sv[0]}@'))
            Flow(gen, mode='may', kill=kill, on_stmt=on_stmt,
                 on_exit=lambda node, kind, st: exits.append((node, kind, st)) if kind != 'raise' else None).run(fn)
            for a in sites:
                v = site_of(a)[0]
                fact = f'unloc:{v}@{a.lineno}'
                n += 1
                missing = [e for e in exits if fact in e[2]]
                reb = [nd for f, nd in rebound if f == fact]
                detail = ''
                if missing:
                    detail = (f'the exit at line {getattr(missing[0][0], "lineno", "end")} is reachable without '
                              f'copy_node_metadata(node_trg={v}) after this construction')
                elif reb:
                    detail = f'{v} is rebound to a new node at line {reb[0].lineno} before this one was located'
                ctx.ob('C05.R3', f'{mn.split(".")[-1]}.{qualname_of(fn)}:{v}' + (f'#{[x for x in sites if site_of(x)[0] == v].index(a) + 1}'
                                                                              if len([x for x in sites if site_of(x)[0] == v]) > 1 else ''),
                       m.where(a), f'node {v} = {norm(site_of(a)[1])[:50]} is located on every path before the function exits',
                       not missing and not reb, detail)
            for c in inline:
                n += 1
                ctx.ob('C05.R3', f'{mn.split(".")[-1]}.{qualname_of(fn)}:inline:{norm(c)[:40]}', m.where(c),
                       'a node constructed inline in a return value is never located', False, norm(c)[:80])
    ctx.floor('C05.R3', n, 15, 'node constructions')
    # writers of locations
    for mn, m in sorted(repo.modules.items()):
        if not (mn.startswith('beartype.claw') or mn.startswith('beartype._util.ast')):
            continue
        for x in ast.walk(m.tree):
            if isinstance(x, ast.Attribute) and x.attr in ('lineno', 'col_offset', 'end_lineno', 'end_col_offset') \
                    and isinstance(x.ctx, ast.Store):
                from sa.repo import enclosing_function
                fn = enclosing_function(x)
                ctx.ob('C05.R3', f'location-writer:{mn.split(".")[-1]}.{getattr(fn, "name", "?")}:{x.attr}', m.where(x),
                       'only copy_node_metadata writes node locations', getattr(fn, 'name', '') == 'copy_node_metadata',
                       f'{norm(x)} is assigned in {getattr(fn, "name", "?")}')
            if isinstance(x, ast.Call) and (dotted(x.func) or '').split('.')[-1] in ('fix_missing_locations', 'increment_lineno'):
                ctx.ob('C05.R3', f'location-rewriter:{mn}', m.where(x), 'original line numbers are never rewritten',
                       False, norm(x)[:80])


class _ANode(AObj):
    def __init__(self, kind, **kw):
        self.kind = kind
        for k, v in kw.items():
            setattr(self, k, v)

    def __repr__(self):
        return f'<ast.{self.kind}>'


_EXPR_KINDS = {'Name', 'Attribute', 'Subscript', 'Call', 'Constant', 'Tuple', 'List', 'Starred', 'BinOp', 'NamedExpr'}


class _Scopes(AObj):
    """The transformer's stack of lexical scopes (only what visit_AnnAssign reads)."""

    def __getitem__(self, i):
        top = AObj()
        top.name = 'enclosing'
        return top


def _typed_positions(ctx, tm, tf):
    """is_node_callable_typed, interpreted on abstract callable nodes: one per annotation
    position (for list-valued positions: only the *second* parameter annotated), plus the
    unannotated callable."""
    from . import _gen
    F = _gen.engines(ctx)[0].f
    fn = F.const('beartype._util.ast.utilasttest', 'is_node_callable_typed')
    ctx.require(isinstance(fn, FuncVal), 'anchor vanished: is_node_callable_typed')
    hint = _ANode('Name', id='int')

    def node(pos):
        def arg(a):
            return _ANode('arg', arg='p', annotation=hint if a else None)
        a = _ANode('arguments', vararg=None, kwarg=None, args=[], kwonlyargs=[], posonlyargs=[], defaults=[], kw_defaults=[])
        n = _ANode('FunctionDef', name='f', returns=None, args=a, body=[], decorator_list=[])
        if pos == 'returns':
            n.returns = hint
        elif pos in ('vararg', 'kwarg'):
            setattr(a, pos, arg(True))
            setattr(a, 'kwarg' if pos == 'vararg' else 'vararg', arg(False))
        elif pos is not None:
            setattr(a, pos, [arg(False), arg(True)])
        return n
    for pos in ('returns', 'vararg', 'kwarg', 'args', 'kwonlyargs', 'posonlyargs', None):
        try:
            out = _call_function(F, fn, [node(pos)], {}, 1)
        except (_Abort, _Raise) as ex:
            ctx.require(False, f'cannot interpret is_node_callable_typed: {ex}')
        want = pos is not None
        ctx.ob('C05.R2', f'is_node_callable_typed:{pos or "unannotated"}', tm.where(tf),
               'a callable is typed iff some annotation position (return, *args, **kwargs, any flexible, '
               'keyword-only or positional-only parameter) is annotated', out is want,
               f'a callable whose only annotation is at `{pos}` is reported as typed={out!r}')


def _hookable(ctx, pm, hf):
    """make_conf_hookable, interpreted for both values of the "user set the warning class" flag."""
    from sa.fold import _PyCallable
    from sa.gen import AConf
    from . import _gen
    F = _gen.engines(ctx)[0].f
    fn = F.const('beartype.claw._package._clawpkgmake', 'make_conf_hookable')
    made = []

    def mkconf(*a, **kw):
        made.append(kw)
        return AConf(_made_from=kw)
    saved = dict(F.stubs)
    old = F.patch_global('beartype._conf.confmain', 'BeartypeConf', _PyCallable(mkconf))
    F.stubs['beartype._conf.conftest.die_unless_conf'] = lambda e, a, k: None
    try:
        for isset in (False, True):
            conf = AConf(_is_warning_cls_on_decorator_exception_set=isset)
            conf.kwargs = {'is_debug': False, 'claw_is_pep526': True, 'warning_cls_on_decorator_exception': None}
            del made[:]
            try:
                out = _call_function(F, fn, [conf], {}, 1)
            except (_Abort, _Raise) as ex:
                ctx.require(False, f'cannot interpret make_conf_hookable: {ex}')
            if isset:
                ok = out is conf
                detail = f'returns {out!r} (configurations built: {len(made)})'
            else:
                kw = made[-1] if made else {}
                w = kw.get('warning_cls_on_decorator_exception')
                rest = {k: v for k, v in kw.items() if k != 'warning_cls_on_decorator_exception'}
                ok = len(made) == 1 and getattr(out, '_made_from', None) is kw and getattr(w, 'name', None) == 'BeartypeClawDecorWarning' \
                    and rest == {'is_debug': False, 'claw_is_pep526': True} and conf.kwargs['warning_cls_on_decorator_exception'] is None
                detail = f'returns {out!r}; built with warning class {w!r}, other options {rest}'
            ctx.ob('C05.R6', f'make_conf_hookable:warning-class:user-set={isset}', pm.where(hf),
                   'a configuration whose warning class the user did not set is replaced by an otherwise equal one '
                   'reporting decoration failures as BeartypeClawDecorWarning (the caller\'s kwargs untouched); a '
                   'user-set class is respected', ok, detail)
    finally:
        F.patch_global('beartype._conf.confmain', 'BeartypeConf', old)
        F.stubs.clear()
        F.stubs.update(saved)


def _route_selection(ctx, RULE):
    """Route selection of beartype_object, interpreted for {warning class set / unset} × {cls_stack absent / None / non-empty}."""
    from sa.gen import AConf
    from . import _gen
    repo = ctx.repo
    F = _gen.engines(ctx)[0].f
    cm = repo.mod('beartype._decor.decorcore')
    fn = F.const('beartype._decor.decorcore', 'beartype_object')
    ctx.require(isinstance(fn, FuncVal), 'anchor vanished: beartype_object')
    saved = dict(F.stubs)
    route = []
    F.stubs['beartype._decor.decorcore._beartype_object_fatal'] = lambda e, a, k: route.append('fatal') or 'result'
    F.stubs['beartype._decor.decorcore._beartype_object_nonfatal'] = lambda e, a, k: route.append('nonfatal') or 'result'
    try:
        for wcls in (None, 'W'):
            for stack in ('absent', 'None', 'non-empty'):
                kw = {} if stack == 'absent' else {'cls_stack': None if stack == 'None' else ('C',)}
                del route[:]
                try:
                    _call_function(F, fn, ['obj'], dict(conf=AConf(warning_cls_on_decorator_exception=wcls), **kw), 1)
                except (_Abort, _Raise) as ex:
                    ctx.require(False, f'cannot interpret beartype_object: {ex}')
                want = ['fatal'] if wcls is None else ['nonfatal']
                ctx.ob(RULE, f'beartype_object:route:warning-class-set={wcls is not None}:cls_stack={stack}', cm.where(fn.node),
                       'a decoration failure is reported as a warning exactly when the configuration names a warning '
                       'class — for module-level objects and for members of a class being decorated alike', route == want,
                       f'route taken: {route}; with such a configuration a failing method aborts the decoration of '
                       f'the remaining members of its class' if wcls is not None else f'route taken: {route}')
    finally:
        F.stubs.clear()
        F.stubs.update(saved)


def _module_prefix(ctx):
    """R4 by interpretation: visit_Module over abstract module bodies."""
    from . import _gen
    repo = ctx.repo
    ctx.rule('C05.R4', 'visit_Module, interpreted over abstract module bodies (every prefix of 0–3 statements drawn from '
             '{docstring expression, from __future__ import}, followed by nothing, by an ordinary statement, or by an '
             'ordinary statement and a late docstring-like expression): the star import is inserted exactly after the '
             'maximal preamble, nothing is removed or reordered, and a module consisting only of a preamble is unchanged')
    F = _gen.engines(ctx)[0].f
    cls = F.const('beartype.claw._ast._kind.clawastmodule', 'BeartypeNodeTransformerModuleMixin')
    fn = cls.find('visit_Module')
    ctx.require(isinstance(fn, FuncVal), 'anchor vanished: visit_Module')
    mod = repo.mod('beartype.claw._ast._kind.clawastmodule')
    saved_stubs, saved_inst = dict(F.stubs), F.isinstance_hook

    def inst(obj, c):
        if isinstance(obj, _ANode):
            nm = getattr(c, 'name', repr(c)).split('.')[-1]
            return nm == obj.kind or (nm == 'AST')
        return saved_inst(obj, c) if saved_inst else None
    F.isinstance_hook = inst
    F.stubs['beartype._util.ast.utilastmake.make_node_importfrom'] = \
        lambda e, a, k: _ANode('ImportFrom', module=k.get('module_name'), injected=True, sibling=k.get('node_sibling'))

    class _Self(AObj):
        pass
    doc = lambda: _ANode('Expr', value=_ANode('Constant', value='doc'))
    fut = lambda: _ANode('ImportFrom', module='__future__')
    stmt = lambda: _ANode('Assign', value=_ANode('Constant', value=1))
    late = lambda: _ANode('Expr', value=_ANode('Constant', value='not a docstring'))
    imp = lambda: _ANode('ImportFrom', module='os')
    n = 0
    agg = {}
    try:
        import itertools
        prefixes = [()] + [p_ for k in (1, 2, 3) for p_ in itertools.product((doc, fut), repeat=k)]
        tails = {'nothing': (), 'statement': (stmt,), 'ordinary-import-first': (imp, stmt), 'statement-then-late-expression': (stmt, late, fut)}
        for pre in prefixes:
            for tname, tail in tails.items():
                body = [mk() for mk in pre] + [mk() for mk in tail]
                orig = list(body)
                node = _ANode('Module', body=body)
                s_ = _Self()
                s_.generic_visit = lambda node_: node_
                try:
                    out = _call_function(F, fn, [s_, node], {}, 1)
                except (_Abort, _Raise) as ex:
                    ctx.require(False, f'cannot interpret visit_Module: {ex}')
                n += 1
                got = out.body if isinstance(out, _ANode) else None
                k = len(pre)
                want_inserted = bool(tail)
                ok = got is not None and [x for x in got if not getattr(x, 'injected', False)] == orig and (
                    (not want_inserted and len(got) == len(orig)) or
                    (want_inserted and len(got) == len(orig) + 1 and getattr(got[k], 'injected', False)))
                key = 'preamble-only-module-unchanged' if not tail else 'import-inserted-right-after-the-preamble'
                a_ = agg.setdefault(key, [0, None])
                a_[0] += 1
                if not ok and a_[1] is None:
                    a_[1] = (f'body [{", ".join(x.kind + (":" + str(getattr(x, "module", "")) if x.kind == "ImportFrom" else "") for x in orig)}] '
                             f'({len(pre)} preamble statements) becomes '
                             f'[{", ".join(("<beartype import>" if getattr(x, "injected", False) else x.kind) for x in (got or []))}]')
    finally:
        F.stubs.clear()
        F.stubs.update(saved_stubs)
        F.isinstance_hook = saved_inst
    for key in ('import-inserted-right-after-the-preamble', 'preamble-only-module-unchanged'):
        cnt, why = agg.get(key, [0, 'no body of this class was evaluated'])
        ctx.ob('C05.R4', f'visit_Module:{key}', mod.where(fn.node), f'{key} ({cnt} abstract module bodies)', why is None and cnt > 0, why or '')
    ctx.floor('C05.R4', n, 50, 'abstract module bodies')


def _dispatch_and_publication(ctx):
    """R6 (route selection of beartype_object) and R8 (the configuration a module is transformed
    with is the configuration its injected code finds at run time)."""
    repo = ctx.repo
    _route_selection(ctx, 'C05.R6')

    ctx.rule('C05.R8', 'one configuration per transformed module: BeartypeSourceFileLoader.get_code, interpreted over {module '
             'name excluded or not} × {configuration registered or not} × {the standard loader returns / raises} with a '
             'stale run-time table entry present — when the standard loader compiles a hooked module the looked-up '
             'configuration is on the loader (self._module_conf, what source_to_code hands to the transformer), the '
             'module name is on the loader, and the run-time table maps the module name to that same configuration '
             '(what the injected code looks up); a module that is not hooked publishes nothing; source_to_code passes '
             'exactly those two attributes to the transformer')
    lm = repo.mod('beartype.claw._importlib._clawimpfileloader')
    from .c16 import loader_protocol
    loader_protocol(ctx, None, 'C05.R8')
    sc = repo.find_def(lm.name, 'BeartypeSourceFileLoader.source_to_code')
    tc = [c for c in walk_shallow(sc) if isinstance(c, ast.Call) and dotted(c.func) == 'BeartypeNodeTransformer']
    kw = {k.arg: norm(k.value) for c in tc for k in c.keywords}
    ctx.ob('C05.R8', 'source_to_code:transformer-gets-published-conf', lm.where(sc),
           'the transformer is built from self._module_name and self._module_conf', len(tc) == 1 and
           kw == {'module_name': 'self._module_name', 'conf': 'self._module_conf'}, f'{kw}')
    um = repo.mod('beartype.claw._ast._clawastutil')
    kc = repo.find_def(um.name, 'BeartypeNodeTransformerUtilityMixin._make_node_keyword_conf')
    txt = [norm(k.value) for c in walk_shallow(kc) if isinstance(c, ast.Call) and dotted(c.func) == 'make_node_str' for k in c.keywords if k.arg == 'text']
    attr = [norm(k.value) for c in walk_shallow(kc) if isinstance(c, ast.Call) and dotted(c.func) == 'make_node_object_attr_load'
            for k in c.keywords if k.arg == 'attr_name']
    ctx.ob('C05.R8', 'injected-lookup:same-table-same-key', um.where(kc),
           'injected code reads module_name_to_beartype_conf[<module name>]', txt == ['self._module_name'] and
           attr == ["'module_name_to_beartype_conf'"], f'key {txt}, table {attr}')


def _annassign(ctx):
    ctx.rule('C05.R5', 'exhaustive over target kind ∈ {Name, Attribute (parent a Name / Attribute / Subscript / Call), Subscript} × claw_is_pep526 × has-value × '
             'class-scope, by interpreting visit_AnnAssign on abstract nodes: value ∧ option ∧ ¬class-scope ⇒ the '
             'result is [node, <die_if_unbearable call>]; otherwise the node is returned unchanged')
    from sa.gen import AConf
    from . import _gen
    G = _gen.engines(ctx)[0]
    F = G.f
    cls = F.const('beartype.claw._ast._kind.clawastassign', 'BeartypeNodeTransformerAssignMixin')
    fn = cls.find('visit_AnnAssign')
    ctx.require(isinstance(fn, FuncVal), 'anchor vanished: visit_AnnAssign')
    raiser = F.const('beartype._data.claw.dataclawmagic', 'BEARTYPE_RAISER_FUNC_NAME')
    saved_stubs, saved_inst, saved_ext = dict(F.stubs), F.isinstance_hook, dict(F.ext_stubs)

    def inst(obj, c):
        if isinstance(obj, _ANode):
            nm = getattr(c, 'name', repr(c)).split('.')[-1]
            return nm == obj.kind or nm in ('AST', 'expr' if obj.kind in _EXPR_KINDS else 'stmt')
        return saved_inst(obj, c) if saved_inst else None
    F.isinstance_hook = inst
    mk = 'beartype._util.ast.utilastmake.'
    made = []
    # nodes built directly with the ast constructors (rather than through the utilastmake helpers)
    for K in _EXPR_KINDS | {'Expr', 'keyword'}:
        F.ext_stubs[f'ast.{K}'] = (lambda K: lambda e, a, k: made.append(_ANode(K, made_with=dict(k), args=list(a), **k)) or made[-1])(K)

    def maker(kind):
        def f(env, a, k):
            n = _ANode(kind, made_with=dict(k), args=list(a))
            made.append(n)
            return n
        return f
    for nm, kind in (('make_node_name_load', 'Name'), ('make_node_object_attr_load', 'Attribute'), ('make_node_str', 'Constant'),
                     ('make_node_kwarg', 'keyword'), ('make_node_call_expr', 'ExprCall'), ('make_node_call', 'Call')):
        F.stubs[mk + nm] = maker(kind)
    F.ext_stubs['ast.unparse'] = lambda e, a, k: 'obj'
    F.stubs['beartype._util.text.utiltextansi.color_attr_name'] = lambda e, a, k: 'name'
    F.stubs['beartype._util.ast.utilastmunge.copy_node_metadata'] = lambda e, a, k: None
    from sa.fold import BoundMethod

    class _Self(AObj):
        """Abstract transformer instance: explicit attributes first, then the methods of the real mixin class."""

        def __getattr__(self, name):
            f_ = cls.find(name)
            if isinstance(f_, FuncVal):
                return BoundMethod(self, f_)
            raise AttributeError(name)
    n = 0
    try:
        # target kinds of the grammar; an attribute target is taken with every kind of parent expression
        for tkind in ('Name', 'Attribute', 'Attribute(of Attribute)', 'Attribute(of Subscript)', 'Attribute(of Call)', 'Subscript'):
            for opt in (True, False):
                for has_value in (True, False):
                    for cls_scope in (True, False):
                        n += 1
                        s = _Self()
                        s._conf = AConf(claw_is_pep526=opt)
                        s._module_name = 'pkg.mod'
                        sc = _Scopes()
                        sc.is_scope_class, sc.is_scope_module = cls_scope, not cls_scope
                        s._scopes = sc
                        s.generic_visit = lambda node: node
                        s.map_node_attr_imported_to_assigned = lambda **k: None
                        s._make_node_keyword_conf = lambda **k: _ANode('keyword')
                        pk = tkind[len('Attribute(of '):-1] if '(' in tkind else 'Name'
                        par = _ANode(pk, id='o', attr='b', value=_ANode('Name', id='p'), slice=_ANode('Constant'),
                                     func=_ANode('Name', id='f'), args=[], keywords=[])
                        tgt = _ANode(tkind.split('(')[0], id='v', attr='a', value=par, slice=_ANode('Constant'))
                        node = _ANode('AnnAssign', target=tgt, annotation=_ANode('Name', id='int'),
                                      value=_ANode('Constant') if has_value else None)
                        del made[:]
                        try:
                            out = _call_function(F, fn, [s, node], {}, 1)
                        except (_Abort, _Raise) as ex:
                            ctx.require(False, f'cannot interpret visit_AnnAssign({tkind}): {ex}')
                        want_check = opt and has_value and not cls_scope
                        if want_check:
                            ok = isinstance(out, (list, tuple)) and len(out) == 2 and out[0] is node and isinstance(out[1], _ANode) \
                                and out[1].kind == 'ExprCall' and out[1].made_with.get('func_name') == raiser
                            detail = f'returns {out!r}: the statement is left unchecked'
                        else:
                            ok = out is node
                            detail = f'returns {out!r}'
                        ctx.ob('C05.R5', f'annassign:{tkind}:pep526={opt}:value={has_value}:class_scope={cls_scope}',
                               'beartype/claw/_ast/_kind/clawastassign.py:0',
                               'a check is appended exactly when the assignment has a value, the option is on and '
                               'the scope is not a class body', ok, detail)
    finally:
        F.stubs.clear()
        F.stubs.update(saved_stubs)
        F.isinstance_hook = saved_inst
        F.ext_stubs.clear()
        F.ext_stubs.update(saved_ext)
    ctx.floor('C05.R5', n, 48, 'target kind × option × value × scope cases')
