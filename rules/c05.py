"""C05 — the import hook preserves program meaning.

R1  the transformer only adds: every ``visit_*`` returns the visited node (once), possibly
    followed by freshly built nodes; original nodes are mutated only by decorator
    insertion and the one star-import insertion; fresh code binds only reserved names;
R2  every definition kind is visited, decorated and recursed; methods are not decorated
    (the class is); ``is_node_callable_typed`` consults every annotation position;
R3  location typestate: every constructed node reaches ``copy_node_metadata`` before it
    escapes; nothing else writes locations;
R4  the star import is inserted after the docstring / ``__future__`` prefix;
R5  annotated assignments: value ∧ option ∧ ¬class-scope ⇒ a check is appended, for every
    target kind of the grammar;
R6  decoration failures stay local (warning, not exception) under the hook;
R7  decorator placement is total over ``BeartypeDecorPlace`` and inserts exactly once.
"""
from __future__ import annotations

import ast

from sa.astutil import dotted, methods_of
from sa.flow import Flow, enumerate_paths, walk_shallow
from sa.fold import AObj, ClassVal, FuncVal, Sym, _Abort, _Raise, _call_function
from sa.repo import norm, parent, qualname_of

MAIN = 'beartype.claw._ast.clawastmain'
MIXINS = [
    'beartype.claw._ast._kind.clawastassign', 'beartype.claw._ast._kind.clawastimport',
    'beartype.claw._ast._kind.clawastmodule', 'beartype.claw._ast._clawastutil',
    'beartype.claw._ast._pep.clawastpep695',
]
MAKE = 'beartype._util.ast.utilastmake'
AST_NODE_CLASSES = {n for n in dir(ast) if n[:1].isupper() and isinstance(getattr(ast, n), type)
                    and issubclass(getattr(ast, n), ast.AST)} | {'alias', 'keyword', 'arg', 'arguments'}


def _visitors(ctx):
    out = []
    for mn in [MAIN] + MIXINS:
        m = ctx.repo.mod(mn)
        for c in [n for n in m.tree.body if isinstance(n, ast.ClassDef)]:
            for name, fn in methods_of(c).items():
                out.append((m, c, fn))
            for st in c.body:
                if isinstance(st, ast.Assign) and isinstance(st.targets[0], ast.Name) and st.targets[0].id.startswith('visit_'):
                    out.append((m, c, st))
    return out


def run(ctx):
    repo = ctx.repo
    vis = _visitors(ctx)
    visit_defs = [(m, c, fn) for m, c, fn in vis if isinstance(fn, ast.FunctionDef) and
                  (fn.name.startswith('visit_') or fn.name == 'generic_visit')]
    ctx.require(len(visit_defs) >= 7, f'only {len(visit_defs)} visit_* methods found')

    # ---- R1 ----------------------------------------------------------------------
    ctx.rule('C05.R1', 'every return of every visit_* / generic_visit method is the visited node, '
             'self.generic_visit(node), or a list whose first element is that node followed only by other '
             '(freshly constructed) nodes; the original node is mutated only through decorator_list.insert/append '
             'and the one body slice insertion; names bound by generated statements are beartype-reserved')
    for m, c, fn in visit_defs:
        p = fn.args.args[1].arg if len(fn.args.args) > 1 else None
        ctx.require(p is not None, f'{m.relpath}: {fn.name} has no node parameter')
        aliases = {p}
        for a in walk_shallow(fn):
            if isinstance(a, ast.Assign) and len(a.targets) == 1 and isinstance(a.targets[0], ast.Name) \
                    and isinstance(a.value, ast.Call) and dotted(a.value.func) == 'self.generic_visit' \
                    and a.value.args and dotted(a.value.args[0]) in aliases:
                aliases.add(a.targets[0].id)
        rets = [r for r in walk_shallow(fn) if isinstance(r, ast.Return)]
        for r in rets:
            v = r.value
            ok, detail = False, f'returns {norm(v) if v is not None else None}'
            if v is None:
                ok = False
            elif isinstance(v, ast.Name) and v.id in aliases:
                ok = True
            elif isinstance(v, ast.Call) and dotted(v.func) == 'self.generic_visit' and v.args and dotted(v.args[0]) in aliases:
                ok = True
            elif isinstance(v, (ast.List, ast.Tuple)) and v.elts:
                first = dotted(v.elts[0]) in aliases
                rest_has_node = [norm(e) for e in v.elts[1:] if dotted(e) in aliases]
                ok = first and not rest_has_node
                if rest_has_node:
                    detail = f'the original statement occurs {1 + len(rest_has_node)} times in the returned list {norm(v)[:100]}'
            ctx.ob('C05.R1', f'{c.name}.{fn.name}:returns-original-once', m.where(r),
                   'the visitor returns the visited node exactly once (plus fresh nodes)', ok, detail)
        if not rets:
            ctx.ob('C05.R1', f'{c.name}.{fn.name}:returns-original-once', m.where(fn),
                   'the visitor returns the visited node', False, 'falls off the end (returns None: deletes the node)')
    # mutations of original nodes
    n_mut = 0
    for m, c, fn in vis:
        if not isinstance(fn, ast.FunctionDef):
            continue
        params = [a.arg for a in fn.args.args[1:]] + [a.arg for a in fn.args.kwonlyargs]
        nodes = {p for p in params if p.startswith('node')}
        for x in walk_shallow(fn):
            tgt = None
            if isinstance(x, (ast.Assign, ast.AugAssign, ast.AnnAssign, ast.Delete)):
                tgts = x.targets if isinstance(x, (ast.Assign, ast.Delete)) else [x.target]
                for t in tgts:
                    base = t
                    while isinstance(base, (ast.Attribute, ast.Subscript)):
                        base = base.value
                    if isinstance(base, ast.Name) and base.id in nodes and not isinstance(t, ast.Name):
                        n_mut += 1
                        ok = isinstance(t, ast.Subscript) and norm(t.value) == f'{base.id}.body' \
                            and isinstance(t.slice, ast.Slice) and norm(t.slice.upper) == '0' if isinstance(t, ast.Subscript) and isinstance(t.slice, ast.Slice) and t.slice.upper is not None else False
                        ctx.ob('C05.R1', f'{c.name}.{fn.name}:mutation:{norm(t)}', m.where(x),
                               'the only store into an original node is the star-import slice insertion '
                               'body[i:0] = (…)', ok, f'{norm(x)[:100]}')
            elif isinstance(x, ast.Call) and isinstance(x.func, ast.Attribute):
                base = x.func.value
                root = base
                while isinstance(root, (ast.Attribute, ast.Subscript)):
                    root = root.value
                if isinstance(root, ast.Name) and root.id in nodes and x.func.attr in (
                        'insert', 'append', 'extend', 'pop', 'remove', 'clear', 'sort', 'reverse', 'update', '__setitem__'):
                    n_mut += 1
                    ok = norm(base) == f'{root.id}.decorator_list' and x.func.attr in ('insert', 'append')
                    ctx.ob('C05.R1', f'{c.name}.{fn.name}:mutation:{norm(x.func)}', m.where(x),
                           'the only in-place mutation of an original node is decorator_list.insert/append', ok,
                           norm(x)[:100])
    ctx.floor('C05.R1', n_mut, 4, 'mutations of original nodes')
    # names bound by generated code
    for m, c, fn in vis:
        if not isinstance(fn, ast.FunctionDef):
            continue
        for x in walk_shallow(fn):
            if isinstance(x, ast.Call) and dotted(x.func) == 'make_node_name_store':
                nm = next((k.value for k in x.keywords if k.arg == 'name'), x.args[0] if x.args else None)
                val = ctx.folder.eval_in(m, nm) if nm is not None else None
                ok = isinstance(val, str) and val.startswith('__') and 'beartype' in val
                ctx.ob('C05.R1', f'{c.name}.{fn.name}:binds-name:{val if isinstance(val, str) else norm(nm)}', m.where(x),
                       'a name bound by generated code is beartype-reserved (cannot collide with a user name)', ok,
                       f'generated code assigns the user-visible name {val!r}')

    # ---- R2 ----------------------------------------------------------------------
    ctx.rule('C05.R2', 'visit_FunctionDef, visit_AsyncFunctionDef and visit_ClassDef exist, decorate and recurse '
             'through generic_visit; functions directly in class scope are not decorated; is_node_callable_typed '
             'consults returns, vararg, kwarg, args, kwonlyargs and posonlyargs')
    mm = repo.mod(MAIN)
    tcls = mm.defs.get('BeartypeNodeTransformer')
    ctx.require(isinstance(tcls, ast.ClassDef), 'anchor vanished: BeartypeNodeTransformer')
    meths = methods_of(tcls)
    aliases = {st.targets[0].id: dotted(st.value) for st in tcls.body
               if isinstance(st, ast.Assign) and isinstance(st.targets[0], ast.Name)}
    for kind in ('FunctionDef', 'AsyncFunctionDef', 'ClassDef'):
        name = f'visit_{kind}'
        fn = meths.get(name) or meths.get(aliases.get(name, ''))
        ok = fn is not None
        detail = 'no such visitor'
        if fn is not None:
            decor = any(isinstance(x, ast.Call) and dotted(x.func) == 'self._decorate_node_beartype' for x in walk_shallow(fn))
            rec = any(isinstance(x, ast.Call) and dotted(x.func) == 'self.generic_visit' for x in walk_shallow(fn))
            p = fn.args.args[1].arg if len(fn.args.args) > 1 else 'node'
            rec_names = {a.targets[0].id for a in walk_shallow(fn) if isinstance(a, ast.Assign) and len(a.targets) == 1
                         and isinstance(a.targets[0], ast.Name) and isinstance(a.value, ast.Call)
                         and dotted(a.value.func) == 'self.generic_visit'}
            if p in rec_names:
                # `node = self.generic_visit(node)`: the parameter itself carries the recursion only after that statement
                pass
            rets = [r for r in walk_shallow(fn) if isinstance(r, ast.Return)]
            unrec = [r for r in rets if not (
                (isinstance(r.value, ast.Call) and dotted(r.value.func) == 'self.generic_visit') or
                (isinstance(r.value, ast.Name) and r.value.id in rec_names))]
            rec = rec and not unrec
            ok = decor and rec
            detail = f'decorates: {decor}; recurses on every return: {rec}' + (
                f' (line {unrec[0].lineno} returns {norm(unrec[0].value) if unrec[0].value else None} without visiting the children)' if unrec else '')
        ctx.ob('C05.R2', f'visitor:{name}', mm.where(fn or tcls), f'{name} decorates and recurses', ok, detail)
    vc = meths.get('visit_ClassDef') or meths.get(aliases.get('visit_ClassDef', ''))
    if vc is not None:
        decs = [x for x in walk_shallow(vc) if isinstance(x, ast.Call) and dotted(x.func) == 'self._decorate_node_beartype']
        cond = []
        for x in decs:
            p_ = parent(x)
            while p_ is not None and p_ is not vc:
                if isinstance(p_, (ast.If, ast.IfExp, ast.BoolOp, ast.While, ast.Try)):
                    cond.append(p_)
                p_ = parent(p_)
        ctx.ob('C05.R2', 'visit_ClassDef:every-scope', mm.where(cond[0] if cond else vc),
               'classes are decorated at every scope — module, function and class body alike (a class nested in a class body is '
               'used while the enclosing body still runs, before the enclosing class\'s own decorator could reach it)',
               bool(decs) and not cond, f'decoration is conditional on `{norm(getattr(cond[0], "test", cond[0]))[:80]}`' if cond else 'no decoration')
    vf = meths.get('visit_FunctionDef')
    if vf is not None:
        guard = [norm(i.test) for i in walk_shallow(vf) if isinstance(i, ast.If)
                 and any(isinstance(x, ast.Call) and dotted(x.func) == 'self._decorate_node_beartype' for x in ast.walk(i))]
        ok = bool(guard) and 'not self._scopes.is_scope_class' in guard[0] and 'is_node_callable_typed(node)' in guard[0]
        ctx.ob('C05.R2', 'visit_FunctionDef:not-in-class-scope', mm.where(vf),
               'callables are decorated only outside class scope and only when annotated', ok, f'guard: {guard}')
    tm = repo.mod('beartype._util.ast.utilasttest')
    tf = tm.defs.get('is_node_callable_typed')
    ctx.require(tf is not None, 'anchor vanished: is_node_callable_typed')
    _typed_positions(ctx, tm, tf)

    # ---- R3 ----------------------------------------------------------------------
    _located(ctx)
    _helpers_locate_fresh_only(ctx, 'C05.R3')

    # ---- R4 ----------------------------------------------------------------------
    _module_prefix(ctx)

    # ---- R5 ----------------------------------------------------------------------
    _annassign(ctx)

    # ---- R6 ----------------------------------------------------------------------
    ctx.rule('C05.R6', 'under the hook a decoration failure is a warning, not an import failure: make_conf_hookable '
             'sets warning_cls_on_decorator_exception to BeartypeClawDecorWarning, and class decoration decorates '
             'each member through beartype_object (which applies that option)')
    pm = repo.mod('beartype.claw._package._clawpkgmake')
    hf = pm.defs.get('make_conf_hookable')
    ctx.require(hf is not None, 'anchor vanished: make_conf_hookable')
    _hookable(ctx, pm, hf)
    _dispatch_and_publication(ctx)
    tmod = repo.mod('beartype._decor._type.decortype')
    bt = tmod.defs.get('beartype_type')
    ctx.require(bt is not None, 'anchor vanished: beartype_type')
    calls = {dotted(c.func) for c in walk_shallow(bt) if isinstance(c, ast.Call)}
    ok = 'beartype_object' in calls and 'beartype_object_fatal' not in calls and 'beartype_func' not in calls
    ctx.ob('C05.R6', 'beartype_type:members-through-nonfatal-route', tmod.where(bt),
           'class members are decorated through beartype_object (non-fatal under the hook)', ok,
           f'calls: {sorted(x for x in calls if x and x.startswith("beartype_"))}')

    # ---- R7 ----------------------------------------------------------------------
    ctx.rule('C05.R7', 'decorator placement: the dispatch covers every BeartypeDecorPlace member; and, interpreted over {def, '
             'async def, class} × (position for classes, position for callables) × existing decorator lists (none, plain, '
             'decorator-hostile leading / trailing) × {default, other configuration}: exactly one decorator is inserted — '
             'for a class where claw_decor_place_type says, for a (coroutine) function where claw_decor_place_func says: '
             'FIRST = innermost, LAST = outermost, LAST_BEFORE_DECOR_HOSTILE = below the leading decorator-hostile '
             'decorators — a bare name under the default configuration, a call carrying the configuration otherwise; '
             'existing decorators keep their order')
    im = repo.mod('beartype.claw._ast._kind.clawastimport')
    dn = repo.find_def(im.name, 'BeartypeNodeTransformerImportMixin._decorate_node_beartype')
    enum = ctx.folder.const('beartype._conf.decorplace.confplaceenum', 'BeartypeDecorPlace')
    members = {k for k in enum.attrs if k.isupper()}
    tested = set()
    for i in walk_shallow(dn):
        if isinstance(i, ast.If):
            t = i.test
            if isinstance(t, ast.Compare) and isinstance(t.ops[0], ast.Is) and (dotted(t.comparators[0]) or '').startswith('BeartypeDecorPlace.'):
                tested.add(dotted(t.comparators[0]).split('.')[1])
    ctx.ob('C05.R7', 'placement:total', im.where(dn), 'every BeartypeDecorPlace member has an arm',
           members == tested and len(members) >= 3, f'members {sorted(members)}, arms {sorted(tested)}')

    _placement(ctx)


def _located(ctx):
    ctx.rule('C05.R3', 'typestate constructed → located: every ast node construction under beartype/claw/_ast and '
             'beartype/_util/ast/utilastmake.py reaches copy_node_metadata(node_trg=…) on every path before the '
             'function exits; only copy_node_metadata writes lineno / col_offset; fix_missing_locations / '
             'increment_lineno are never called')
    repo = ctx.repo
    mods = [mn for mn in repo.modules if mn.startswith('beartype.claw._ast')] + [MAKE]
    n = 0
    for mn in sorted(mods):
        m = repo.mod(mn)
        ast_names = {local for local, (sm, sn) in m.imports.items() if sm == 'ast' and sn in AST_NODE_CLASSES}
        for fn in [x for x in ast.walk(m.tree) if isinstance(x, (ast.FunctionDef, ast.AsyncFunctionDef))]:
            def is_ctor(e):
                return isinstance(e, ast.Call) and isinstance(e.func, ast.Name) and e.func.id in ast_names

            def ctor_in(e):
                return [x for x in ast.walk(e) if is_ctor(x)]

            def site_of(node):
                """(variable, value) when `node` binds a freshly constructed ast node to a local."""
                if isinstance(node, ast.Assign) and len(node.targets) == 1 and isinstance(node.targets[0], ast.Name) \
                        and ctor_in(node.value):
                    return node.targets[0].id, node.value
                if isinstance(node, ast.AnnAssign) and isinstance(node.target, ast.Name) and node.value is not None \
                        and ctor_in(node.value):
                    return node.target.id, node.value
                return None

            def located_by(node):
                out = []
                for c in ([node] if isinstance(node, ast.expr) else ast.walk(node)):
                    if isinstance(c, ast.Call) and dotted(c.func) == 'copy_node_metadata':
                        trg = next((k.value for k in c.keywords if k.arg == 'node_trg'), c.args[1] if len(c.args) > 1 else None)
                        for t in (trg.elts if isinstance(trg, (ast.Tuple, ast.List)) else [trg]):
                            if isinstance(t, ast.Name):
                                out.append(t.id)
                return out

            # typestate as a *may* analysis: the fact `unloc:v@line` means "on some path the node built
            # at that line and held by v has not been located yet"
            def gen(node):
                sv = site_of(node)
                return [f'unloc:{sv[0]}@{node.lineno}'] if sv else []
            live = set()

            def kill(node):
                vs = located_by(node)
                return [f for f in live if f.split(':', 1)[1].split('@')[0] in vs] if vs else []
            sites = [a for a in walk_shallow(fn) if site_of(a)]
            inline = [c for st in walk_shallow(fn) if isinstance(st, (ast.Return, ast.Expr)) and st.value is not None
                      for c in ctor_in(st.value)]
            if not sites and not inline:
                continue
            live.update(f'unloc:{site_of(a)[0]}@{a.lineno}' for a in sites)
            exits, rebound = [], []

            def on_stmt(node, st):
                sv = site_of(node)
                if sv:
                    rebound.extend((f, node) for f in st if f.startswith(f'unloc:{sv[0]}@'))
            Flow(gen, mode='may', kill=kill, on_stmt=on_stmt,
                 on_exit=lambda node, kind, st: exits.append((node, kind, st)) if kind != 'raise' else None).run(fn)
            for a in sites:
                v = site_of(a)[0]
                fact = f'unloc:{v}@{a.lineno}'
                n += 1
                missing = [e for e in exits if fact in e[2]]
                reb = [nd for f, nd in rebound if f == fact]
                detail = ''
                if missing:
                    detail = (f'the exit at line {getattr(missing[0][0], "lineno", "end")} is reachable without '
                              f'copy_node_metadata(node_trg={v}) after this construction')
                elif reb:
                    detail = f'{v} is rebound to a new node at line {reb[0].lineno} before this one was located'
                ctx.ob('C05.R3', f'{mn.split(".")[-1]}.{qualname_of(fn)}:{v}' + (f'#{[x for x in sites if site_of(x)[0] == v].index(a) + 1}'
                                                                              if len([x for x in sites if site_of(x)[0] == v]) > 1 else ''),
                       m.where(a), f'node {v} = {norm(site_of(a)[1])[:50]} is located on every path before the function exits',
                       not missing and not reb, detail)
            for c in inline:
                n += 1
                ctx.ob('C05.R3', f'{mn.split(".")[-1]}.{qualname_of(fn)}:inline:{norm(c)[:40]}', m.where(c),
                       'a node constructed inline in a return value is never located', False, norm(c)[:80])
    ctx.floor('C05.R3', n, 15, 'node constructions')
    # writers of locations
    for mn, m in sorted(repo.modules.items()):
        if not (mn.startswith('beartype.claw') or mn.startswith('beartype._util.ast')):
            continue
        for x in ast.walk(m.tree):
            if isinstance(x, ast.Attribute) and x.attr in ('lineno', 'col_offset', 'end_lineno', 'end_col_offset') \
                    and isinstance(x.ctx, ast.Store):
                from sa.repo import enclosing_function
                fn = enclosing_function(x)
                ctx.ob('C05.R3', f'location-writer:{mn.split(".")[-1]}.{getattr(fn, "name", "?")}:{x.attr}', m.where(x),
                       'only copy_node_metadata writes node locations', getattr(fn, 'name', '') == 'copy_node_metadata',
                       f'{norm(x)} is assigned in {getattr(fn, "name", "?")}')
            if isinstance(x, ast.Call) and (dotted(x.func) or '').split('.')[-1] in ('fix_missing_locations', 'increment_lineno'):
                ctx.ob('C05.R3', f'location-rewriter:{mn}', m.where(x), 'original line numbers are never rewritten',
                       False, norm(x)[:80])


class _ANode(AObj):
    def __init__(self, kind, **kw):
        self.kind = kind
        for k, v in kw.items():
            setattr(self, k, v)

    def __repr__(self):
        return f'<ast.{self.kind}>'


_EXPR_KINDS = {'Name', 'Attribute', 'Subscript', 'Call', 'Constant', 'Tuple', 'List', 'Starred', 'BinOp', 'NamedExpr'}


def _subnodes(n):
    """The abstract node and every abstract node below it."""
    out, todo = [], [n]
    while todo:
        x = todo.pop()
        if isinstance(x, _ANode):
            if any(x is y for y in out):
                continue
            out.append(x)
            todo.extend(vars(x).values())
        elif isinstance(x, (list, tuple)):
            todo.extend(x)
        elif isinstance(x, dict):
            todo.extend(v for k, v in x.items() if k != 'node_sibling')      # (the location donor is not a child)
    return out


def _reachable(nodes):
    return {id(x) for n in nodes for x in _subnodes(n)}


class _Scopes(AObj):
    """The transformer's stack of lexical scopes (only what visit_AnnAssign reads)."""

    def __getitem__(self, i):
        top = AObj()
        top.name = 'enclosing'
        return top


def _typed_positions(ctx, tm, tf):
    """is_node_callable_typed, interpreted on abstract callable nodes: one per annotation
    position (for list-valued positions: only the *second* parameter annotated), plus the
    unannotated callable."""
    from . import _gen
    F = _gen.engines(ctx)[0].f
    fn = F.const('beartype._util.ast.utilasttest', 'is_node_callable_typed')
    ctx.require(isinstance(fn, FuncVal), 'anchor vanished: is_node_callable_typed')
    hint = _ANode('Name', id='int')

    def node(pos):
        def arg(a):
            return _ANode('arg', arg='p', annotation=hint if a else None)
        a = _ANode('arguments', vararg=None, kwarg=None, args=[], kwonlyargs=[], posonlyargs=[], defaults=[], kw_defaults=[])
        n = _ANode('FunctionDef', name='f', returns=None, args=a, body=[], decorator_list=[])
        if pos == 'returns':
            n.returns = hint
        elif pos in ('vararg', 'kwarg'):
            setattr(a, pos, arg(True))
            setattr(a, 'kwarg' if pos == 'vararg' else 'vararg', arg(False))
        elif pos is not None:
            setattr(a, pos, [arg(False), arg(True)])
        return n
    for pos in ('returns', 'vararg', 'kwarg', 'args', 'kwonlyargs', 'posonlyargs', None):
        try:
            out = _call_function(F, fn, [node(pos)], {}, 1)
        except (_Abort, _Raise) as ex:
            ctx.require(False, f'cannot interpret is_node_callable_typed: {ex}')
        want = pos is not None
        ctx.ob('C05.R2', f'is_node_callable_typed:{pos or "unannotated"}', tm.where(tf),
               'a callable is typed iff some annotation position (return, *args, **kwargs, any flexible, '
               'keyword-only or positional-only parameter) is annotated', out is want,
               f'a callable whose only annotation is at `{pos}` is reported as typed={out!r}')


def _hookable(ctx, pm, hf, RULE='C05.R6'):
    """make_conf_hookable, interpreted for both values of the "user set the warning class" flag."""
    from sa.fold import _PyCallable
    from sa.gen import AConf
    from . import _gen
    F = _gen.engines(ctx)[0].f
    fn = F.const('beartype.claw._package._clawpkgmake', 'make_conf_hookable')
    made = []

    def mkconf(*a, **kw):
        made.append(kw)
        return AConf(_made_from=kw)
    saved = dict(F.stubs)
    old = F.patch_global('beartype._conf.confmain', 'BeartypeConf', _PyCallable(mkconf))
    F.stubs['beartype._conf.conftest.die_unless_conf'] = lambda e, a, k: None
    try:
        for isset in (False, True):
            # (the public option reads None in both cases: an explicit None means "raise at decoration time")
            conf = AConf(_is_warning_cls_on_decorator_exception_set=isset, warning_cls_on_decorator_exception=None)
            conf.kwargs = {'is_debug': False, 'claw_is_pep526': True, 'warning_cls_on_decorator_exception': None}
            del made[:]
            try:
                out = _call_function(F, fn, [conf], {}, 1)
            except (_Abort, _Raise) as ex:
                ctx.require(False, f'cannot interpret make_conf_hookable: {ex}')
            if isset:
                ok = out is conf
                detail = f'returns {out!r} (configurations built: {len(made)})'
            else:
                kw = made[-1] if made else {}
                w = kw.get('warning_cls_on_decorator_exception')
                rest = {k: v for k, v in kw.items() if k != 'warning_cls_on_decorator_exception'}
                ok = len(made) == 1 and getattr(out, '_made_from', None) is kw and getattr(w, 'name', None) == 'BeartypeClawDecorWarning' \
                    and rest == {'is_debug': False, 'claw_is_pep526': True} and conf.kwargs['warning_cls_on_decorator_exception'] is None
                detail = f'returns {out!r}; built with warning class {w!r}, other options {rest}'
            ctx.ob(RULE, f'make_conf_hookable:warning-class:user-set={isset}', pm.where(hf),
                   'a configuration whose warning class the user did not set is replaced by an otherwise equal one '
                   'reporting decoration failures as BeartypeClawDecorWarning (the caller\'s kwargs untouched); a '
                   'user-set class is respected', ok, detail)
    finally:
        F.patch_global('beartype._conf.confmain', 'BeartypeConf', old)
        F.stubs.clear()
        F.stubs.update(saved)


def _route_selection(ctx, RULE):
    """Route selection of beartype_object, interpreted for {warning class set / unset} × {cls_stack absent / None / non-empty}."""
    from sa.gen import AConf
    from . import _gen
    repo = ctx.repo
    F = _gen.engines(ctx)[0].f
    cm = repo.mod('beartype._decor.decorcore')
    fn = F.const('beartype._decor.decorcore', 'beartype_object')
    ctx.require(isinstance(fn, FuncVal), 'anchor vanished: beartype_object')
    saved = dict(F.stubs)
    route = []
    F.stubs['beartype._decor.decorcore._beartype_object_fatal'] = lambda e, a, k: route.append('fatal') or 'result'
    F.stubs['beartype._decor.decorcore._beartype_object_nonfatal'] = lambda e, a, k: route.append('nonfatal') or 'result'
    try:
        for wcls in (None, 'W'):
            for stack in ('absent', 'None', 'non-empty'):
                kw = {} if stack == 'absent' else {'cls_stack': None if stack == 'None' else ('C',)}
                del route[:]
                try:
                    _call_function(F, fn, ['obj'], dict(conf=AConf(warning_cls_on_decorator_exception=wcls), **kw), 1)
                except (_Abort, _Raise) as ex:
                    ctx.require(False, f'cannot interpret beartype_object: {ex}')
                want = ['fatal'] if wcls is None else ['nonfatal']
                ctx.ob(RULE, f'beartype_object:route:warning-class-set={wcls is not None}:cls_stack={stack}', cm.where(fn.node),
                       'a decoration failure is reported as a warning exactly when the configuration names a warning '
                       'class — for module-level objects and for members of a class being decorated alike', route == want,
                       f'route taken: {route}; with such a configuration a failing method aborts the decoration of '
                       f'the remaining members of its class' if wcls is not None else f'route taken: {route}')
    finally:
        F.stubs.clear()
        F.stubs.update(saved)


def _module_prefix(ctx):
    """R4 by interpretation: visit_Module over abstract module bodies."""
    from . import _gen
    repo = ctx.repo
    ctx.rule('C05.R4', 'visit_Module, interpreted over abstract module bodies (every prefix of 0–3 statements drawn from '
             '{docstring expression, from __future__ import}, followed by nothing, by an ordinary statement, or by an '
             'ordinary statement and a late docstring-like expression): the star import is inserted exactly after the '
             'maximal preamble, nothing is removed or reordered, and a module consisting only of a preamble is unchanged')
    F = _gen.engines(ctx)[0].f
    cls = F.const('beartype.claw._ast._kind.clawastmodule', 'BeartypeNodeTransformerModuleMixin')
    fn = cls.find('visit_Module')
    ctx.require(isinstance(fn, FuncVal), 'anchor vanished: visit_Module')
    mod = repo.mod('beartype.claw._ast._kind.clawastmodule')
    saved_stubs, saved_inst = dict(F.stubs), F.isinstance_hook

    def inst(obj, c):
        if isinstance(obj, _ANode):
            nm = getattr(c, 'name', repr(c)).split('.')[-1]
            return nm == obj.kind or (nm == 'AST')
        return saved_inst(obj, c) if saved_inst else None
    F.isinstance_hook = inst
    F.stubs['beartype._util.ast.utilastmake.make_node_importfrom'] = \
        lambda e, a, k: _ANode('ImportFrom', module=k.get('module_name'), injected=True, sibling=k.get('node_sibling'))

    class _Self(AObj):
        pass
    doc = lambda: _ANode('Expr', value=_ANode('Constant', value='doc'))
    fut = lambda: _ANode('ImportFrom', module='__future__')
    stmt = lambda: _ANode('Assign', value=_ANode('Constant', value=1))
    late = lambda: _ANode('Expr', value=_ANode('Constant', value='not a docstring'))
    imp = lambda: _ANode('ImportFrom', module='os')
    n = 0
    agg = {}
    try:
        import itertools
        prefixes = [()] + [p_ for k in (1, 2, 3) for p_ in itertools.product((doc, fut), repeat=k)]
        tails = {'nothing': (), 'statement': (stmt,), 'ordinary-import-first': (imp, stmt), 'statement-then-late-expression': (stmt, late, fut)}
        for pre in prefixes:
            for tname, tail in tails.items():
                body = [mk() for mk in pre] + [mk() for mk in tail]
                orig = list(body)
                node = _ANode('Module', body=body)
                s_ = _Self()
                s_.generic_visit = lambda node_: node_
                try:
                    out = _call_function(F, fn, [s_, node], {}, 1)
                except (_Abort, _Raise) as ex:
                    ctx.require(False, f'cannot interpret visit_Module: {ex}')
                n += 1
                got = out.body if isinstance(out, _ANode) else None
                k = len(pre)
                want_inserted = bool(tail)
                ok = got is not None and [x for x in got if not getattr(x, 'injected', False)] == orig and (
                    (not want_inserted and len(got) == len(orig)) or
                    (want_inserted and len(got) == len(orig) + 1 and getattr(got[k], 'injected', False)))
                key = 'preamble-only-module-unchanged' if not tail else 'import-inserted-right-after-the-preamble'
                a_ = agg.setdefault(key, [0, None])
                a_[0] += 1
                if not ok and a_[1] is None:
                    a_[1] = (f'body [{", ".join(x.kind + (":" + str(getattr(x, "module", "")) if x.kind == "ImportFrom" else "") for x in orig)}] '
                             f'({len(pre)} preamble statements) becomes '
                             f'[{", ".join(("<beartype import>" if getattr(x, "injected", False) else x.kind) for x in (got or []))}]')
    finally:
        F.stubs.clear()
        F.stubs.update(saved_stubs)
        F.isinstance_hook = saved_inst
    for key in ('import-inserted-right-after-the-preamble', 'preamble-only-module-unchanged'):
        cnt, why = agg.get(key, [0, 'no body of this class was evaluated'])
        ctx.ob('C05.R4', f'visit_Module:{key}', mod.where(fn.node), f'{key} ({cnt} abstract module bodies)', why is None and cnt > 0, why or '')
    ctx.floor('C05.R4', n, 50, 'abstract module bodies')


def _dispatch_and_publication(ctx):
    """R6 (route selection of beartype_object) and R8 (the configuration a module is transformed
    with is the configuration its injected code finds at run time)."""
    repo = ctx.repo
    _route_selection(ctx, 'C05.R6')

    ctx.rule('C05.R8', 'one configuration per transformed module: BeartypeSourceFileLoader.get_code, interpreted over {module '
             'name excluded or not} × {configuration registered or not} × {the standard loader returns / raises} with a '
             'stale run-time table entry present — when the standard loader compiles a hooked module the looked-up '
             'configuration is on the loader (self._module_conf, what source_to_code hands to the transformer), the '
             'module name is on the loader, and the run-time table maps the module name to that same configuration '
             '(what the injected code looks up); a module that is not hooked publishes nothing; source_to_code passes '
             'exactly those two attributes to the transformer')
    lm = repo.mod('beartype.claw._importlib._clawimpfileloader')
    from .c16 import loader_protocol
    loader_protocol(ctx, None, 'C05.R8')
    from .c16 import source_to_code_protocol
    source_to_code_protocol(ctx, 'C05.R8')
    um = repo.mod('beartype.claw._ast._clawastutil')
    kc = repo.find_def(um.name, 'BeartypeNodeTransformerUtilityMixin._make_node_keyword_conf')
    # by interpretation: the keyword the injected decorator carries is conf=<table>[<module name>] — the table attribute and the
    # key are whatever the factory helpers are handed (positionally or by keyword, literally or through a constant)
    from sa.fold import AObj as _AO, FuncVal as _FV, _Abort as _Ab, _Raise as _Ra, _call_function as _cf, bind_call
    from . import _gen
    F_ = _gen.engines(ctx)[0].f
    ucls = F_.const(um.name, 'BeartypeNodeTransformerUtilityMixin')
    kfn = ucls.find('_make_node_keyword_conf')
    ctx.require(isinstance(kfn, _FV), 'anchor vanished: _make_node_keyword_conf')
    mkq = 'beartype._util.ast.utilastmake.'
    rec = {}
    saved_st = dict(F_.stubs)
    for nm_, fv_ in sorted(F_.module_env(mkq[:-1]).items()):
        if isinstance(fv_, _FV) and nm_.startswith('make_node') and fv_.module == mkq[:-1]:
            F_.stubs[mkq + nm_] = (lambda nm_, fv_: (lambda e, a, k: rec.setdefault(nm_, []).append(bind_call(fv_, a, k)) or ('NODE', nm_)))(nm_, fv_)

    F_.stubs['beartype._util.ast.utilastmunge.copy_node_metadata'] = lambda e, a, k: None
    F_.ext_stubs_saved = dict(F_.ext_stubs)
    for K_ in ('Subscript', 'Name', 'Attribute', 'Constant', 'keyword', 'Load', 'Store'):
        F_.ext_stubs[f'ast.{K_}'] = (lambda K_: (lambda e, a, k: ('NODE', K_)))(K_)

    class _S(_AO):
        _module_name = 'pkg.mod'
    try:
        try:
            _cf(F_, kfn, [_S()], {'node_sibling': 'SIBLING'}, 1)
        except (_Ab, _Ra) as ex:
            ctx.require(False, f'cannot interpret _make_node_keyword_conf: {ex}')
    finally:
        F_.stubs.clear()
        F_.stubs.update(saved_st)
        F_.ext_stubs.clear()
        F_.ext_stubs.update(F_.ext_stubs_saved)
    txt = [b.get('text') for b in rec.get('make_node_str', [])]
    attr = [b.get('attr_name') for b in rec.get('make_node_object_attr_load', [])]
    ctx.ob('C05.R8', 'injected-lookup:same-table-same-key', um.where(kc),
           'injected code reads module_name_to_beartype_conf[<module name>]', txt == ['pkg.mod'] and
           attr == ['module_name_to_beartype_conf'], f'key {txt}, table {attr}')


def _annassign(ctx):
    ctx.rule('C05.R5', 'exhaustive over target kind ∈ {Name, Attribute (parent a Name / Attribute / Subscript / Call), Subscript} × claw_is_pep526 × has-value × '
             'class-scope, by interpreting visit_AnnAssign on abstract nodes: value ∧ option ∧ ¬class-scope ⇒ the '
             'result is [node, <die_if_unbearable call>]; otherwise the node is returned unchanged')
    from sa.gen import AConf
    from . import _gen
    G = _gen.engines(ctx)[0]
    F = G.f
    cls = F.const('beartype.claw._ast._kind.clawastassign', 'BeartypeNodeTransformerAssignMixin')
    fn = cls.find('visit_AnnAssign')
    ctx.require(isinstance(fn, FuncVal), 'anchor vanished: visit_AnnAssign')
    raiser = F.const('beartype._data.claw.dataclawmagic', 'BEARTYPE_RAISER_FUNC_NAME')
    saved_stubs, saved_inst, saved_ext = dict(F.stubs), F.isinstance_hook, dict(F.ext_stubs)

    def inst(obj, c):
        if isinstance(obj, _ANode):
            nm = getattr(c, 'name', repr(c)).split('.')[-1]
            return nm == obj.kind or nm in ('AST', 'expr' if obj.kind in _EXPR_KINDS else 'stmt')
        return saved_inst(obj, c) if saved_inst else None
    F.isinstance_hook = inst
    mk = 'beartype._util.ast.utilastmake.'
    made = []
    # nodes built directly with the ast constructors (rather than through the utilastmake helpers)
    for K in _EXPR_KINDS | {'Expr', 'keyword'}:
        F.ext_stubs[f'ast.{K}'] = (lambda K: lambda e, a, k: made.append(_ANode(K, made_with=dict(k), args=list(a), **k)) or made[-1])(K)

    from sa.fold import bind_call

    def maker(kind, fv):
        def f(env, a, k):
            # (however the factory is called — positionally or by keyword — the record is by parameter name)
            b = bind_call(fv, a, k) if isinstance(fv, FuncVal) else dict(k)
            n = _ANode(kind, made_with=b, args=[])
            made.append(n)
            return n
        return f
    for nm, kind in (('make_node_name_load', 'Name'), ('make_node_object_attr_load', 'Attribute'), ('make_node_str', 'Constant'),
                     ('make_node_kwarg', 'keyword'), ('make_node_call_expr', 'ExprCall'), ('make_node_call', 'Call')):
        # (make_node_call_expr(*args, node_sibling, **kwargs) forwards its arguments to make_node_call: bound against that signature)
        F.stubs[mk + nm] = maker(kind, F.const(mk[:-1], 'make_node_call' if nm == 'make_node_call_expr' else nm))
    F.ext_stubs['ast.unparse'] = lambda e, a, k: 'obj'
    F.stubs['beartype._util.text.utiltextansi.color_attr_name'] = lambda e, a, k: 'name'
    F.stubs['beartype._util.ast.utilastmunge.copy_node_metadata'] = lambda e, a, k: None
    from sa.fold import BoundMethod

    class _Self(AObj):
        """Abstract transformer instance: explicit attributes first, then the methods of the real mixin class."""

        def __getattr__(self, name):
            f_ = cls.find(name)
            if isinstance(f_, FuncVal):
                return BoundMethod(self, f_)
            raise AttributeError(name)
    n = 0
    single = {}
    try:
        # target kinds of the grammar; an attribute target is taken with every kind of parent expression
        for tkind in ('Name', 'Attribute', 'Attribute(of Attribute)', 'Attribute(of Subscript)', 'Attribute(of Call)', 'Subscript'):
            for opt in (True, False):
                for has_value in (True, False):
                    for scope in ('class', 'module', 'function'):
                        cls_scope = scope == 'class'
                        n += 1
                        s = _Self()
                        s._conf = AConf(claw_is_pep526=opt)
                        s._module_name = 'pkg.mod'
                        sc = _Scopes()
                        sc.is_scope_class, sc.is_scope_module = cls_scope, scope == 'module'
                        s._scopes = sc
                        s.generic_visit = lambda node: node
                        s.map_node_attr_imported_to_assigned = lambda *a, **k: None
                        s._make_node_keyword_conf = lambda *a, **k: _ANode('keyword')
                        pk = tkind[len('Attribute(of '):-1] if '(' in tkind else 'Name'
                        par = _ANode(pk, id='o', attr='b', value=_ANode('Name', id='p'), slice=_ANode('Constant'),
                                     func=_ANode('Name', id='f'), args=[], keywords=[])
                        tgt = _ANode(tkind.split('(')[0], id='v', attr='a', value=par,
                                     slice=_ANode('Call', func=_ANode('Name', id='k'), args=[], keywords=[]))
                        hint = _ANode('Subscript', value=_ANode('Name', id='list'), slice=_ANode('Name', id='int'))
                        node = _ANode('AnnAssign', target=tgt, annotation=hint,
                                      value=_ANode('Constant') if has_value else None)
                        del made[:]
                        try:
                            out = _call_function(F, fn, [s, node], {}, 1)
                        except (_Abort, _Raise) as ex:
                            ctx.require(False, f'cannot interpret visit_AnnAssign({tkind}): {ex}')
                        want_check = opt and has_value and not cls_scope
                        if want_check:
                            ok = isinstance(out, (list, tuple)) and len(out) == 2 and out[0] is node and isinstance(out[1], _ANode) \
                                and out[1].kind == 'ExprCall' and out[1].made_with.get('func_name') == raiser
                            detail = f'returns {out!r}: the statement is left unchecked'
                        else:
                            ok = out is node
                            detail = f'returns {out!r}'
                        ctx.ob('C05.R5', f'annassign:{tkind}:pep526={opt}:value={has_value}:class_scope={cls_scope}' + (':scope=function' if scope == 'function' else ''),
                               'beartype/claw/_ast/_kind/clawastassign.py:0',
                               'a check is appended exactly when the assignment has a value, the option is on and '
                               'the scope is not a class body', ok, detail)
                        if isinstance(out, (list, tuple)) and len(out) >= 2:
                            # R9: which original sub-expressions does the injected statement evaluate again?
                            reached = _reachable(list(out[1:]))
                            again = {}
                            for role, orig in (('annotation', hint), ('target-object', par), ('target-index', tgt.slice)):
                                for o_ in _subnodes(orig):
                                    if id(o_) in reached and o_.kind not in ('Name', 'Constant'):
                                        again.setdefault(role, o_)
                            single.setdefault(('annotation', f'{scope}-scope'), []).append(
                                (tkind, again.get('annotation')))
                            single.setdefault(('target', tkind), []).append((tkind, again.get('target-object') or again.get('target-index')))
    finally:
        F.stubs.clear()
        F.stubs.update(saved_stubs)
        F.isinstance_hook = saved_inst
        F.ext_stubs.clear()
        F.ext_stubs.update(saved_ext)
    ctx.floor('C05.R5', n, 72, 'target kind × option × value × scope cases')
    ctx.rule('C05.R9', 'each original expression is evaluated exactly once: in the results of the interpreted visit_AnnAssign '
             '(module scope — where the annotation of the original statement is evaluated too; compound annotation; '
             'compound object / index expressions in the target) no compound sub-expression of the original statement is '
             'reachable from the injected statement')
    for (what, which), cases in sorted(single.items()):
        bad = [(t_, n_) for t_, n_ in cases if n_ is not None]
        if (what, which) == ('annotation', 'function-scope'):
            bad = []        # the annotation of a local variable is not evaluated by the original statement (PEP 526)
        ctx.ob('C05.R9', f'single-evaluation:{what}:{which}', 'beartype/claw/_ast/_kind/clawastassign.py:0',
               f'the injected check does not evaluate the {what} expression of the statement a second time ({len(cases)} cases)',
               not bad, f'for a {bad[0][0]} target the injected statement contains the original <ast.{bad[0][1].kind}> '
               f'{what} expression, which the original statement evaluates as well' if bad else '')


def _placement(ctx):
    """R7 by interpretation: where the decorator goes, per node kind × configured positions × existing decorators."""
    from sa.fold import BoundMethod, ClassVal
    from sa.gen import AConf
    from . import _gen
    repo = ctx.repo
    F = _gen.engines(ctx)[0].f
    IM = 'beartype.claw._ast._kind.clawastimport'
    im = repo.mod(IM)
    cls = F.const(IM, 'BeartypeNodeTransformerImportMixin')
    # the placement dispatch, by role: the method of the mixin that reads both placement options
    cands = [f for f in cls.node.body if isinstance(f, ast.FunctionDef) and
             {'claw_decor_place_type', 'claw_decor_place_func'} <= {x.attr for x in ast.walk(f) if isinstance(x, ast.Attribute)}]
    ctx.require(len(cands) == 1, f'anchor vanished: the decorator placement dispatch (candidates {[f.name for f in cands]})')
    fn = cls.find(cands[0].name)
    ctx.require(isinstance(fn, FuncVal), 'anchor vanished: the decorator placement dispatch')
    penum = repo.mod('beartype._conf.decorplace.confplaceenum')

    def place(name):
        return F.eval_in(penum, ast.parse(f'BeartypeDecorPlace.{name}', mode='eval').body)
    saved_stubs, saved_inst, saved_ext = dict(F.stubs), F.isinstance_hook, dict(F.ext_stubs)

    def inst(obj, c):
        if isinstance(obj, _ANode):
            nm = getattr(c, 'name', repr(c)).split('.')[-1]
            return nm == obj.kind or nm in ('AST', 'expr' if obj.kind in _EXPR_KINDS else 'stmt')
        if isinstance(obj, AConf) and 'BeartypeConf' in repr(c):
            return True
        if isinstance(obj, bool) and isinstance(c, ClassVal):
            return False        # a plain bool is not an instance of a repository class
        return saved_inst(obj, c) if saved_inst else None
    F.isinstance_hook = inst
    for K in _EXPR_KINDS | {'keyword'}:
        F.ext_stubs[f'ast.{K}'] = (lambda K: lambda e, a, k: _ANode(K, injected=True, **k))(K)
    F.ext_stubs['ast.unparse'] = lambda e, a, k: 'decorator'
    F.stubs['beartype._util.ast.utilastmunge.copy_node_metadata'] = lambda e, a, k: None
    DEFAULT = AConf()
    old_default = F.patch_global(IM, 'BEARTYPE_CONF_DEFAULT', DEFAULT)

    class _Self(AObj):
        def __getattr__(self, name):
            f_ = cls.find(name)
            if isinstance(f_, FuncVal):
                return BoundMethod(self, f_)
            raise AttributeError(name)
    n = 0
    P = {'FIRST': place('FIRST'), 'LAST': place('LAST'), 'HOSTILE': place('LAST_BEFORE_DECOR_HOSTILE')}
    try:
        for kind in ('FunctionDef', 'AsyncFunctionDef', 'ClassDef'):
            for ptype, pfunc in (('FIRST', 'LAST'), ('LAST', 'FIRST'), ('HOSTILE', 'FIRST'), ('FIRST', 'HOSTILE'), ('LAST', 'HOSTILE'),
                                 ('HOSTILE', 'LAST')):
                for decos in ((), ('plain',), ('hostile', 'plain'), ('hostile', 'hostile'), ('plain', 'hostile')):
                    for conf_default in (True, False):
                        conf = DEFAULT if conf_default else AConf()
                        conf.claw_decor_place_type, conf.claw_decor_place_func = P[ptype], P[pfunc]
                        originals = [_ANode('Name', id=f'{d}_{i}', hostile=(d == 'hostile')) for i, d in enumerate(decos)]
                        node = _ANode(kind, name='thing', decorator_list=list(originals))
                        s = _Self()
                        s._conf, s._module_name = conf, 'pkg.mod'
                        s._scope = AObj()
                        s._scope.beforelist = AObj()
                        s._scope.beforelist.scoped_attr_basename_trie = {'hostile': True}
                        s._scope.beforelist.schema_attr_basename_trie = {}
                        s._is_node_scoped_attr_name = lambda nd: bool(getattr(nd, 'hostile', False))
                        s._make_node_keyword_conf = lambda *a, **k: _ANode('keyword', injected=True)
                        try:
                            _call_function(F, fn, [s], dict(node=node, conf=conf), 1)
                        except (_Abort, _Raise) as ex:
                            ctx.require(False, f'cannot interpret {fn.qual}: {ex}')
                        n += 1
                        after = node.decorator_list
                        new = [x for x in after if not any(x is o for o in originals)]
                        kept = [x for x in after if any(x is o for o in originals)]
                        pos = ptype if kind == 'ClassDef' else pfunc
                        lead = 0
                        for o in originals:
                            if not o.hostile:
                                break
                            lead += 1
                        want_idx = {'FIRST': len(originals), 'LAST': 0, 'HOSTILE': lead}[pos]
                        ok = len(new) == 1 and len(kept) == len(originals) and all(a is b for a, b in zip(kept, originals)) \
                            and after.index(new[0]) == want_idx and (new[0].kind == ('Name' if conf_default else 'Call'))
                        tag = f'{kind}:type={ptype}:func={pfunc}:decorators=[{",".join(decos)}]:conf={"default" if conf_default else "other"}'
                        agg_key = f'placement:{kind}:{pos}'
                        a_ = _PLACE_AGG.setdefault(agg_key, [0, None])
                        a_[0] += 1
                        if not ok and a_[1] is None:
                            a_[1] = (f'{tag}: decorator list afterwards {after!r} (injected at '
                                     f'{[after.index(x) for x in new]}, expected one {("Name" if conf_default else "Call")} at index {want_idx})')
    finally:
        F.stubs.clear()
        F.stubs.update(saved_stubs)
        F.isinstance_hook = saved_inst
        F.ext_stubs.clear()
        F.ext_stubs.update(saved_ext)
        F.patch_global(IM, 'BEARTYPE_CONF_DEFAULT', old_default)
    for key, (cnt, why) in sorted(_PLACE_AGG.items()):
        ctx.ob('C05.R7', key, im.where(fn.node), f'exactly one decorator is inserted, at the position the option for this kind of '
               f'definition prescribes, existing decorators keep their order ({cnt} cases)', why is None, why or '')
    _PLACE_AGG.clear()
    ctx.floor('C05.R7', n, 180, 'node kind × positions × existing decorators × configuration cases')


_PLACE_AGG = {}


def _helpers_locate_fresh_only(ctx, RULE):
    """The node factories of utilastmake, interpreted on abstract original nodes: line numbers are only ever copied onto
    nodes the factory itself created."""
    from . import _gen
    repo = ctx.repo
    F = _gen.engines(ctx)[0].f
    mm = repo.mod(MAKE)
    saved_stubs, saved_inst, saved_ext = dict(F.stubs), F.isinstance_hook, dict(F.ext_stubs)
    located = []

    def copy(env, a, k):
        trg = k.get('node_trg', a[1] if len(a) > 1 else None)
        located.extend(trg if isinstance(trg, (list, tuple)) else [trg])
    F.stubs['beartype._util.ast.utilastmunge.copy_node_metadata'] = copy

    def inst(obj, c):
        if isinstance(obj, _ANode):
            nm = getattr(c, 'name', repr(c)).split('.')[-1]
            return nm == obj.kind or nm in ('AST', 'expr' if obj.kind in _EXPR_KINDS else 'stmt')
        return saved_inst(obj, c) if saved_inst else None
    F.isinstance_hook = inst
    import ast as _ast
    for K in [k for k in dir(_ast) if isinstance(getattr(_ast, k), type) and issubclass(getattr(_ast, k), _ast.AST)]:
        F.ext_stubs[f'ast.{K}'] = (lambda K: lambda e, a, k: _ANode(K, fresh=True, **k))(K)
    n = 0
    try:
        for name, fv in sorted(F.module_env(MAKE).items()):
            if not (isinstance(fv, FuncVal) and fv.module == MAKE and name.startswith('make_node_')):
                continue
            a = fv.node.args
            params = a.posonlyargs + a.args + a.kwonlyargs
            if any(p.arg == 'code_snippet' for p in params):
                continue            # parses text: creates a whole tree, takes no original node
            originals = []

            def orig(kind='Name'):
                o = _ANode(kind, id='original', fresh=False)
                originals.append(o)
                return o
            kw = {}
            for p in params:
                ann = ast.unparse(p.annotation) if p.annotation is not None else ''
                if p.arg == 'node_sibling':
                    kw[p.arg] = orig('Assign')
                elif ann.startswith('List[') or ann.startswith('list['):
                    kw[p.arg] = [orig('keyword' if 'keyword' in ann else 'Name'), orig('keyword' if 'keyword' in ann else 'Name')]
                elif ann in ('str',):
                    kw[p.arg] = 'name'
                elif 'Optional[str]' in ann:
                    continue
                elif 'AST' in ann or 'expr' in ann:
                    kw[p.arg] = orig('Name')
            if a.kwarg is not None and not any(isinstance(v, list) for v in kw.values()):
                # a pass-through factory (make_node_call_expr): give it what the factory it wraps takes
                kw.update(func_name='name', nodes_args=[orig('Name')], nodes_kwargs=[orig('keyword')])
            del located[:]
            try:
                out = _call_function(F, fv, [], kw, 1)
            except (_Abort, _Raise) as ex:
                ctx.require(False, f'cannot interpret {fv.qual}: {ex}')
            n += 1
            bad = [x for x in located if any(x is o for o in originals)]
            ctx.ob(RULE, f'factory:{name}:locates-only-what-it-creates', mm.where(fv.node),
                   'line and column numbers are copied only onto nodes the factory created, never onto the nodes of the '
                   'original module it was handed (which keep their own positions)', not bad,
                   f'copies the position of the sibling statement onto {bad[:2]} (an argument of the factory: a node of the '
                   f'original tree)')
            ctx.ob(RULE, f'factory:{name}:locates-its-result', mm.where(fv.node), 'the node returned by the factory is located',
                   any(x is out for x in located) or not isinstance(out, _ANode) or not getattr(out, 'fresh', False),
                   f'returns {out!r} without position')
    finally:
        F.stubs.clear()
        F.stubs.update(saved_stubs)
        F.isinstance_hook = saved_inst
        F.ext_stubs.clear()
        F.ext_stubs.update(saved_ext)
    ctx.require(n >= 7, f'{RULE}: only {n} node factories of utilastmake were interpreted (7 confirmed by reading)')
